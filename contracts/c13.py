"""C13 - Gibbs kernels draw from the exact full conditional (deductive part: the conditional's parameters / logits are exactly
those of the model's joint density as a function of that variable; the sampler primitives are trusted)."""
from pyvc.api import *
from contracts.graph import G, M, N, TOTAL, install_graph_models

DR = "liesel/model/distreg.py"
MG = "liesel/model/goose.py"
MVN = "liesel/distributions/mvn_degen.py"
LOG = z3.Function("log", Real, Real)
SCALAR = z3.Function("scalar", U, Real)


def real_arith(ip):
    """arithmetic between reals and array-valued scalars: the array is read as the real scalar(x)"""
    def h(ip_, op, a, b):
        if op == "MatMult":
            return ip_.uf("matmul", ip_.to_U(a), ip_.to_U(b))
        ra = SCALAR(a) if is_z3(a) and a.sort() == U else a
        rb = SCALAR(b) if is_z3(b) and b.sort() == U else b
        return ip_.binop(op, ra, rb)
    ip.models["opaque_binop"] = h
    ip.models["jax.numpy.squeeze"] = lambda ip_, x, axis=None: x
    def gamma(ip_, key, a):
        r = z3.Function("gamma_draw", U, Real, Real)(ip_.to_U(key), to_sort(a, Real))
        ip_.ctx.assume(r > 0)  # A-RNG: a Gamma(a, 1) draw is positive
        return r

    ip.models["jax.random.gamma"] = gamma


@unit("C13.tau2_transition", "C13", [f"{DR}::tau2_gibbs_kernel", f"{DR}::tau2_gibbs_kernel.<locals>.transition"],
      assumptions=["A-RNG: b / gamma(key, a) with gamma ~ Gamma(a, 1) is an InverseGamma(a, b) draw (sampler primitive, trusted)", "A-REAL"])
def u_tau2_transition(ip):
    """the kernel returns, under the smoothing variance's own name, b* / gamma(key, a*) with a* = a + rank/2 and b* = b + beta'K beta/2,
    all five quantities read from the model state handed to THIS transition (not from construction time)."""
    c = ip.ctx
    real_arith(ip)
    a_s, b_s, r_s = [c.fresh(n, Real) for n in ("a_in_state", "b_in_state", "rank_in_state")]
    beta, K = z3.Const("beta_in_state", U), z3.Const("K_in_state", U)
    in_state = {"a": a_s, "b": b_s, "rank": r_s, "beta": beta, "K": K}
    at_construction = {k: (c.fresh(f"{k}_at_construction", Real) if k in ("a", "b", "rank") else z3.Const(f"{k}_at_construction", U)) for k in in_state}
    state = z3.Const("model_state", U)
    def member(k, value):
        o = PyObj(f"member_{k}", value=value)
        o.attrs["name"] = f"np0_{k}"
        return o

    members = {k: member(k, at_construction[k]) for k in in_state}
    members["tau2"] = member("tau2", c.fresh("tau2_old", Real))

    def value_from(ip_, ms, name):
        ip_.ctx.ghost.setdefault("reads", []).append((ms, name))
        return in_state[name]

    group = PyObj("group", value_from=PyFn(value_from, "value_from"), __getitem__=PyFn(lambda ip_, k: members[k], "group[]"))
    kernel = ip.call(ip.repo(f"{DR}::tau2_gibbs_kernel"), [group], {})
    c.oblige("kernel_samples_tau2_only", ip.getattr(kernel, "position_keys") == ("np0_tau2",))
    key = z3.Const("key", U)
    out = ip.call(kernel.f["_transition_fn"], [key, state], {})
    q = SCALAR(ip.uf("matmul", ip.uf("matmul", beta, K), beta))
    a_star, b_star = a_s + r_s / 2, b_s + q / 2
    c.oblige("returns_only_tau2", isinstance(out, dict) and list(out) == ["np0_tau2"])
    c.oblige("draw_is_b_star_over_gamma_a_star", to_sort(out["np0_tau2"], Real) == b_star / z3.Function("gamma_draw", U, Real, Real)(key, a_star))
    c.oblige("reads_the_given_state", all(ms is state for ms, _ in c.ghost.get("reads", [])))


@unit("C13.np_smooth_group_is_the_priors_parameters", "C13", [f"{DR}::DistRegBuilder.add_np_smooth", f"{DR}::DistRegBuilder.add_predictor", f"{DR}::DistRegBuilder.add_response", f"{N}::Group.__init__"],
      summaries=["MultivariateNormalDegenerate.from_penalty (C18 / C13.tau2_conditional_identity)"],
      assumptions=["the penalty's rank is an arbitrary integer (full rank and rank-deficient penalties)", "A-TFP: distribution families as uninterpreted densities of their arguments"], max_paths=64)
def u_np_smooth_group(ip):
    """the glue between the kernel and the model: the group tau2_gibbs_kernel reads (a, b, rank, K, beta, tau2) consists of exactly the quantities
    that parameterise the model's prior - beta ~ from_penalty(loc=0, var=tau2, pen=K, rank=rank) and tau2 ~ InverseGamma(a, b), each input being the
    group member ITSELF (not a quantity derived from it) - so the conditional the kernel draws from (C13.tau2_transition) is the model's
    (C13.tau2_conditional_identity)."""
    c = ip.ctx
    from contracts.c02 import distreg_builder
    b = distreg_builder(ip, int_rank=True)
    groups = ip.call(method(ip, b, "groups"), [], {})
    c.oblige("one_group_per_smooth", sorted(groups) == ["loc_np0", "loc_p0", "scale_p0"])
    grp = groups["loc_np0"]
    mem = grp.f["_nodes_and_vars"]
    c.oblige("group_members", sorted(mem) == sorted(["smooth", "beta", "tau2", "rank", "X", "K", "a", "b"]))

    def feeds(var_or_node):  # the node a variable / node contributes as an input
        return ip.getattr(var_or_node, "var_value_node") if var_or_node.clsname == "Var" or ip.truth(ip.models["builtins.isinstance"](ip, var_or_node, ip.repo(f"{N}::Var"))) else var_or_node

    bd = ip.getattr(mem["beta"], "dist_node")
    kw = bd.f["_kwinputs"]
    c.oblige("beta_prior_inputs_are_the_group_members", sorted(kw) == ["loc", "pen", "rank", "var"] and kw["var"] is feeds(mem["tau2"]) and kw["pen"] is feeds(mem["K"]) and kw["rank"] is feeds(mem["rank"])
             and len(bd.f["_inputs"]) == 0, inputs=str({k: str(ip.getattr(v, "name")) for k, v in kw.items()}))
    loc = kw.get("loc")
    c.oblige("beta_prior_is_centred_at_zero", loc is not None and loc.clsname in ("Value", "Data") and ip.getattr(loc, "value") == 0.0)
    td = ip.getattr(mem["tau2"], "dist_node")
    tkw = td.f["_kwinputs"]
    c.oblige("tau2_prior_inputs_are_the_group_members", sorted(tkw) == ["concentration", "scale"] and tkw["concentration"] is feeds(mem["a"]) and tkw["scale"] is feeds(mem["b"]) and len(td.f["_inputs"]) == 0)
    # the families: evaluate both distribution nodes' functions on marker arguments
    d_beta = ip.call(bd.f["_distribution"], [], {"loc": 0.0, "var": z3.Const("m_var", U), "pen": z3.Const("m_pen", U), "rank": z3.Const("m_rank", U)})
    d_tau2 = ip.call(td.f["_distribution"], [], {"concentration": z3.Const("m_a", U), "scale": z3.Const("m_b", U)})
    c.oblige("families", d_beta.attrs.get("family") == "MVNDegen" and d_tau2.attrs.get("family") == "InverseGamma")
    # the values the group members hold are the arguments the builder was given
    c.oblige("members_hold_the_given_quantities", ip.to_U(ip.getattr(mem["K"], "value")).eq(z3.Const("K2", U)) and ip.getattr(mem["a"], "value") == 1.0 and ip.getattr(mem["b"], "value") == 0.5
             and ip.to_U(ip.getattr(mem["rank"], "value")).eq(ip.to_U(ip.uf("matrix_rank", z3.Const("K2", U), sort=Int))))


@unit("C13.kernels_of_dist_reg_mcmc_belong_to_their_own_smooth", "C13", [f"{DR}::dist_reg_mcmc", f"{DR}::tau2_gibbs_kernel", f"{DR}::tau2_gibbs_kernel.<locals>.transition", f"{N}::Group.value_from",
                                                                          f"{N}::Group.__getitem__", f"{N}::Group.__contains__"],
      assumptions=["REAL DistRegBuilder model with TWO non-parametric smooths (and parametric ones), real dist_reg_mcmc; a smoothing variance's conditional is read through the "
                   "kernel's transition function applied to a symbolic model state", "A-RNG", "A-REAL"], max_paths=64)
def u_dist_reg_mcmc(ip):
    """the convenience entry point builds, for every smoothing variance, a Gibbs kernel whose transition reads a, b, rank, K and beta of THAT variance's own group from
    the state it is handed (not of another smooth) and returns the draw under that variance's name."""
    c = ip.ctx
    real_arith(ip)
    from contracts.c02 import distreg_builder
    b = distreg_builder(ip, int_rank=True)
    ip.call(method(ip, b, "add_np_smooth"), [z3.Const("X4", U), z3.Const("K4", U), 4.0, 2.5, "scale"], {})
    model = ip.call(method(ip, b, "build_model"), [], {})
    ip.summaries["liesel/goose/interface.py::LieselInterface.__init__"] = lambda ip_, args, kwargs: None
    from contracts.c07 import install_pytree_models, tree_map_model
    install_pytree_models(ip)
    ip.models.setdefault("jax.tree_util.tree_map", tree_map_model)
    ip.models.setdefault("jax.tree.map", tree_map_model)
    ip.summaries["liesel/goose/builder.py::EngineBuilder.set_initial_values"] = lambda ip_, args, kwargs: None  # (initial values are C10's subject)
    ip.summaries["liesel/goose/builder.py::EngineBuilder.set_engine_seed"] = lambda ip_, args, kwargs: None
    eb = ip.call(ip.repo(f"{DR}::dist_reg_mcmc"), [model, 1, 2], {})
    real_arith(ip)  # (the model-building harness above installs its own array arithmetic; the transitions are read over the reals)
    kernels = list(ip.getattr(eb, "kernels"))
    gibbs = [k for k in kernels if getattr(k, "clsname", "") == "GibbsKernel"]
    names = [tuple(ip.getattr(k, "position_keys")) for k in gibbs]
    c.oblige("one_gibbs_kernel_per_smoothing_variance", sorted(names) == [("loc_np0_tau2",), ("scale_np0_tau2",)])
    groups = ip.call(method(ip, model, "groups"), [], {})
    state = {}
    for gname in ("loc_np0", "scale_np0"):
        for m_ in ("a", "b", "rank", "K", "beta", "tau2"):
            nm = ip.getattr(groups[gname].f["_nodes_and_vars"][m_], "name")
            vn = ip.getattr(ip.getattr(groups[gname].f["_nodes_and_vars"][m_], "value_node"), "name")
            val = c.fresh(f"{gname}.{m_}", Real) if m_ in ("a", "b", "rank", "tau2") else z3.Const(f"{gname}.{m_}", U)
            state[vn] = new_obj(ip, f"{N}::NodeState", value=val, outdated=False)
            state.setdefault("__vals__", {})[(gname, m_)] = val
    vals = state.pop("__vals__")
    key = z3.Const("key", U)
    for k in gibbs:
        pk = ip.getattr(k, "position_keys")[0]
        gname = pk[: -len("_tau2")]
        out = ip.call(k.f["_transition_fn"], [key, state], {})
        q = SCALAR(ip.uf("matmul", ip.uf("matmul", vals[(gname, "beta")], vals[(gname, "K")]), vals[(gname, "beta")]))
        a_star, b_star = vals[(gname, "a")] + vals[(gname, "rank")] / 2, vals[(gname, "b")] + q / 2
        c.oblige(f"{gname}.draw_from_its_own_smooths_conditional", isinstance(out, dict) and list(out) == [pk]
                 and to_sort(out[pk], Real) == b_star / z3.Function("gamma_draw", U, Real, Real)(key, a_star))


@unit("C13.group_value_from", "C13", [f"{N}::Group.value_from", f"{N}::Group.__getitem__", f"{N}::Group.__init__"])
def u_value_from(ip):
    """Group.value_from(state, name) reads the member's value from the GIVEN state: for a variable its value node's entry, for a
    node the node's own entry."""
    c = ip.ctx
    install_graph_models(ip)
    g = G(ip)
    v = g.var("beta")
    nd = ip.call(g.Value, [z3.Const("val_K", U)], {"_name": "K_node"})
    grp = ip.call(ip.repo(f"{N}::Group"), ["grp"], {"beta": v, "K": nd})
    state = {"beta_value": PyObj("ns", value=z3.Const("state_beta", U)), "K_node": PyObj("ns", value=z3.Const("state_K", U)), "beta": PyObj("ns", value=z3.Const("wrong", U))}
    c.oblige("var_member_reads_value_node_entry", ip.call(method(ip, grp, "value_from"), [state, "beta"], {}).eq(z3.Const("state_beta", U)))
    c.oblige("node_member_reads_own_entry", ip.call(method(ip, grp, "value_from"), [state, "K"], {}).eq(z3.Const("state_K", U)))
    # a SECOND group with the same member names for other variables (a second smooth): each group reads its own members, in any order of use
    v2 = g.var("beta2")
    nd2 = ip.call(g.Value, [z3.Const("val_K2", U)], {"_name": "K2_node"})
    grp2 = ip.call(ip.repo(f"{N}::Group"), ["grp2"], {"beta": v2, "K": nd2})
    state.update({"beta2_value": PyObj("ns", value=z3.Const("state_beta2", U)), "K2_node": PyObj("ns", value=z3.Const("state_K2", U))})
    c.oblige("second_group_reads_its_own_members", ip.call(method(ip, grp2, "value_from"), [state, "beta"], {}).eq(z3.Const("state_beta2", U))
             and ip.call(method(ip, grp2, "value_from"), [state, "K"], {}).eq(z3.Const("state_K2", U)))
    c.oblige("first_group_still_reads_its_own_members", ip.call(method(ip, grp, "value_from"), [state, "beta"], {}).eq(z3.Const("state_beta", U)))


@unit("C13.tau2_conditional_identity", "C13", [f"{MVN}::MultivariateNormalDegenerate.from_penalty", f"{MVN}::MultivariateNormalDegenerate._log_prob"],
      assumptions=["A-TFP: InverseGamma(a, b).log_prob(t) = a log b - lgamma(a) - (a + 1) log t - b / t", "A-LA: x'(K / v) x = (x' K x) / v", "A-REAL",
                   "model structure of DistRegBuilder.add_np_smooth: tau2 enters the joint density through its InverseGamma(a, b) prior and the coefficient prior from_penalty(0, tau2, K, rank) only"])
def u_tau2_identity(ip):
    """as a function of tau2 alone the model's joint log-density (InverseGamma prior + degenerate-normal coefficient prior, the latter
    obtained by executing the real from_penalty / _log_prob code) differs from log InverseGamma(tau2; a + rank/2, b + beta'K beta/2)
    by a constant: the difference is the same at any two values of tau2."""
    c = ip.ctx
    a, b, r, q, lpdK, log2pi = [c.fresh(n, Real) for n in ("a", "b", "rank", "q", "log_pdet_K", "log2pi")]
    lgam = z3.Function("lgamma", Real, Real)
    MV = ip.repo(f"{MVN}::MultivariateNormalDegenerate")
    K, beta = z3.Const("K", U), z3.Const("beta", U)
    QF = z3.Function("quad_form", U, Real)

    def joint(v):
        ip.models["jax.numpy.expand_dims"] = lambda ip_, x, axis=None: x
        ip.models["jax.numpy.swapaxes"] = lambda ip_, x, a_, b_: ip_.uf("transpose", ip_.to_U(x))
        ip.models["jax.numpy.linalg.eigvalsh"] = lambda ip_, m: ip_.uf("eigvalsh", ip_.to_U(m))
        ip.summaries[f"{MVN}::_log_pdet"] = lambda ip_, args, kwargs: lpdK
        # a rank derived from eigenvalues with the distribution's own tolerance is SOME function of the penalty - not the rank hyperparameter
        # the model hands over (C18.rank_and_log_pdet: number of eigenvalues above an absolute tolerance)
        ip.summaries[f"{MVN}::_rank"] = lambda ip_, args, kwargs: z3.Real("rank_by_eigenvalue_count")
        ip.models["const:jax.numpy.pi"] = lambda ip_: z3.Real("pi")
        prec_holder = {}

        def ob(ip_, op, x, y):
            if op == "Div" and is_z3(x) and x.eq(K):
                return ip_.uf("mat_div", K, to_sort(y, Real))
            return ip_.uf("mat_" + op, ip_.to_U(x), ip_.to_U(y))

        ip.models["opaque_binop"] = ob
        ip.models["jax.numpy.squeeze"] = lambda ip_, x, axis=None: QF(ip_.uf("mat_div", K, v))  # x' P x with P = K / v
        captured = {}
        _, m = MV.find(ip, "from_penalty")
        ip.call(m, [PyFn(lambda ip_, **kw: captured.update(kw), "cls"), 0.0, v, K], {"rank": r})
        d = Obj(MV, {"_loc": 0.0, "_prec": captured["prec"], "_rank": captured["rank"], "_log_pdet": captured["log_pdet"], "_tol": z3.RealVal(0)})
        c.assume(QF(ip.uf("mat_div", K, v)) == q / v)  # A-LA
        c.assume(LOG(2 * z3.Real("pi")) == log2pi)
        mvn = to_sort(ip.call(method(ip, d, "_log_prob"), [beta], {}), Real)
        prior = a * LOG(b) - lgam(a) - (a + 1) * LOG(v) - b / v
        return mvn + prior

    def ig(v, aa, bb):
        return aa * LOG(bb) - lgam(aa) - (aa + 1) * LOG(v) - bb / v

    v1, v2 = c.fresh("tau2_1", Real), c.fresh("tau2_2", Real)
    c.assume(And(v1 > 0, v2 > 0))
    a_star, b_star = a + r / 2, b + q / 2
    d1 = joint(v1) - ig(v1, a_star, b_star)
    d2 = joint(v2) - ig(v2, a_star, b_star)
    c.oblige("joint_density_proportional_to_inverse_gamma_a_star_b_star", d1 == d2)


@unit("C13.finite_discrete", "C13", [f"{MG}::finite_discrete_gibbs_kernel", f"{MG}::finite_discrete_gibbs_kernel.<locals>.transition_fn", f"{M}::Model.update", f"{M}::Model._recursive_inputs"],
      assumptions=["A-RNG: categorical(key, logits) draws index j with probability proportional to exp(logits[j]) (trusted)", "A-VMAP", "graph: k ~ Prior(); w = f(k) cached; y ~ Lik(w, m) observed; m ~ Pm(); beta ~ Pbeta(k); free ~ Dfree(k); res = f_res(k) ~ Dres() (k enters only through the evaluation point)"])
def u_finite_discrete(ip):
    """logits[j] is the model's joint log-density with the variable set to outcomes[j] and every other value taken from the model
    state handed to the transition (all ancestors of the log-probability re-evaluated), the draw is outcomes[categorical(key, logits)]
    and is returned under the variable's name; the user's model is not modified."""
    c = ip.ctx
    install_graph_models(ip)
    g = G(ip)
    k = g.var("k", dist=g.dist("Prior"), parameter=True)
    m = g.var("m", dist=g.dist("Pm"), parameter=True)
    w = g.var("w", value=g.calc("f_w", k))
    y = g.var("y", dist=g.dist("Lik", w, m), observed=True)
    beta = g.var("beta", dist=g.dist("Pbeta", k), parameter=True)  # the discrete variable parameterises the PRIOR of another parameter
    free = g.var("free", dist=g.dist("Dfree", k))  # ... and the distribution of a variable that is neither observed nor a parameter
    res = g.var("res", value=g.calc("f_res", k), dist=g.dist("Dres"), observed=True)  # ... and enters a density only through its point of evaluation (a residual)
    model = g.build(y, beta, free, res)
    outcomes = [z3.Const(f"outcome{j}", U) for j in range(3)]
    ip.models["jax.numpy.asarray"] = lambda ip_, x, *a, **kw: list(x) if isinstance(x, (list, tuple)) else x
    ip.models["jax.vmap"] = lambda ip_, f, **kw: PyFn(lambda ip2, xs: [ip2.call(f, [x], {}) for x in xs], "vmapped")
    got = {}

    def categorical(ip_, key, logits=None):
        got["logits"] = logits
        got["key"] = key
        return 1

    ip.models["jax.random.categorical"] = categorical
    auto0 = ip.truth(ip.getattr(model, "auto_update"))
    kernel = ip.call(ip.repo(f"{MG}::finite_discrete_gibbs_kernel"), ["k", model, outcomes], {})
    # building the kernel leaves the USER's model as it was - in particular its auto-update setting: values assigned to it afterwards still refresh
    # what depends on them, so that model.state stays a coherent state to start from
    c.oblige("building_the_kernel_leaves_the_users_auto_update_setting", auto0 is True and ip.truth(ip.getattr(model, "auto_update")) is True)
    # a COHERENT model state (as carried by the engine, C09) holding other values than the user's model currently has
    g2 = G(ip)
    k2 = g2.var("k", dist=g2.dist("Prior"), parameter=True)
    m2 = g2.var("m", value=z3.Const("state_m", U), dist=g2.dist("Pm"), parameter=True)
    w2 = g2.var("w", value=g2.calc("f_w", k2))
    y2 = g2.var("y", value=z3.Const("state_y", U), dist=g2.dist("Lik", w2, m2), observed=True)
    beta2 = g2.var("beta", value=z3.Const("state_beta", U), dist=g2.dist("Pbeta", k2), parameter=True)
    free2 = g2.var("free", value=z3.Const("state_free", U), dist=g2.dist("Dfree", k2))
    res2 = g2.var("res", value=g2.calc("f_res", k2), dist=g2.dist("Dres"), observed=True)
    st = ip.getattr(g2.build(y2, beta2, free2, res2), "state")
    key = z3.Const("key", U)
    out = ip.call(kernel.f["_transition_fn"], [key, st], {})
    LPf = lambda fam, *a: TOTAL(ip.uf(f"logp_{fam}", *[ip.to_U(x) for x in a]))  # noqa: E731
    lg = got.get("logits")
    c.oblige("one_logit_per_outcome", isinstance(lg, list) and len(lg) == 3)
    if isinstance(lg, list) and len(lg) == 3:
        for j, o in enumerate(outcomes):
            want = (LPf("Prior", o) + LPf("Pm", z3.Const("state_m", U)) + LPf("Lik", ip.uf("f_w", o), z3.Const("state_m", U), z3.Const("state_y", U))
                    + LPf("Pbeta", o, z3.Const("state_beta", U)) + LPf("Dfree", o, z3.Const("state_free", U)) + LPf("Dres", ip.uf("f_res", o)))
            c.oblige(f"logit_{j}_is_joint_density_at_outcome", to_sort(lg[j], Real) == want)
    c.oblige("draw_is_selected_outcome", isinstance(out, dict) and list(out) == ["k"] and ip.to_U(out["k"]).eq(outcomes[1]))
    c.oblige("categorical_gets_the_transition_key", got.get("key") is key)
    c.oblige("user_model_untouched", ip.to_U(ip.getattr(model.f["_vars"]["k"], "value")).eq(z3.Const("val_k", U)) and ip.to_U(ip.getattr(model.f["_vars"]["m"], "value")).eq(z3.Const("val_m", U)))


@unit("C13.finite_discrete_outcomes_from_the_prior", "C13", [f"{MG}::finite_discrete_gibbs_kernel", f"{MG}::finite_discrete_gibbs_kernel.<locals>.transition_fn"],
      assumptions=["A-RNG / A-VMAP as C13.finite_discrete; T: a tfd.FiniteDiscrete distribution exposes its grid as `.outcomes`, a tfd.Bernoulli has the grid {0, 1}",
                   "graph: k ~ FiniteDiscrete(outcomes = 3 arbitrary values, arbitrary weights); y ~ Lik(k) observed"])
def u_outcomes_from_prior(ip):
    """without an explicit grid the kernel evaluates EVERY outcome of the variable's FiniteDiscrete prior (whatever its weights are): one logit per prior
    outcome, each the joint log-density at that outcome."""
    c = ip.ctx
    install_graph_models(ip)
    outs = [z3.Const(f"prior_outcome{j}", U) for j in range(3)]
    JD = "tensorflow_probability.substrates.jax.distributions"

    def fd(ip_, *a, **k):
        params = [ip_.to_U(k[q]) for q in sorted(k)]
        return PyObj("tfp:FiniteDiscrete", kind="FiniteDiscrete", outcomes=list(outs), batch_shape=(), dtype="float32", params=params,
                     log_prob=PyFn(lambda ip2, x: ip2.uf("logp_FD", *params, ip2.to_U(x)), "log_prob"),
                     probs_parameter=PyFn(lambda ip2: [ip2.ctx.fresh(f"prob{j}", Real) for j in range(3)], "probs_parameter"),
                     logits_parameter=PyFn(lambda ip2: [ip2.ctx.fresh(f"logit{j}", Real) for j in range(3)], "logits_parameter"))

    ip.models[f"isinstance:{JD}.FiniteDiscrete"] = lambda ip_, x: isinstance(x, PyObj) and x.attrs.get("kind") == "FiniteDiscrete"
    ip.models[f"isinstance:{JD}.Bernoulli"] = lambda ip_, x: isinstance(x, PyObj) and x.attrs.get("kind") == "Bernoulli"
    g = G(ip)
    k = g.var("k", dist=ip.call(g.Dist, [PyFn(fd, "FiniteDiscrete")], {"weights": z3.Const("prior_weights", U)}), parameter=True)
    y = g.var("y", dist=g.dist("Lik", k), observed=True)
    model = g.build(y)
    ip.models["jax.numpy.asarray"] = lambda ip_, x, *a, **kw: list(x) if isinstance(x, (list, tuple)) else x
    ip.models["jax.vmap"] = lambda ip_, f, **kw: PyFn(lambda ip2, xs: [ip2.call(f, [x], {}) for x in xs], "vmapped")
    got = {}

    def categorical(ip_, key, logits=None):
        got["logits"] = logits
        return 2

    ip.models["jax.random.categorical"] = categorical
    kernel = ip.call(ip.repo(f"{MG}::finite_discrete_gibbs_kernel"), ["k", model], {})
    st = ip.getattr(model, "state")
    out = ip.call(kernel.f["_transition_fn"], [z3.Const("key", U), st], {})
    lg = got.get("logits")
    c.oblige("one_logit_per_outcome_of_the_prior", isinstance(lg, list) and len(lg) == 3)
    if isinstance(lg, list) and len(lg) == 3:
        W = z3.Const("prior_weights", U)
        for j, o in enumerate(outs):
            want = TOTAL(ip.uf("logp_FD", W, o)) + TOTAL(ip.uf("logp_Lik", o, z3.Const("val_y", U)))
            c.oblige(f"logit_{j}_is_joint_density_at_prior_outcome", to_sort(lg[j], Real) == want)
    c.oblige("draw_is_the_selected_prior_outcome", isinstance(out, dict) and ip.to_U(out["k"]).eq(outs[2]))


# both Gibbs kernels run through GibbsKernel.transition: the draw of the transition function must reach the model state unmodified
# (same harness as C09.frame.Gibbs)
from contracts.c09 import frame_unit  # noqa: E402

frame_unit("Gibbs", uid="C13.gibbs_wrapper_passes_the_draw_through", prop="C13")


# the caching protocol this property's statement rests on (values and densities "after updating")
from contracts.c01 import register_cache_core  # noqa: E402

register_cache_core("C13")

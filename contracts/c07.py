"""C07 - the engine drives every kernel through the documented lifecycle.

Per-function contracts over the real Engine / KernelSequence / mixin code; callee contracts are
installed as summaries that record a ghost call trace.  The trace statement of the property is the
composition of these contracts (DESIGN.md §3 C07)."""
from pyvc.api import *
from contracts.common import EPOCH, sym_epoch_state

ENG = "liesel/goose/engine.py"
KS = "liesel/goose/kernel_sequence.py"
KER = "liesel/goose/kernel.py"
E = f"{ENG}::Engine"


def recorder(ip, name, ret=None):
    trace = ip.ctx.ghost.setdefault("trace", [])

    def f(ip_, args, kwargs):
        trace.append((name, list(args), dict(kwargs)))
        return ret(ip_, args, kwargs) if callable(ret) else ret
    return f


def chain_stub(ip, name):
    trace = ip.ctx.ghost.setdefault("trace", [])
    cur = PyObj(f"{name}.current", get=PyFn(lambda ip_: PyObj("opt", expect=PyFn(lambda ip2, msg: z3.Const(f"{name}.current_epoch_history", U), "expect"),
                                                               value=z3.Const(f"{name}.value", U)), "get"))
    return PyObj(name,
                 advance_epoch=PyFn(lambda ip_, cfg: trace.append((f"{name}.advance_epoch", [cfg], {})), "advance_epoch"),
                 append=PyFn(lambda ip_, chunk: trace.append((f"{name}.append", [chunk], {})), "append"),
                 get_current_chain=PyFn(lambda ip_: cur, "get_current_chain"),
                 get=PyFn(lambda ip_: PyObj("opt", value=z3.Const(f"{name}.all", U)), "get"))


def sym_engine(ip, **over):
    """an engine built by the REAL constructor (so fields a change adds or re-purposes get their constructor-time values), whose state
    is then generalised: symbolic flags / chunk size / states, and recording stubs for the chain managers and the epoch manager"""
    c = ip.ctx
    saved_models, saved_summ = dict(ip.models), dict(ip.summaries)
    install_engine_models(ip)
    ip.models["jax.jit"] = lambda ip_, f, **kw: f
    ip.summaries[f"{EPOCH}::EpochManager.__init__"] = lambda ip_, args, kwargs: None
    ks = [PyObj(f"ctor_kernel{i}", identifier=f"kernel_{i:02d}", position_keys=(f"p{i}",), needs_history=False,
                init_state=PyFn(lambda ip_, *a: z3.Const("ks_init", U), "init_state")) for i in range(1)]
    seq = ip.call(ip.repo(f"{KS}::KernelSequence"), [ks], {})
    eng = ip.call(ip.repo(E), [], dict(seeds=z3.Const("engine_key", U), model_states=z3.Const("model_states", U), kernel_sequence=seq, epoch_configs=[],
                                       jitted_sample_duration=c.fresh("chunk", Int), model=None, position_keys=("a",), store_kernel_states=c.fresh("store_ks", Bool),
                                       show_progress=False))
    ip.models.clear(); ip.models.update(saved_models)
    ip.summaries.clear(); ip.summaries.update(saved_summ)
    eng.tag = "engine"
    c.ghost["key_reuse"] = None
    c.ghost["keys_used"] = []
    eng.f.update(_epoch=None, _warmup_has_ended=c.fresh("warmup_has_ended", Bool), _quantity_generators=[],
                 _history_required_for_tuning=c.fresh("needs_history", Bool), _minimize_transition_infos=False,
                 _kernel_states=z3.Const("kernel_states", U), _model_states=z3.Const("model_states", U), _prng_key=z3.Const("engine_key", U),
                 _position_keys=("a",), _model=None,
                 _position_chain=chain_stub(ip, "position_chain"), _transition_info_chain=chain_stub(ip, "transition_info_chain"),
                 _kernel_state_chain=chain_stub(ip, "kernel_state_chain"), _quantities_chain=chain_stub(ip, "quantities_chain"),
                 _tuning_info_chain=chain_stub(ip, "tuning_info_chain"),
                 _epoch_manager=PyObj("manager", has_more=PyFn(lambda ip_: ip_.ctx.fresh("manager_has_more", Bool), "has_more")))
    eng.f.update(over)
    c.assume(eng.f["_jitted_sample_duration"] >= 1)
    return eng


def names(trace):
    return [t[0] for t in trace]


@unit("C07.start_epoch", "C07", [f"{E}._start_epoch", f"{E}.current_epoch.fget"],
      summaries=[f"{EPOCH}::EpochManager.next (proved by C16.next)", f"{E}._end_warmup (proved by C07.end_warmup)"])
def u_start_epoch(ip):
    """_start_epoch: raises iff an epoch is active; takes the manager's next epoch; calls _end_warmup iff this is a POSTERIOR
    epoch and warmup has not ended (so exactly once, immediately before the first posterior epoch, given the flag invariant);
    then advances all four chain managers with this epoch's config."""
    c = ip.ctx
    ep = sym_epoch_state(ip)
    ep.f["time_in_epoch"] = z3.IntVal(0)
    for active in (False, True):
        eng = sym_engine(ip)
        trace = c.ghost["trace"]
        del trace[:]
        eng.f["_epoch"] = sym_epoch_state(ip, "old") if active else None
        eng.f["_epoch_manager"] = PyObj("manager", next=PyFn(lambda ip_: (trace.append(("manager.next", [], {})), ep)[1], "next"))
        flag0 = eng.f["_warmup_has_ended"]

        def end_warmup_contract(ip_, args, kwargs):
            trace.append(("_end_warmup", list(args), {}))
            args[0].f["_warmup_has_ended"] = True  # contract proved by C07.end_warmup

        ip.summaries[f"{E}._end_warmup"] = end_warmup_contract
        kind, res = try_call(ip, method(ip, eng, "_start_epoch"))
        sfx = ".active" if active else ""
        if active:
            c.oblige("raises_if_epoch_active", kind == "raise" and res.cls == "RuntimeError")
            c.oblige("nothing_called_if_epoch_active", len(trace) == 0)
            continue
        c.oblige("returns_if_idle", kind == "ok")
        t = ep.f["config"].f["type"]
        called = "_end_warmup" in names(trace)
        c.oblige("end_warmup_iff_first_posterior", z3.BoolVal(called) == And(Not(flag0), t == 4))
        c.oblige("flag_after", c.as_bool(eng.f["_warmup_has_ended"]) == Or(flag0, t == 4))
        c.oblige("end_warmup_at_most_once", names(trace).count("_end_warmup") <= 1)
        want = ["manager.next"] + (["_end_warmup"] if called else []) + [f"{n}.advance_epoch" for n in ("position_chain", "transition_info_chain", "kernel_state_chain", "quantities_chain")]
        c.oblige("call_order", names(trace) == want)
        c.oblige("chains_get_this_config", all(t_[1][0] is ep.f["config"] for t_ in trace if t_[0].endswith("advance_epoch")))
        c.oblige("epoch_installed", eng.f["_epoch"] is ep)


def ks_stub(ip, trace):
    def mk(name, ret):
        return PyFn(lambda ip_, *a: (trace.append((f"kernel_sequence.{name}", list(a), {})), ret(ip_, a))[1], name)
    return PyObj(
        "kernel_sequence",
        start_epoch=mk("start_epoch", lambda ip_, a: ip_.uf("ks_after_start", ip_.to_U(a[1]))),
        end_epoch=mk("end_epoch", lambda ip_, a: ip_.uf("ks_after_end", ip_.to_U(a[1]))),
        tune=mk("tune", lambda ip_, a: PyObj("tune_out", kernel_states=ip_.uf("ks_after_tune", ip_.to_U(a[1])), infos=z3.Const("tune_infos", U))),
        end_warmup=mk("end_warmup", lambda ip_, a: PyObj("ew_out", kernel_states=ip_.uf("ks_after_end_warmup", ip_.to_U(a[1])), error_codes={})),
    )


def vmap_model(ip, f, in_axes=0, out_axes=0):
    """A-VMAP: vmap(f)(xs)[c] = f(xs[c]) - the mapped function is called once, on the per-chain view of its arguments; an argument with
    in_axes None is NOT a per-chain view: every chain receives the same object (marked, so that it never equals a per-chain view)"""
    def run(ip_, *a):
        a = list(a)
        mark = lambda x: ip_.uf("same_object_for_all_chains", x) if is_z3(x) and x.sort() == U else x  # noqa: E731  (python objects - epoch states, configs - are shared as they are)
        if isinstance(in_axes, (tuple, list)):
            a = [mark(x) if i < len(in_axes) and in_axes[i] is None else x for i, x in enumerate(a)]
        elif in_axes is None:
            a = [mark(x) for x in a]
        g_ = ip_.ctx.ghost
        g_["vmap_depth"] = g_.get("vmap_depth", 0) + 1  # dynamic scope: callees can tell whether they see per-chain views
        try:
            return ip_.call(f, a, {})
        finally:
            g_["vmap_depth"] -= 1
    return PyFn(run, "vmapped")


def _pytree_obj(x):
    """a heap object of a repository class registered as a pytree (liesel registers its dataclasses: @register_dataclass_as_pytree / @dataclass)"""
    import ast as _ast
    if not (isinstance(x, Obj) and isinstance(x.cls, RepoClass)):
        return False
    decos = [_ast.unparse(d) for d in getattr(x.cls.node, "decorator_list", [])]
    return any("dataclass" in d for d in decos)


def _obj_like(x, fields):
    o = Obj(x.cls, fields, tag=x.tag)
    for a in ("dc", "partial", "frozen"):
        if hasattr(x, a):
            setattr(o, a, getattr(x, a))
    return o


def tree_flatten_model(ip, tree, is_leaf=None):
    """A-PYTREE: leaves of dicts in SORTED key order (OrderedDict: insertion order), lists / tuples in order; an opaque term is one leaf"""
    import collections

    if isinstance(tree, collections.OrderedDict):
        parts = [(k, tree_flatten_model(ip, tree[k])) for k in tree]
        return [x for _, (lv, _d) in parts for x in lv], ("odict", tuple((k, d) for k, (_l, d) in parts))
    if isinstance(tree, dict):
        parts = [(k, tree_flatten_model(ip, tree[k])) for k in sorted(tree)]
        return [x for _, (lv, _d) in parts for x in lv], ("dict", tuple((k, d) for k, (_l, d) in parts))
    if isinstance(tree, (list, tuple)):
        parts = [tree_flatten_model(ip, v) for v in tree]
        return [x for lv, _d in parts for x in lv], ("list" if isinstance(tree, list) else "tuple", tuple(d for _l, d in parts))
    if tree is None:
        return [], ("none",)
    if _pytree_obj(tree):
        parts = [(k, tree_flatten_model(ip, v)) for k, v in tree.f.items()]
        return [x for _, (lv, _d) in parts for x in lv], ("obj", tuple((k, d) for k, (_l, d) in parts), tree)
    return [tree], ("leaf",)


def tree_unflatten_model(ip, treedef, leaves):
    leaves = list(ip.iterate(leaves))

    def build(d):
        if d[0] == "leaf":
            return leaves.pop(0)
        if d[0] == "none":
            return None
        if d[0] in ("dict", "odict"):
            return {k: build(sub) for k, sub in d[1]}
        if d[0] == "obj":
            return _obj_like(d[2], {k: build(sub) for k, sub in d[1]})
        out = [build(sub) for sub in d[1]]
        return out if d[0] == "list" else tuple(out)
    return build(treedef)


def tree_map_model(ip, f, tree, *rest):
    """A-PYTREE: tree_map applies f leaf by leaf through dicts / lists / tuples; an opaque array-valued term is one leaf"""
    if isinstance(tree, dict):
        return {k: tree_map_model(ip, f, v, *[r[k] for r in rest]) for k, v in tree.items()}
    if isinstance(tree, (list, tuple)):
        out = [tree_map_model(ip, f, v, *[r[i] for r in rest]) for i, v in enumerate(tree)]
        return out if isinstance(tree, list) else tuple(out)
    if tree is None:
        return None
    if _pytree_obj(tree):
        return _obj_like(tree, {k: tree_map_model(ip, f, v, *[r.f[k] for r in rest]) for k, v in tree.f.items()})
    return ip.call(f, [tree, *rest], {})


def install_pytree_models(ip):
    for mod in ("jax.tree_util", "jax.tree"):
        ip.models.setdefault(f"{mod}.tree_flatten" if mod == "jax.tree_util" else f"{mod}.flatten", tree_flatten_model)
        ip.models.setdefault(f"{mod}.tree_unflatten" if mod == "jax.tree_util" else f"{mod}.unflatten", tree_unflatten_model)
        ip.models.setdefault(f"{mod}.tree_leaves" if mod == "jax.tree_util" else f"{mod}.leaves", lambda ip_, t, is_leaf=None: tree_flatten_model(ip_, t)[0])
        ip.models.setdefault(f"{mod}.tree_structure" if mod == "jax.tree_util" else f"{mod}.structure", lambda ip_, t, is_leaf=None: tree_flatten_model(ip_, t)[1])


def install_engine_models(ip):
    ip.models["jax.vmap"] = vmap_model
    ip.models.setdefault("jax.tree_util.tree_map", tree_map_model)
    ip.models.setdefault("jax.tree.map", tree_map_model)
    install_pytree_models(ip)
    ip.models.setdefault("getitem", lambda ip_, v, idx: ip_.uf("getitem", ip_.to_U(v), ip_.to_z3_any(idx)) if is_z3(v) and v.sort() == U and (isinstance(idx, int) or is_z3(idx)) else (_ for _ in ()).throw(Unsupported(f"getitem({v!r}, {idx!r})")))
    ip.models["tqdm.tqdm"] = lambda ip_, it, **k: it
    ip.summaries["liesel/goose/pytree.py::as_strong_pytree"] = lambda ip_, args, kwargs: args[0]
    ip.summaries[f"{ENG}::_add_time_dimension"] = lambda ip_, args, kwargs: ip_.uf("add_time_dim", ip_.to_U(kwargs.get("x", args[0] if args else None)))
    ip.summaries[f"{E}._split_prng_key_one"] = lambda ip_, args, kwargs: ip_.ctx.fresh("split_key", U)


@unit("C07.end_warmup", "C07", [f"{E}._end_warmup"], summaries=["KernelSequence.end_warmup (proved by C07.kernel_sequence)"])
def u_end_warmup(ip):
    """_end_warmup calls the kernel sequence's end_warmup exactly once (all kernels), installs the returned kernel states and
    records that warmup has ended."""
    c = ip.ctx
    install_engine_models(ip)
    eng = sym_engine(ip)
    trace = c.ghost["trace"]
    del trace[:]
    eng.f["_kernel_sequence"] = ks_stub(ip, trace)
    ks0 = eng.f["_kernel_states"]
    ip.call(method(ip, eng, "_end_warmup"), [], {})
    c.oblige("end_warmup_called_once", names(trace) == ["kernel_sequence.end_warmup"])
    c.oblige("flag_set", eng.f["_warmup_has_ended"] is True or (is_z3(eng.f["_warmup_has_ended"]) and z3.is_true(eng.f["_warmup_has_ended"])))
    c.oblige("kernel_states_installed", eng.f["_kernel_states"] == ip.uf("ks_after_end_warmup", ks0))
    if names(trace) == ["kernel_sequence.end_warmup"]:
        c.oblige("gets_current_states", trace[0][1][1] is ks0 and trace[0][1][2] is eng.f["_model_states"])


@unit("C07.sample_next_epoch", "C07", [f"{E}.sample_next_epoch", f"{E}.current_epoch.fget"],
      summaries=[f"{E}._start_epoch", f"{E}._kernel_start_epoch", f"{E}._sample_for_duration", f"{E}._end_epoch", f"{E}._handle_inital_values_epoch (each proved by its own C07 unit)"])
def u_sample_next_epoch(ip):
    """INITIAL_VALUES epoch: only the initial-values handler runs (no kernel call). Any other epoch: start, one
    start-of-epoch call, sampling for exactly config.duration transitions, then the end-of-epoch handler - in this order."""
    c = ip.ctx
    eng = sym_engine(ip)
    trace = c.ghost["trace"]
    del trace[:]
    ep = sym_epoch_state(ip)

    def start(ip_, args, kwargs):
        trace.append(("_start_epoch", [], {}))
        args[0].f["_epoch"] = ep

    ip.summaries[f"{E}._start_epoch"] = start
    for n in ("_kernel_start_epoch", "_sample_for_duration", "_end_epoch", "_handle_inital_values_epoch"):
        ip.summaries[f"{E}.{n}"] = recorder(ip, n)
    ip.call(method(ip, eng, "sample_next_epoch"), [], {})
    t = ep.f["config"].f["type"]
    is_init = names(trace) == ["_start_epoch", "_handle_inital_values_epoch"]
    is_full = names(trace) == ["_start_epoch", "_kernel_start_epoch", "_sample_for_duration", "_end_epoch"]
    c.oblige("initial_values_epoch_no_kernel_calls", Implies(t == 0, z3.BoolVal(is_init)))
    c.oblige("other_epochs_full_lifecycle_in_order", Implies(t != 0, z3.BoolVal(is_full)))
    if is_full:
        d = trace[2][2].get("duration", trace[2][1][1] if len(trace[2][1]) > 1 else None)
        c.oblige("samples_for_exactly_duration", d == ep.f["config"].f["duration"])
    c.cover("init_path", t == 0)
    c.cover("full_path", t != 0)


@unit("C07.kernel_start_epoch", "C07", [f"{E}._kernel_start_epoch"], summaries=["KernelSequence.start_epoch (proved by C07.kernel_sequence)"])
def u_kernel_start(ip):
    """one start-of-epoch call on the kernel sequence with the current states and the current epoch; states installed."""
    c = ip.ctx
    install_engine_models(ip)
    eng = sym_engine(ip)
    trace = c.ghost["trace"]
    del trace[:]
    ep = sym_epoch_state(ip)
    eng.f["_epoch"] = ep
    eng.f["_kernel_sequence"] = ks_stub(ip, trace)
    ks0, ms0 = eng.f["_kernel_states"], eng.f["_model_states"]
    ip.call(method(ip, eng, "_kernel_start_epoch"), [], {})
    ok = names(trace) == ["kernel_sequence.start_epoch"]
    c.oblige("one_start_call", ok)
    if ok:
        a = trace[0][1]
        c.oblige("start_args", a[1] is ks0 and a[2] is ms0 and a[3] is ep)
    c.oblige("states_installed", eng.f["_kernel_states"] == ip.uf("ks_after_start", ks0))


@unit("C07.end_epoch", "C07", [f"{E}._end_epoch", f"{E}._tune_kernels", f"{E}.current_epoch.fget", f"{EPOCH}::EpochType.is_adaptation"],
      summaries=["KernelSequence.end_epoch / tune (proved by C07.kernel_sequence)"])
def u_end_epoch(ip):
    """_end_epoch: one end-of-epoch call, then a tuning call iff the epoch is an adaptation epoch - with the current epoch's
    recorded position history iff some kernel needs history, else None; the tuning info is stored; no epoch is active afterwards."""
    c = ip.ctx
    install_engine_models(ip)
    eng = sym_engine(ip)
    trace = c.ghost["trace"]
    del trace[:]
    ep = sym_epoch_state(ip)
    eng.f["_epoch"] = ep
    eng.f["_kernel_sequence"] = ks_stub(ip, trace)
    ks0 = eng.f["_kernel_states"]
    need = eng.f["_history_required_for_tuning"]
    ip.call(method(ip, eng, "_end_epoch"), [], {})
    t = ep.f["config"].f["type"]
    nm = names(trace)
    tuned = "kernel_sequence.tune" in nm
    c.oblige("end_epoch_first_and_once", len(nm) >= 1 and nm[0] == "kernel_sequence.end_epoch" and nm.count("kernel_sequence.end_epoch") == 1)
    c.oblige("tune_iff_adaptation", z3.BoolVal(tuned) == Or(t == 1, t == 2))
    c.oblige("tune_at_most_once", nm.count("kernel_sequence.tune") <= 1)
    if tuned:
        a = [x for x in trace if x[0] == "kernel_sequence.tune"][0][1]
        hist = a[4]
        is_hist = is_z3(hist) and hist.eq(z3.Const("position_chain.current_epoch_history", U))
        c.oblige("history_iff_needed", If(need, z3.BoolVal(is_hist), z3.BoolVal(hist is None)))
        c.oblige("tune_gets_post_end_states_and_epoch", a[1] == ip.uf("ks_after_end", ks0) and a[3] is ep)
        c.oblige("tuning_info_stored", nm[-1] == "tuning_info_chain.append")
        c.oblige("states_after_tune", eng.f["_kernel_states"] == ip.uf("ks_after_tune", ip.uf("ks_after_end", ks0)))
    else:
        c.oblige("states_after_end", eng.f["_kernel_states"] == ip.uf("ks_after_end", ks0))
    c.oblige("no_active_epoch_afterwards", eng.f["_epoch"] is None)
    c.cover("adaptation", Or(t == 1, t == 2))
    c.cover("non_adaptation", And(t != 1, t != 2))


@unit("C07.handle_initial_values", "C07", [f"{E}._handle_inital_values_epoch", f"{E}.current_epoch.fget", f"{EPOCH}::EpochState.advance_time"])
def u_handle_init(ip):
    """initial-values epoch: no kernel call; time advances by one; the initial position is stored; no epoch active afterwards."""
    c = ip.ctx
    install_engine_models(ip)
    eng = sym_engine(ip)
    trace = c.ghost["trace"]
    del trace[:]
    ep = sym_epoch_state(ip, etype=z3.IntVal(0))
    t0 = ep.f["time"]
    eng.f["_epoch"] = ep
    eng.f["_kernel_sequence"] = ks_stub(ip, trace)
    seen = []

    def extract(ip_, keys, st):
        seen.append(ip_.ctx.ghost.get("vmap_depth", 0) > 0)
        return ip_.uf("extract", ip_.to_U(keys), ip_.to_U(st))

    eng.f["_model"] = PyObj("model", extract_position=PyFn(extract, "extract_position"))
    ip.call(method(ip, eng, "_handle_inital_values_epoch"), [], {})
    # precondition of the ModelInterface protocol: extract_position is handed ONE chain's state (it may compute derived quantities that reduce
    # over the value's own leading axis) - the engine's stacked states only ever reach it through vmap
    c.oblige("model_interface_is_handed_single_chain_states", len(seen) >= 1 and all(seen))
    c.oblige("no_kernel_calls", not any(n.startswith("kernel_sequence.") for n in names(trace)))
    c.oblige("time_advanced_by_one", ep.f["time"] == t0 + 1)
    c.oblige("initial_position_stored", "position_chain.append" in names(trace))
    first = [x for x in trace if x[0] == "position_chain.append"]
    if first:
        c.oblige("stored_value_is_extracted_initial_position",
                 first[0][1][0] == ip.uf("add_time_dim", ip.uf("extract", ip.to_U(("a",)), z3.Const("model_states", U))))
    c.oblige("no_active_epoch_afterwards", eng.f["_epoch"] is None)


def u_sample_for_duration(ip):
    """_sample_for_duration(d): raises iff not enough time is left or the chunk size does not divide d; otherwise runs exactly
    d / chunk chunks of `chunk` transitions each, the within-epoch time advancing by `chunk` per chunk (loop invariant), so
    exactly d transitions with within-epoch times t0 .. t0+d-1; every chunk's positions and infos are stored once."""
    c = ip.ctx
    install_engine_models(ip)
    key = f"{E}._sample_for_duration"
    eng = sym_engine(ip)
    trace = c.ghost["trace"]
    del trace[:]
    ep = sym_epoch_state(ip)
    eng.f["_epoch"] = ep
    chunk = eng.f["_jitted_sample_duration"]
    d = c.fresh("d", Int)
    c.assume(d >= 0)
    tie0, time0, dur = ep.f["time_in_epoch"], ep.f["time"], ep.f["config"].f["duration"]
    ghost = {"transitions": z3.IntVal(0)}

    draws = []

    def split(ip_, args, kwargs):
        n = kwargs.get("n", args[1] if len(args) > 1 else 1)
        k_ = PyObj("keys", n=n)
        draws.append(k_)
        return k_

    def sample_many(ip_, keys, epoch, kstates, mstate):
        # contract of _sample_many (C07.sample_many): len(keys) transitions at within-epoch times epoch.time_in_epoch + 0..len-1
        if not (isinstance(keys, PyObj) and keys.name == "keys"):
            raise Unsupported("chunk keys are not the result of one engine key split (re-sliced / reshaped keys are outside this contract)")
        n = keys.attrs["n"]
        if keys.attrs.get("window_of") is not None:
            # one split for the whole duration, consumed in windows: the window of this chunk must begin where the previous one ended
            ip_.ctx.oblige("each_chunk_gets_a_fresh_engine_draw_of_its_own", And(z3.BoolVal(any(keys.attrs["window_of"] is d_ for d_ in draws)), keys.attrs["start"] == ghost["transitions"]))
        else:
            ip_.ctx.oblige("each_chunk_gets_a_fresh_engine_draw_of_its_own", len(draws) >= 1 and keys is draws[-1] and not keys.attrs.get("used"))
            keys.attrs["used"] = True
        ghost_ok = epoch.f["time_in_epoch"] == tie0 + ghost["transitions"]
        ip_.ctx.oblige("chunk_starts_at_expected_time", ghost_ok)
        ip_.ctx.oblige("chunk_size_is_jitted_duration", n == chunk)
        ghost["transitions"] = ghost["transitions"] + n
        new_ep = new_obj(ip_, f"{EPOCH}::EpochState", config=epoch.f["config"], nth_epoch=epoch.f["nth_epoch"], time=epoch.f["time"] + n,
                         time_before_epoch=epoch.f["time_before_epoch"], time_in_epoch=epoch.f["time_in_epoch"] + n)
        trace.append(("sample_many", [n], {}))
        return (new_ep, ip_.uf("ks_next", ip_.to_U(kstates)), ip_.uf("ms_next", ip_.to_U(mstate)), z3.Const("pos_chunk", U), z3.Const("info_chunk", U), None, None)

    ip.summaries[f"{E}._split_prng_key"] = split
    ip.models["jax.lax.dynamic_slice_in_dim"] = lambda ip_, arr, start, size, axis=0: PyObj("keys", n=size, window_of=arr, start=ip_.to_z3_any(start) if not is_z3(start) else start)
    eng.f["_sample_many_jitted"] = PyFn(sample_many, "_sample_many_jitted")

    def inv(ip_, env):
        slf = env.lookup("self")[1]
        k = env.lookup("__k0")[1] if "__k0" in env.vars else z3.IntVal(0)
        e = slf.f["_epoch"]
        return [("transitions_so_far", ghost["transitions"] == k * chunk),
                ("time_in_epoch", e.f["time_in_epoch"] == tie0 + k * chunk),
                ("global_time", e.f["time"] == time0 + k * chunk),
                ("same_config", z3.BoolVal(e.f["config"] is ep.f["config"]))]

    def havoc(ip_, env):
        slf = env.lookup("self")[1]
        ghost["transitions"] = ip_.ctx.fresh("g_transitions", Int)
        slf.f["_epoch"] = new_obj(ip_, f"{EPOCH}::EpochState", config=ep.f["config"], nth_epoch=ep.f["nth_epoch"], time=ip_.ctx.fresh("h_time", Int),
                                  time_before_epoch=ep.f["time_before_epoch"], time_in_epoch=ip_.ctx.fresh("h_tie", Int))
        slf.f["_kernel_states"] = ip_.ctx.fresh("h_ks", U)
        slf.f["_model_states"] = ip_.ctx.fresh("h_ms", U)
        del trace[:]

    ip.loop_specs[(key, 0)] = LoopSpec(inv, havoc=havoc)
    kind, res = try_call(ip, method(ip, eng, "_sample_for_duration"), [], {"duration": d})
    bad = Or(dur - tie0 < d, d % chunk != 0)
    if kind == "raise":
        c.oblige("raises_only_runtime_error", res.cls == "RuntimeError")
        c.oblige("raises_only_if_documented", bad)
    else:
        c.oblige("returns_only_if_ok", Not(bad))
        c.oblige("exactly_d_transitions", ghost["transitions"] == d)
        c.oblige("time_in_epoch_advanced_by_d", eng.f["_epoch"].f["time_in_epoch"] == tie0 + d)
        c.oblige("global_time_advanced_by_d", eng.f["_epoch"].f["time"] == time0 + d)
    # per-iteration storage (checked on the loop-step paths through the trace since the last havoc)
    nm = names(trace)
    if "sample_many" in nm:
        c.oblige("each_chunk_stored_once", nm.count("position_chain.append") == nm.count("sample_many") and nm.count("transition_info_chain.append") == nm.count("sample_many"))


for _uid, _prop in (("C07.sample_for_duration", "C07"), ("C08.chunks_continue_the_epoch_clock", "C08"), ("C10.chunk_keys", "C10")):
    unit(_uid, _prop, [f"{E}._sample_for_duration", f"{E}.current_epoch.fget", f"{EPOCH}::EpochState.time_left"],
         summaries=[f"{E}._sample_many (proved by C07.sample_many)", f"{E}._split_prng_key (fresh keys, C10.engine_key_ownership)"],
         assumptions=["tqdm(it) == it", "as_strong_pytree is value-preserving"])(u_sample_for_duration)


@unit("C07.sample_many", "C07", [f"{E}._sample_many", f"{E}._sample_many.<locals>.scan_f", f"{EPOCH}::EpochState.advance_time"],
      summaries=["KernelSequence.transition (proved by C07.kernel_sequence)"], assumptions=["A-SCAN: lax.scan(f, c, xs) folds f over xs in order"])
def u_sample_many(ip):
    """_sample_many(keys, epoch, ...): one kernel-sequence transition per key, the j-th at within-epoch time t0 + j and global
    time T0 + j (scan invariant), time advanced by one after each; returns the epoch advanced by len(keys)."""
    c = ip.ctx
    install_engine_models(ip)
    eng = sym_engine(ip)
    trace = c.ghost["trace"]
    del trace[:]
    ep = sym_epoch_state(ip)
    tie0, time0 = ep.f["time_in_epoch"], ep.f["time"]
    n = c.fresh("n_keys", Int)
    c.assume(n >= 1)
    ghost = {"count": z3.IntVal(0)}

    def transition(ip_, key, kstates, mstate, epoch):
        ip_.ctx.oblige("transition_time_in_epoch", epoch.f["time_in_epoch"] == tie0 + ghost["count"])
        ip_.ctx.oblige("transition_global_time", epoch.f["time"] == time0 + ghost["count"])
        ghost["count"] = ghost["count"] + 1
        return PyObj("out", kernel_states=ip_.uf("ks_t", ip_.to_U(kstates), ip_.to_U(key)), model_state=ip_.uf("ms_t", ip_.to_U(mstate), ip_.to_U(key)), infos={})

    eng.f["_kernel_sequence"] = PyObj("kernel_sequence", transition=PyFn(transition, "transition"))
    eng.f["_model"] = PyObj("model", extract_position=PyFn(lambda ip_, keys, st: ip_.uf("extract", ip_.to_U(keys), ip_.to_U(st)), "extract_position"))
    eng.f["_store_kernel_states"] = False

    def scan(ip_, f, init, xs):
        cc = ip_.ctx
        e0 = init.f["epoch"]
        cc.oblige("scan.inv_init", And(e0.f["time_in_epoch"] == tie0, e0.f["time"] == time0, ghost["count"] == 0))
        k = cc.fresh("scan_k", Int)
        cc.assume(And(k >= 0, k <= n))
        epk = new_obj(ip_, f"{EPOCH}::EpochState", config=e0.f["config"], nth_epoch=e0.f["nth_epoch"], time=time0 + k,
                      time_before_epoch=e0.f["time_before_epoch"], time_in_epoch=tie0 + k)
        ghost["count"] = k
        carry = new_obj(ip_, f"{ENG}::Carry", kernel_states=cc.fresh("c_ks", U), model_state=cc.fresh("c_ms", U), epoch=epk)
        if cc.branch(k < n, "scan-step"):
            kk = ip_.uf("key_at", ip_.to_U(xs), k)
            new_carry, out = ip_.call(f, [carry, kk], {})
            e1 = new_carry.f["epoch"]
            cc.oblige("scan.inv_step", And(e1.f["time_in_epoch"] == tie0 + k + 1, e1.f["time"] == time0 + k + 1, ghost["count"] == k + 1))
            cc.oblige("scan.one_transition_per_key", ghost["count"] == k + 1)
            raise PathDone()
        return carry, (z3.Const("pos_stack", U), z3.Const("info_stack", U), None, None)

    ip.models["jax.lax.scan"] = scan
    keys = PyObj("keys", n=n)
    res = ip.call(method(ip, eng, "_sample_many"), [keys, ep, z3.Const("ks", U), z3.Const("ms", U)], {})
    new_ep = res[0]
    c.oblige("all_keys_consumed", ghost["count"] == n)
    c.oblige("returned_epoch_time_in_epoch", new_ep.f["time_in_epoch"] == tie0 + n)
    c.oblige("returned_epoch_time", new_ep.f["time"] == time0 + n)


IDENTS = ["zeta_block", "alpha_block", "kernel_10"]  # configured order differs from the alphabetical order of the identifiers


def ghost_kernel(ip, idx, trace, ident=None):
    rel = KER

    def ev(kind, ret):
        def f(ip_, *a):
            trace.append((kind, idx, list(a)))
            return ret(ip_, a)
        return PyFn(f, f"kernel{idx}.{kind}")

    out_t = lambda ip_, a: new_obj(ip_, f"{rel}::TransitionOutcome", info=z3.Const(f"info{idx}", U), kernel_state=ip_.uf(f"k{idx}_state_after_transition", ip_.to_U(a[1])),
                                   model_state=ip_.uf(f"k{idx}_model_state", ip_.to_U(a[0]), ip_.to_U(a[2])))  # noqa: E731
    return PyObj(f"kernel{idx}", identifier=ident if ident is not None else f"kernel_{idx:02d}", position_keys=(f"p{idx}",), needs_history=False,
                 start_epoch=ev("start_epoch", lambda ip_, a: ip_.uf(f"k{idx}_after_start", ip_.to_U(a[1]))),
                 end_epoch=ev("end_epoch", lambda ip_, a: ip_.uf(f"k{idx}_after_end", ip_.to_U(a[1]))),
                 transition=ev("transition", out_t),
                 tune=ev("tune", lambda ip_, a: new_obj(ip_, f"{rel}::TuningOutcome", info=z3.Const(f"tinfo{idx}", U), kernel_state=ip_.uf(f"k{idx}_after_tune", ip_.to_U(a[1])))),
                 end_warmup=ev("end_warmup", lambda ip_, a: new_obj(ip_, f"{rel}::WarmupOutcome", error_code=0, kernel_state=ip_.uf(f"k{idx}_after_end_warmup", ip_.to_U(a[1])))),
                 init_state=ev("init_state", lambda ip_, a: ip_.uf(f"k{idx}_init", ip_.to_U(a[0]))))


def ks_unit(n):
    @unit(f"C07.kernel_sequence.n{n}", "C07", [f"{KS}::KernelSequence.{m}" for m in ("__init__", "get_kernels", "start_epoch", "end_epoch", "transition", "tune", "end_warmup", "init_states")],
          assumptions=[f"kernel count fixed to {n} in this unit (units exist for 1, 2 and 3 kernels; the code is uniform in the count)"])
    def u(ip, n=n):
        """each KernelSequence method calls every kernel exactly once, in the configured order, kernel i with key i of the split,
        its own state i and the shared epoch; transition threads the model state from kernel to kernel; results are collected per
        kernel in order (states) / under the kernel's identifier (infos)."""
        c = ip.ctx
        trace = []
        kernels = [ghost_kernel(ip, i, trace, IDENTS[i]) for i in range(n)]
        seq = ip.call(ip.repo(f"{KS}::KernelSequence"), [list(kernels)], {})  # the REAL constructor (identifiers not in alphabetical order)
        gk = ip.call(method(ip, seq, "get_kernels"), [], {})
        c.oblige("constructor_keeps_configured_order", isinstance(gk, list) and len(gk) == n and all(gk[i] is kernels[i] for i in range(n)))
        key, ms = z3.Const("key", U), z3.Const("ms", U)
        kstates = [z3.Const(f"kstate{i}", U) for i in range(n)]
        ep = sym_epoch_state(ip)
        split = [ip.uf("split", key, z3.IntVal(i)) for i in range(n)]
        for mname in ("start_epoch", "end_epoch", "transition", "tune", "end_warmup"):
            del trace[:]
            c.ghost["keys_used"] = []
            extra = [ep] if mname in ("start_epoch", "end_epoch", "transition") else ([ep, z3.Const("history", U)] if mname == "tune" else [None])
            res = ip.call(method(ip, seq, mname), [key, list(kstates), ms] + extra, {})
            c.oblige(f"{mname}.each_kernel_once_in_order", [(t[0], t[1]) for t in trace] == [(mname, i) for i in range(n)])
            if len(trace) == n:
                c.oblige(f"{mname}.kernel_i_gets_key_i", all(is_z3(trace[i][2][0]) and trace[i][2][0].eq(split[i]) for i in range(n)))
                c.oblige(f"{mname}.kernel_i_gets_state_i", all(trace[i][2][1] is kstates[i] for i in range(n)))
                if mname in ("start_epoch", "end_epoch", "transition", "tune"):
                    c.oblige(f"{mname}.shared_epoch", all(trace[i][2][3] is ep for i in range(n)))
                if mname == "tune":
                    c.oblige("tune.history_forwarded", all(is_z3(trace[i][2][4]) and trace[i][2][4].eq(z3.Const("history", U)) for i in range(n)))
                if mname == "transition":
                    expect = ms
                    okm = True
                    for i in range(n):
                        okm = okm and is_z3(trace[i][2][2]) and trace[i][2][2].eq(expect)
                        expect = ip.uf(f"k{i}_model_state", split[i], expect)
                    c.oblige("transition.model_state_threaded", okm)
                    c.oblige("transition.final_model_state", is_z3(res.f["model_state"]) and res.f["model_state"].eq(expect))
                    c.oblige("transition.states_in_order", all(res.f["kernel_states"][i].eq(ip.uf(f"k{i}_state_after_transition", kstates[i])) for i in range(n)))
                    c.oblige("transition.infos_by_identifier", sorted(res.f["infos"].keys()) == sorted(IDENTS[:n]) and all(
                        ip.to_U(res.f["infos"][IDENTS[i]]).eq(z3.Const(f"info{i}", U)) for i in range(n)))
                elif mname in ("start_epoch", "end_epoch"):
                    tag = "after_start" if mname == "start_epoch" else "after_end"
                    c.oblige(f"{mname}.states_in_order", all(res[i].eq(ip.uf(f"k{i}_{tag}", kstates[i])) for i in range(n)))
                elif mname == "tune":
                    c.oblige("tune.states_in_order", all(res.f["kernel_states"][i].eq(ip.uf(f"k{i}_after_tune", kstates[i])) for i in range(n)))
                else:
                    c.oblige("end_warmup.states_in_order", all(res.f["kernel_states"][i].eq(ip.uf(f"k{i}_after_end_warmup", kstates[i])) for i in range(n)))
            c.oblige(f"{mname}.split_once_no_key_reuse", not c.ghost.get("key_reuse"))
    return u


for _n in (1, 2, 3):
    ks_unit(_n)


@unit("C07.kernel_sequence.stateless_kernel", "C07", [f"{KS}::KernelSequence.start_epoch", f"{KS}::KernelSequence.end_epoch", f"{KS}::KernelSequence.tune", f"{KS}::KernelSequence.end_warmup"],
      assumptions=["two kernels, the first with an EMPTY kernel state ({} - as GibbsKernel, or a kernel that allocates its state in start_epoch), the second with an arbitrary state; A-PYTREE"])
def u_ks_stateless(ip):
    """the lifecycle calls reach EVERY kernel - also one whose state is an empty pytree: start_epoch, end_epoch, tune and end_warmup call each kernel exactly once, in order."""
    c = ip.ctx
    install_pytree_models(ip)
    trace = []
    kernels = [ghost_kernel(ip, i, trace, IDENTS[i]) for i in range(2)]
    seq = ip.call(ip.repo(f"{KS}::KernelSequence"), [list(kernels)], {})
    key, ms, ep = z3.Const("key", U), z3.Const("ms", U), sym_epoch_state(ip)
    for empty in ({}, None, ()):
        kstates = [empty, z3.Const("kstate1", U)]
        for mname in ("start_epoch", "end_epoch", "tune", "end_warmup"):
            del trace[:]
            c.ghost["keys_used"] = []
            extra = [ep] if mname in ("start_epoch", "end_epoch") else ([ep, z3.Const("history", U)] if mname == "tune" else [None])
            kind, res = try_call(ip, method(ip, seq, mname), [key, list(kstates), ms] + extra, {})
            c.oblige(f"{mname}.each_kernel_once_in_order.empty_state_{type(empty).__name__}", kind == "ok" and [(t[0], t[1]) for t in trace] == [(mname, 0), (mname, 1)],
                     got=str([(t[0], t[1]) for t in trace]))


def mixins_unit(uid, prop):
    return unit(uid, prop, [f"{KER}::TransitionMixin.transition", f"{KER}::TuningMixin.tune", f"{EPOCH}::EpochType.is_adaptation"])(u_mixins)


def u_mixins(ip):
    """the transition mixin uses the adaptive transition exactly in adaptation epochs (FAST/SLOW); the tuning mixin uses slow
    tuning exactly after SLOW_ADAPTATION epochs; all arguments are forwarded unchanged - in particular the history, whether it is
    an opaque pytree, a dict with a single tracked key, a dict with several keys, or None."""
    c = ip.ctx
    ep = sym_epoch_state(ip)
    t = ep.f["config"].f["type"]
    calls = []
    mk = lambda name: PyFn(lambda ip_, *a: (calls.append((name, list(a))), z3.Const(name + "_result", U))[1], name)  # noqa: E731
    tm = ip.repo(f"{KER}::TransitionMixin")
    o = Obj(tm, {"_adaptive_transition": mk("adaptive"), "_standard_transition": mk("standard")})
    args = [z3.Const("key", U), z3.Const("ks", U), z3.Const("ms", U), ep]
    r = ip.call(method(ip, o, "transition"), args, {})
    c.oblige("one_branch", len(calls) == 1)
    c.oblige("adaptive_iff_adaptation_epoch", z3.BoolVal(calls[0][0] == "adaptive") == Or(t == 1, t == 2))
    c.oblige("args_forwarded", all(x is y for x, y in zip(calls[0][1], args)))
    c.oblige("result_returned", r.eq(z3.Const(calls[0][0] + "_result", U)))
    del calls[:]
    um = ip.repo(f"{KER}::TuningMixin")
    o2 = Obj(um, {"_tune_slow": mk("slow"), "_tune_fast": mk("fast")})
    args2 = args + [z3.Const("history", U)]
    r2 = ip.call(method(ip, o2, "tune"), args2, {})
    c.oblige("tune.one_branch", len(calls) == 1)
    c.oblige("tune.slow_iff_slow_adaptation", z3.BoolVal(calls[0][0] == "slow") == (t == 2))
    c.oblige("tune.args_forwarded", all(x is y for x, y in zip(calls[0][1], args2)))
    for tag, hist in (("single_key_history", {"only": z3.Const("h_only", U)}), ("two_key_history", {"b": z3.Const("h_b", U), "a": z3.Const("h_a", U)}), ("no_history", None)):
        del calls[:]
        a3 = args + [hist]
        ip.call(method(ip, o2, "tune"), a3, {})
        c.oblige(f"tune.{tag}.forwarded_as_given", len(calls) == 1 and len(calls[0][1]) == len(a3) and all(x is y for x, y in zip(calls[0][1], a3)))


mixins_unit("C07.mixins", "C07")


@unit("C07.sample_all_epochs", "C07", [f"{E}.sample_all_epochs", f"{E}.append_epoch", f"{E}.is_sampling_done"],
      summaries=[f"{E}.sample_next_epoch (C07.sample_next_epoch)", f"{EPOCH}::EpochManager.has_more/append (C16)"])
def u_sample_all(ip):
    """sample_all_epochs = sample_next_epoch while the manager has more (each loop step is exactly one sample_next_epoch);
    append_epoch only forwards to the manager. Since sample_next_epoch depends only on the engine state and the next config,
    appending and sampling epochs one at a time yields the same kernel trace."""
    c = ip.ctx
    key = f"{E}.sample_all_epochs"
    eng = sym_engine(ip)
    remaining = {"n": c.fresh("remaining", Int)}
    c.assume(remaining["n"] >= 0)
    n0 = remaining["n"]
    calls = {"n": z3.IntVal(0)}
    appended = []
    eng.f["_epoch_manager"] = PyObj("manager", has_more=PyFn(lambda ip_: remaining["n"] > 0, "has_more"),
                                    append=PyFn(lambda ip_, e: appended.append(e), "append"))

    def sne(ip_, args, kwargs):
        ip_.ctx.oblige("next_epoch_only_if_more", remaining["n"] > 0)
        remaining["n"] = remaining["n"] - 1
        calls["n"] = calls["n"] + 1

    ip.summaries[f"{E}.sample_next_epoch"] = sne

    def inv(ip_, env):
        return [("count", And(remaining["n"] >= 0, calls["n"] + remaining["n"] == n0))]

    def havoc(ip_, env):
        remaining["n"] = ip_.ctx.fresh("h_remaining", Int)
        calls["n"] = ip_.ctx.fresh("h_calls", Int)

    ip.loop_specs[(key, 0)] = LoopSpec(inv, havoc=havoc, decreases=lambda ip_, env: remaining["n"])
    ip.call(method(ip, eng, "sample_all_epochs"), [], {})
    c.oblige("one_sample_next_epoch_per_remaining_epoch", calls["n"] == n0)
    c.oblige("done_afterwards", remaining["n"] == 0)
    cfg = z3.Const("cfg", U)
    ip.call(method(ip, eng, "append_epoch"), [cfg], {})
    c.oblige("append_epoch_forwards_to_manager", len(appended) == 1 and appended[0] is cfg)


@unit("C07.init_flag", "C07", [f"{E}.__init__"], assumptions=["slice: only the statement(s) of Engine.__init__ that assign _warmup_has_ended / _epoch are executed"])
def u_init_flag(ip):
    """a new engine has not ended warmup and has no active epoch (initial values of the lifecycle invariant), whatever
    schedule it is constructed with."""
    c = ip.ctx
    key = f"{E}.__init__"
    eng = Obj(ip.repo(E))
    cfgs = SSeq("epoch_configs", {"type": Int, "duration": Int, "thinning": Int}, elem_cls=ip.repo(f"{EPOCH}::EpochConfig"))
    env_vars = {"epoch_configs": cfgs, "seeds": z3.Const("seeds", U), "model_states": z3.Const("model_states", U)}
    env, lines, sig = exec_slice(ip, key, env_vars, assigns_attr("_warmup_has_ended"), assigns_attr("_warmup_has_ended"), self_obj=eng)
    v = eng.f.get("_warmup_has_ended")
    c.oblige("warmup_not_ended_initially", v is False or (is_z3(v) and z3.is_false(z3.simplify(v))))
    env, lines2, sig = exec_slice(ip, key, env_vars, assigns_attr("_epoch"), assigns_attr("_epoch"), self_obj=eng)
    c.oblige("no_active_epoch_initially", eng.f.get("_epoch", 0) is None)
    c.oblige("single_assignment_of_flag_in_init", sum(1 for n in ast.walk(ip.repo(key).node) if isinstance(n, ast.Attribute) and n.attr == "_warmup_has_ended" and isinstance(n.ctx, ast.Store)) == 1)


def engine_init_unit(uid, prop):
    @unit(uid, prop, [f"{E}.__init__", f"{KS}::KernelSequence.__init__", "liesel/goose/chain.py::EpochChainManager.__init__", f"{EPOCH}::EpochManager.__init__"],
          summaries=[f"{E}._split_prng_key_one", "KernelSequence.init_states (C10.init_and_quantity_keys)"],
          assumptions=["A-JIT / A-VMAP: jax.jit(f) = f, vmap(f)(xs)[c] = f(xs[c])", "two kernels; all four combinations of their needs_history flags; schedule of symbolic length"])
    def u(ip):
        """the REAL Engine constructor (whole body): a new engine has not ended warmup and has no active epoch; tuning history is requested
        iff AT LEAST ONE kernel needs it (whatever its place in the sequence); by default every kernel's position keys are tracked, in
        kernel order, and a given non-empty selection is used as is; positions and generated quantities are stored thinned, transition
        infos and kernel states are not; the kernel states are initialised from one fresh engine draw; the schedule goes through the epoch
        manager; the kernel sequence is the one given."""
        c = ip.ctx
        install_engine_models(ip)
        ip.models["jax.jit"] = lambda ip_, f, **kw: f
        ip.summaries[f"{EPOCH}::EpochManager.__init__"] = lambda ip_, args, kwargs: args[0].f.__setitem__("_configs", ("managed", args[1] if len(args) > 1 else kwargs.get("configs")))
        cfgs = z3.Const("epoch_configs", U)
        for h0, h1 in ((True, False), (False, True), (False, False), (True, True)):
            for given in (None, ["q", "p1"], []):
                trace = []
                ks = [ghost_kernel(ip, i, trace, IDENTS[i]) for i in range(2)]
                ks[0].attrs["needs_history"], ks[1].attrs["needs_history"] = h0, h1
                seq = ip.call(ip.repo(f"{KS}::KernelSequence"), [list(ks)], {})
                eng = ip.call(ip.repo(E), [], dict(seeds=z3.Const("seeds", U), model_states=z3.Const("model_states", U), kernel_sequence=seq, epoch_configs=cfgs,
                                                   jitted_sample_duration=c.fresh("chunk", Int), model=PyObj("model"), position_keys=given, store_kernel_states=c.fresh("store", Bool),
                                                   minimize_transition_infos=c.fresh("minimize_infos", Bool)))  # both options arbitrary: the storage layout must not depend on them
                tag = f".h{int(h0)}{int(h1)}." + ("default" if given is None else "given" if given else "empty")
                if given is None:
                    c.oblige("history_requested_iff_some_kernel_needs_it" + tag[:4], ip.truth(eng.f["_history_required_for_tuning"]) is (h0 or h1))
                if (h0, h1) != (True, False):
                    continue
                c.oblige("warmup_not_ended_no_active_epoch" + tag, ip.truth(eng.f["_warmup_has_ended"]) is False and eng.f["_epoch"] is None)
                if given:
                    c.oblige("given_selection_tracked" + tag, list(eng.f["_position_keys"]) == ["q", "p1"])
                elif given is None:
                    c.oblige("default_tracks_every_kernel_key_in_kernel_order" + tag, list(eng.f["_position_keys"]) == ["p0", "p1"])
                thin = lambda ch: ip.truth(ch.f["_apply_thinning"])  # noqa: E731
                c.oblige("positions_and_quantities_thinned_infos_and_kernel_states_not" + tag, thin(eng.f["_position_chain"]) is True and thin(eng.f["_quantities_chain"]) is True
                         and thin(eng.f["_transition_info_chain"]) is False and thin(eng.f["_kernel_state_chain"]) is False)
                c.oblige("four_distinct_chain_managers" + tag, len({id(eng.f[n]) for n in ("_position_chain", "_quantities_chain", "_transition_info_chain", "_kernel_state_chain")}) == 4)
                inits = [t for t in trace if t[0] == "init_state"]
                c.oblige("kernel_states_initialised_once_per_kernel_from_a_fresh_engine_draw" + tag, [t[1] for t in inits] == [0, 1] and all(
                    is_z3(t[2][0]) and "split_key" in str(t[2][0]) for t in inits) and ip.to_U(inits[0][2][1]).eq(z3.Const("model_states", U)))
                c.oblige("schedule_goes_through_epoch_manager" + tag, eng.f["_epoch_manager"].f.get("_configs") == ("managed", cfgs))
                c.oblige("kernel_sequence_and_states_installed" + tag, eng.f["_kernel_sequence"] is seq and ip.to_U(eng.f["_model_states"]).eq(z3.Const("model_states", U))
                         and ip.to_U(eng.f["_prng_key"]).eq(z3.Const("seeds", U)))
    return u


engine_init_unit("C07.engine_init", "C07")


# "global time continues across epochs": the epoch states the engine takes from its manager carry consecutive start times = the sum of the
# earlier accepted durations, whatever their thinning (same harness as C16.observable.*)
from contracts.c16 import observable_unit  # noqa: E402

observable_unit("interleaved", uid="C07.epoch_start_times_consecutive", prop="C07")


# "the tuning call receives that epoch's history": every epoch - also one that re-uses the configuration object of its predecessor - gets a chain of
# its own (same harness as C08.manager_advance_and_append)
import contracts.c08  # noqa: E402,F401
from pyvc.unit import reuse as _reuse  # noqa: E402

_reuse("C08.manager_advance_and_append", "C07.every_epoch_gets_its_own_history_chain", "C07")


# every engine drives ITS kernels through the whole configured schedule - also the second engine built from one builder (the schedule state of an engine is
# its own; same harness as C10.builder_reused_after_schedule_change: each schedule is built twice and both engines' managers are run to their end)
from contracts.c10 import rebuild_unit as _rebuild_unit  # noqa: E402

_rebuild_unit("C07.engines_built_from_one_builder_have_their_own_schedule", "C07")

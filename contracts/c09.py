"""C09 - kernels compose blockwise and keep the model state coherent."""
from pyvc.api import *
from contracts.common import KERNELS, model_stub, sym_da_state, sym_epoch_state, sym_kernel
from contracts.c07 import IDENTS, KS, ghost_kernel
from contracts.c11 import blackjax_models

IFACE = "liesel/goose/interface.py"
GIBBS = "liesel/goose/gibbs.py"


@unit("C09.threading", "C09", [f"{KS}::KernelSequence.__init__", f"{KS}::KernelSequence.transition"], assumptions=["kernel count 3 in this unit (C07.kernel_sequence covers 1..3)"])
def u_threading(ip):
    """within an iteration the kernels run in the configured order and kernel i starts from the model state returned by
    kernel i-1; the sequence returns the last kernel's state."""
    c = ip.ctx
    n = 3
    trace = []
    # what a kernel reports about its transition (error code, acceptance probability, ...) is arbitrary: the hand-over does not depend on it
    ip.opaque_attr["error_code"] = lambda ip_, v: ip_.uf("error_code_of", v, sort=Int)
    ip.opaque_attr["acceptance_prob"] = lambda ip_, v: ip_.uf("acceptance_prob_of", v, sort=Real)
    ip.opaque_attr["position_moved"] = lambda ip_, v: ip_.uf("position_moved_of", v, sort=Int)
    # built by the REAL constructor from kernels whose identifiers are not in alphabetical order
    seq = ip.call(ip.repo(f"{KS}::KernelSequence"), [[ghost_kernel(ip, i, trace, IDENTS[i]) for i in range(n)]], {})
    key, ms, ep = z3.Const("key", U), z3.Const("ms", U), sym_epoch_state(ip)
    res = ip.call(method(ip, seq, "transition"), [key, [z3.Const(f"ks{i}", U) for i in range(n)], ms, ep], {})
    expect = ms
    ok = [(t[0], t[1]) for t in trace] == [("transition", i) for i in range(n)]
    c.oblige("configured_order", ok)
    for i in range(n):
        c.oblige(f"kernel_{i}_starts_from_predecessor_state", ok and trace[i][2][2].eq(expect))
        expect = ip.uf(f"k{i}_model_state", ip.uf("split", key, z3.IntVal(i)), expect)
    c.oblige("returns_last_state", res.f["model_state"].eq(expect))


def mh_step_contract(ip, args, kwargs):
    """contract of mh_step proved by C05: returns the input state itself or update_state(proposal, state)"""
    key, model, proposal, state = bind_args(ip, "liesel/goose/mh.py::mh_step", args, kwargs)[:4]
    ip.ctx.ghost["mh_proposal"] = proposal
    info = new_obj(ip, "liesel/goose/kernel.py::DefaultTransitionInfo", error_code=ip.ctx.fresh("code", Int), acceptance_prob=ip.ctx.fresh("acc", Real), position_moved=ip.ctx.fresh("moved", Int))
    if ip.ctx.branch(ip.ctx.fresh("accepted", Bool), "mh-accept"):
        return info, ip.call(model.attrs["update_state"], [proposal, state], {})
    return info, state


def frame_unit(kind, uid=None, prop="C09"):
    if kind == "Gibbs":
        rel, kcls = GIBBS, "GibbsKernel"
        fn = f"{rel}::{kcls}.transition"
    else:
        rel, kcls, _ = KERNELS[kind]
        fn = f"{rel}::{kcls}._standard_transition"

    @unit(uid or f"C09.frame.{kind}", prop, [fn, "liesel/goose/kernel.py::ModelMixin.position", "liesel/goose/kernel.py::ModelMixin.log_prob_fn", "liesel/goose/kernel.py::ModelMixin.model.fget"],
          summaries=["mh_step (C05)", "iwls_utils (C06 bounded)", "blackjax (A-BJX: the returned position has the keys it was given)"])
    def u(ip, kind=kind):
        """a transition returns either the very model state it was given (rejection) or update_state(P, given state), where P
        holds exactly the kernel's own position keys; the state handed to update_state is the given one (not a stale copy)."""
        c = ip.ctx
        blackjax_models(ip)
        keys = ("b", "a")

        def unravel_model(ip_, tree):
            ks_ = list(tree.keys())
            return ip_.uf("ravel", ip_.to_U(tree)), PyFn(lambda ip2, flat: {k: ip2.uf("unravel_" + k, ip2.to_U(flat)) for k in ks_}, "unravel_fn")

        ip.models["jax.flatten_util.ravel_pytree"] = unravel_model
        ip.summaries["liesel/goose/mh.py::mh_step"] = mh_step_contract
        for nm in ("solve", "mvn_log_prob", "mvn_sample"):
            ip.summaries[f"liesel/goose/iwls_utils.py::{nm}"] = (lambda n: lambda ip_, args, kwargs: ip_.uf(n, *[ip_.to_U(a) for a in args]))(nm)
        # blackjax: the new position is a dict with the same keys as the initial position (A-BJX)
        if kind in ("HMC", "NUTS"):
            def kernel_factory(ip_, **kw):
                c.ghost["bj_kwargs"] = kw

                def step(ip2, key, state):
                    c.ghost["bj_step_state"] = state
                    pos0 = state.attrs["position"]
                    st = PyObj("bj_state", position={k: ip2.uf("bj_new_" + k, ip2.to_U(key), ip2.to_U(pos0)) for k in pos0})
                    info = PyObj("bj_info", **{n: z3.Const("bj_" + n, U) for n in ("is_divergent", "num_trajectory_expansions", "is_turning", "num_integration_steps", "is_accepted", "acceptance_rate")})
                    return st, info
                return PyObj("bj_kernel", step=PyFn(step, "blackjax.step"))
            for nm in ("blackjax.nuts", "blackjax.hmc"):
                ip.models[nm] = kernel_factory
            for nm in ("blackjax.mcmc.nuts.init", "blackjax.mcmc.hmc.init"):
                ip.models[nm] = lambda ip_, pos, fn_: PyObj("bj_state0", position=pos, logdensity_fn=fn_)
        ms = z3.Const("given_state", U)
        if kind == "Gibbs":
            from contracts.c07 import install_pytree_models
            install_pytree_models(ip)
            ip.models["jax.numpy.result_type"] = lambda ip_, *a: ip_.uf("dtype_of", *[ip_.to_U(x) for x in a])
            ip.models["jax.numpy.asarray"] = lambda ip_, x, dtype=None, **kw: x if dtype is None else ip_.uf("cast", ip_.to_U(x), ip_.to_U(dtype))
            user = PyFn(lambda ip_, key, st: {k: ip_.uf("gibbs_draw_" + k, ip_.to_U(key), ip_.to_U(st)) for k in keys}, "transition_fn")
            k = ip.call(ip.repo(f"{GIBBS}::GibbsKernel"), [list(keys), user], {})  # the REAL constructor
            ip.call(method(ip, k, "set_model"), [model_stub(ip)], {})
            ip.setattr(k, "identifier", "g")
            out = ip.call(method(ip, k, "transition"), [z3.Const("key", U), {}, ms, sym_epoch_state(ip)], {})
        else:
            k = sym_kernel(ip, kind, keys=keys)
            ks_in = sym_da_state(ip, kind)
            out = ip.call(method(ip, k, "_standard_transition"), [z3.Const("key", U), ks_in, ms, sym_epoch_state(ip)], {})
            if kind in ("HMC", "NUTS"):
                kw = c.ghost.get("bj_kwargs", {})
                c.oblige("blackjax_gets_current_step_size_and_metric", kw.get("step_size") is ks_in.f["step_size"] and kw.get("inverse_mass_matrix") is ks_in.f["inverse_mass_matrix"])
                probe = {k_: z3.Const(f"probe_{k_}", U) for k_ in keys}
                mdl = k.f["_model"]
                want = ip.call(mdl.attrs["log_prob"], [ip.call(mdl.attrs["update_state"], [probe, ms], {})], {})
                fn_ = kw.get("logdensity_fn")
                c.oblige("blackjax_density_is_model_log_prob_at_given_state", fn_ is not None and ip.call(fn_, [probe], {}) == want)
                st0 = c.ghost.get("bj_step_state")
                pos_want = ip.call(mdl.attrs["extract_position"], [keys, ms], {})
                c.oblige("blackjax_starts_from_current_position", st0 is not None and isinstance(st0.attrs.get("position"), dict) and list(st0.attrs["position"]) == list(keys)
                         and all(st0.attrs["position"][k_].eq(pos_want[k_]) for k_ in keys))
        new = out.f["model_state"]
        if is_z3(new) and new.eq(ms):
            c.cover("unchanged")
            c.oblige("rejection_returns_given_state", True)
            return
        c.cover("updated")
        # new must be model_update_state(P, given_state)
        ok = is_z3(new) and new.decl().name().startswith("model_update_state") and new.arg(1).eq(ms)
        c.oblige("update_applied_to_given_state", bool(ok))
        P = c.ghost.get("mh_proposal")
        if kind in ("HMC", "NUTS", "Gibbs"):
            # recover P from the term: compare with the dict encodings of candidate key sets
            cand = {k_: z3.Const("v_" + k_, U) for k_ in keys}
            P = None
            if ok:
                # structural: the encoded position must be a dictput-chain over exactly the kernel's keys
                t, seen = new.arg(0), []
                while t.decl().name().startswith("dictput"):
                    seen.append(str(t.arg(1)))
                    t = t.arg(0)
                c.oblige("position_has_exactly_own_keys", sorted(seen) == sorted(f"str:{k_}" for k_ in keys) and str(t) == "emptydict")
                if kind == "Gibbs":
                    # the values that reach the state are the transition function's draws themselves (no cast, rounding or clipping in between)
                    t, vals_ = new.arg(0), {}
                    while t.decl().name().startswith("dictput"):
                        vals_[str(t.arg(1))] = t.arg(2)
                        t = t.arg(0)
                    c.oblige("draws_reach_the_state_unmodified", all(f"str:{k_}" in vals_ and vals_[f"str:{k_}"].eq(ip.uf("gibbs_draw_" + k_, z3.Const("key", U), ms)) for k_ in keys))
        elif kind == "MH":
            c.oblige("user_proposal_forwarded", isinstance(P, dict) and all(str(P[k_].decl().name()).startswith("user_prop") for k_ in P))
        else:
            c.oblige("position_has_exactly_own_keys", isinstance(P, dict) and sorted(P) == sorted(keys))
    return u


for _k in ("RW", "MH", "IWLS", "HMC", "NUTS", "Gibbs"):
    frame_unit(_k)


def liesel_update_unit(rel, cls):
    @unit(f"C09.liesel_update_state.{cls}", "C09", [f"{rel}::{cls}.update_state", f"{rel}::{cls}.log_prob"])
    def u(ip, rel=rel, cls=cls):
        """update_state restores the given state into the private model, clears every node's outdated flag, assigns each
        position entry to the node or (if no node of that name) the variable of that name, runs a FULL model update (no
        targets), and returns the model's state: every derived quantity incl. the stored log-probability is recomputed."""
        c = ip.ctx
        log = []
        nodes = {n: PyObj(f"node_{n}", _outdated=z3.Const(f"od_{n}", U)) for n in ("a", "derived", "_model_log_prob")}

        class _Setter:
            pass

        def node_obj(n):
            o = Obj("NodeStub", {"_outdated": True})
            return o
        node_objs = {n: node_obj(n) for n in ("a", "derived", "_model_log_prob")}
        var_b = Obj("VarStub", {})
        ip.models["setattr_hook"] = lambda ip_, o, name, v: log.append(("set", next((k for k, x in node_objs.items() if x is o), "var_b" if o is var_b else "?"), name, v))
        model = PyObj("private_model", nodes=node_objs, vars={"b": var_b},
                      update=PyFn(lambda ip_, *names: (log.append(("update", names)), None)[1], "update"))
        state_in, state_out = {"a": z3.Const("st_a", U)}, z3.Const("state_after_update", U)

        class M:
            pass

        def getstate(ip_):
            log.append(("get_state",))
            return state_out
        # `self._model.state = x` / `self._model.state`: model as Obj with property-like fields handled through hooks
        def do_update(ip_, *names):
            log.append(("update", names))
            mobj.f["state"] = state_out  # the model's state after the update

        mobj = Obj("ModelStub", {"nodes": node_objs, "vars": {"b": var_b}, "update": PyFn(do_update, "update"), "state": z3.Const("state_before", U)})
        hook_prev = ip.models["setattr_hook"]

        def hook(ip_, o, name, v):
            if o is mobj and name == "state":
                log.append(("restore_state", v))
            else:
                hook_prev(ip_, o, name, v)
        ip.models["setattr_hook"] = hook
        iface = new_obj(ip, f"{rel}::{cls}", _model=mobj)
        pos = {"a": z3.Const("new_a", U), "b": z3.Const("new_b", U)}
        res = ip.call(method(ip, iface, "update_state"), [pos, state_in], {})
        kinds = [e[0] for e in log]
        c.oblige("state_restored_first", len(log) > 0 and log[0][0] == "restore_state" and log[0][1] is state_in)
        cleared = [e for e in log if e[0] == "set" and e[2] == "_outdated"]
        c.oblige("all_flags_cleared", sorted(e[1] for e in cleared) == sorted(node_objs) and all(e[3] is False for e in cleared))
        assigns_ = [e for e in log if e[0] == "set" and e[2] == "value"]
        c.oblige("values_assigned_by_name", [(e[1], str(e[3])) for e in assigns_] == [("a", "new_a"), ("var_b", "new_b")])
        upd = [e for e in log if e[0] == "update"]
        c.oblige("exactly_one_full_update", len(upd) == 1 and upd[0][1] == ())
        c.oblige("update_after_assignments", kinds.index("update") > max(i for i, e in enumerate(log) if e[0] == "set"))
        c.oblige("returns_model_state", is_z3(res) and res.eq(state_out))
        lp = ip.call(method(ip, iface, "log_prob"), [{"_model_log_prob": PyObj("ns", value=z3.Const("lp_value", U))}], {})
        c.oblige("log_prob_is_stored_model_log_prob", is_z3(lp) and lp.eq(z3.Const("lp_value", U)))
    return u


liesel_update_unit(IFACE, "LieselInterface")
liesel_update_unit("liesel/model/goose.py", "GooseModel")


@unit("C09.log_prob_fn", "C09", ["liesel/goose/kernel.py::ModelMixin.log_prob_fn", "liesel/goose/kernel.py::ModelMixin.position", "liesel/goose/kernel.py::ModelMixin.model.fget"])
def u_log_prob_fn(ip):
    """the density handed to blackjax (HMC / NUTS) maps a position to the model log-probability of update_state(position, the given state);
    `position` extracts exactly the kernel's own keys; a kernel without a model interface is rejected."""
    c = ip.ctx
    k = sym_kernel(ip, "NUTS", keys=("b", "a"))
    ms, pos = z3.Const("ms", U), z3.Const("pos", U)
    f = ip.call(method(ip, k, "log_prob_fn"), [ms], {})
    r = ip.call(f, [pos], {})
    want = ip.call(k.f["_model"].attrs["log_prob"], [ip.call(k.f["_model"].attrs["update_state"], [pos, ms], {})], {})
    c.oblige("log_prob_of_updated_state", r == want)
    p = ip.call(method(ip, k, "position"), [ms], {})
    c.oblige("position_has_own_keys_in_order", list(p) == ["b", "a"])
    k.f["_model"] = None
    kind, e = try_call(ip, method(ip, k, "position"), [ms])
    c.oblige("no_model_rejected", kind == "raise" and e.cls == "RuntimeError")


@unit("C09.kernel_sequence_init", "C09", [f"{KS}::KernelSequence.__init__", f"{KS}::KernelSequence.get_kernels"])
def u_ks_init(ip):
    """the constructor accepts exactly the kernel lists whose identifiers are non-empty and pairwise distinct (RuntimeError otherwise) and keeps
    the kernels in the configured order, whatever their identifiers."""
    c = ip.ctx
    cls = ip.repo(f"{KS}::KernelSequence")
    for tag, idents, ok in (("unsorted", ["zeta", "alpha", "mid"], True), ("auto", ["kernel_00", "kernel_100", "kernel_11"], True), ("single", ["k"], True),
                            ("duplicate", ["a", "b", "a"], False), ("empty_identifier", ["a", ""], False)):
        ks = [PyObj(f"k{i}", identifier=idt, position_keys=(f"p{i}",)) for i, idt in enumerate(idents)]
        kind, r = try_call(ip, cls, [list(ks)])
        if ok:
            got = ip.call(method(ip, r, "get_kernels"), [], {}) if kind == "ok" else None
            c.oblige(f"{tag}.accepted_and_order_kept", kind == "ok" and isinstance(got, list) and len(got) == len(ks) and all(got[i] is ks[i] for i in range(len(ks))))
        else:
            c.oblige(f"{tag}.rejected_with_runtime_error", kind == "raise" and r.cls == "RuntimeError")


BUILDER = "liesel/goose/builder.py::EngineBuilder"


@unit("C09.builder_kernel_order", "C09", [f"{BUILDER}.add_kernel", f"{BUILDER}.kernels.fget", f"{BUILDER}.build"],
      assumptions=["slice: the identifier-assignment loop of build() and the keyword wiring of its return statement"], summaries=["KernelSequence.__init__ (C09.kernel_sequence_init)"])
def u_builder_kernels(ip):
    """kernels reach the engine in the order in which they were added: add_kernel appends, the kernels property lists them in that order,
    build() gives an identifier only to kernels that have none (kernel_<index>, two digits) without reordering, and hands
    KernelSequence(self.kernels) to the engine."""
    c = ip.ctx
    b = new_obj(ip, BUILDER, _kernels=[])
    ks = [PyObj(f"k{i}", identifier=idt, position_keys=(f"p{i}",)) for i, idt in enumerate(["zeta", "", "alpha", ""])]
    for k in ks:
        ip.call(method(ip, b, "add_kernel"), [k], {})
    got = ip.getattr(b, "kernels")
    c.oblige("kernels_listed_in_order_added", isinstance(got, tuple) and len(got) == 4 and all(got[i] is ks[i] for i in range(4)))
    env, lines, sig = exec_slice(ip, f"{BUILDER}.build", {}, lambda s_: isinstance(s_, ast.For) and "kernel_" in ast.dump(s_), lambda s_: isinstance(s_, ast.For) and "kernel_" in ast.dump(s_), self_obj=b)
    got = ip.getattr(b, "kernels")
    c.oblige("order_unchanged_by_identifier_assignment", isinstance(got, tuple) and len(got) == 4 and all(got[i] is ks[i] for i in range(4)))
    c.oblige("given_identifiers_kept_missing_ones_numbered", [ip.getattr(k, "identifier") for k in ks] == ["zeta", "kernel_01", "alpha", "kernel_03"])
    clo = ip.repo(f"{BUILDER}.build")
    ret = [n_ for n_ in ast.walk(clo.node) if isinstance(n_, ast.Return)][-1]
    kw = {k.arg: k.value for k in ret.value.keywords}
    c.oblige("engine_gets_kernel_sequence_of_builder_kernels", ast.unparse(kw.get("kernel_sequence")) == "KernelSequence(self.kernels)" if kw.get("kernel_sequence") is not None else False, structural=True)


# observational form of "after every transition all derived quantities equal those recomputed from the stored parameter values": the state
# returned by update_state (what every kernel hands to its successor) is node by node the state a fresh model reaches by direct assignment
# and a full update - same harness as C03's, on the shapes where a partial refresh shows (leaf node / direct consumer of a value node)
from contracts.c03 import liesel_unit  # noqa: E402

liesel_unit("pit", uid="C09.coherent_state.pit", prop="C09")  # a caching node class outside the Calc / Dist hierarchy (legacy PIT node)
liesel_unit("optional", uid="C09.coherent_state.optional", prop="C09")
liesel_unit("hier", uid="C09.coherent_state.hier.model_rebuilt_after_pop", prop="C09", prehistory="pop")  # variables with a history in an earlier model
liesel_unit("weakdist", uid="C09.coherent_state.weakdist.model_rebuilt_from_copy", prop="C09", prehistory="copy")
liesel_unit("direct", uid="C09.coherent_state.direct", prop="C09")
liesel_unit("weakdist", uid="C09.coherent_state.weakdist", prop="C09")
liesel_unit("transformed", uid="C09.coherent_state.transformed", prop="C09")  # a derived quantity whose definition depends on ANOTHER block's parameter
liesel_unit("weakdist_deep", uid="C09.coherent_state.weakdist_deep", prop="C09")
liesel_unit("weakdist_deep", uid="C09.coherent_state.weakdist_deep.single_key", prop="C09", single_key=True)
liesel_unit("hier", uid="C09.coherent_state.hier.single_key", prop="C09", single_key=True)
liesel_unit("diamond", auto_update=False, uid="C09.coherent_state.diamond.auto_update_off", prop="C09")


# the builder and the engine constructor end to end through the public API (same harness as C10.build_end_to_end)
from contracts.c10 import build_whole_unit  # noqa: E402

build_whole_unit("C09.build_end_to_end", "C09", "A")
build_whole_unit("C09.build_end_to_end.variant_b", "C09", "B")


# the caching protocol this property's statement rests on (values and densities "after updating")
from contracts.c01 import register_cache_core  # noqa: E402

register_cache_core("C09")


# the built-in Gibbs kernel for smoothing variances starts from the state it is handed (hyper-parameters, penalty, coefficients as the preceding
# kernels left them), not from what the variables held when the kernel was created (same harness as C13.tau2_transition / C13.group_value_from)
import contracts.c13  # noqa: E402,F401
from pyvc.unit import reuse  # noqa: E402

reuse("C13.tau2_transition", "C09.tau2_kernel_reads_the_state_it_is_handed", "C09")
reuse("C13.group_value_from", "C09.group_values_are_read_from_the_given_state", "C09")
reuse("C13.finite_discrete", "C09.finite_discrete_kernel_leaves_the_users_model_and_reads_the_given_state", "C09")

# "the log-probability [in the returned state] is coherent with the stored parameter values": the stored total is the sum over ALL distribution nodes of the
# model, also one that belongs to no variable (a soft constraint) - what the kernels compare is the model's joint density (same harness as
# C02.bare_distribution_node_counts_in_log_prob)
import contracts.c02  # noqa: E402,F401

reuse("C02.bare_distribution_node_counts_in_log_prob", "C09.stored_log_prob_counts_every_distribution_node", "C09")


@unit("C09.kernels_work_on_the_model_the_engine_is_built_with", "C09", [f"{BUILDER}.set_model", f"{BUILDER}.add_kernel", f"{BUILDER}.build", "liesel/goose/engine.py::Engine.__init__"],
      assumptions=["REAL builder; history: set_model(A) - add_kernel x 2 - set_model(B) - build (a model interface that was corrected / rebuilt before sampling); kernels that "
                   "do not bring an interface of their own"])
def u_model_rebinding(ip):
    """'recomputed from the stored parameter values' is with respect to ONE model: the kernels evaluate and update states with the interface the engine is built
    with - the one the builder holds at build() - not with an interface that was current when the kernel was added."""
    c = ip.ctx
    from contracts.c10 import builder_setup
    b, mk = builder_setup(ip)  # set_model(A), set_initial_values, add_kernel x 2
    ip.call(method(ip, b, "set_epochs"), [mk(((0, 1, 1), (4, 6, 1)))], {})
    model_b = PyObj("model_B", extract_position=PyFn(lambda ip_, keys, st: {k: ip_.uf("extract_B", z3.Const(f"str:{k}", U), ip_.to_U(st)) for k in keys}, "extract_position"),
                    update_state=PyFn(lambda ip_, pos, st: ip_.uf("update_state_B", ip_.to_U(pos), ip_.to_U(st)), "update_state"))
    ip.call(method(ip, b, "set_model"), [model_b], {})
    kind, eng = try_call(ip, method(ip, b, "build"), [], {})
    c.oblige("build_succeeds", kind == "ok")
    if kind != "ok":
        return
    ks = ip.call(method(ip, eng.f["_kernel_sequence"], "get_kernels"), [], {})
    c.oblige("every_kernel_is_bound_to_the_engines_model", len(ks) == 2 and all(k.attrs.get("_model") is model_b for k in ks) and eng.f["_model"] is model_b)

"""C16 - epoch schedules accepted iff valid; Stan warmup adds up; builder chunk divides.

Spec functions are written from the property statement, not from the code.
"""
from pyvc.api import *

EPOCH = "liesel/goose/epoch.py"
CFG_FIELDS = {"type": Int, "duration": Int, "thinning": Int}
INIT, FAST, SLOW, BURNIN, POST = 0, 1, 2, 3, 4


def is_type(t):
    return And(t >= 0, t <= 4)


def is_warmup_spec(t):
    return And(t >= 1, t <= 3)


def valid(seq, n=None):
    """Valid(seq[:n]) literally as in the statement."""
    n = seq.length if n is None else n
    i, j = z3.Int("vi"), z3.Int("vj")
    ty, du, th = (lambda k: seq.field("type", k)), (lambda k: seq.field("duration", k)), (lambda k: seq.field("thinning", k))
    starts_with_init = Implies(n > 0, And(ty(0) == INIT, du(0) == 1))
    no_other_init = ForAll([j], Implies(And(j >= 1, j < n), ty(j) != INIT))
    durations = ForAll([j], Implies(And(j >= 0, j < n), And(du(j) >= 1, th(j) >= 1, th(j) <= du(j))))
    post_div = ForAll([j], Implies(And(j >= 0, j < n, ty(j) == POST), du(j) % th(j) == 0))
    no_warmup_after_post = ForAll(
        [i, j], Implies(And(i >= 0, i < j, j < n, ty(i) == POST), Not(is_warmup_spec(ty(j))))
    )
    types = ForAll([j], Implies(And(j >= 0, j < n), is_type(ty(j))))
    return And(starts_with_init, no_other_init, durations, post_div, no_warmup_after_post, types)


def valid_ext(seq, c):
    """Valid(seq ++ [c]) given Valid(seq): the clauses that concern the new last element."""
    n = seq.length
    i = z3.Int("xi")
    ty, du, th = c.f["type"], c.f["duration"], c.f["thinning"]
    return And(
        Implies(n == 0, And(ty == INIT, du == 1)),
        Implies(n > 0, ty != INIT),
        du >= 1, th >= 1, th <= du,
        Implies(ty == POST, du % th == 0),
        Not(Exists([i], And(i >= 0, i < n, seq.field("type", i) == POST, is_warmup_spec(ty)))),
    )


def sym_config(ip, name):
    c = ip.ctx
    cfg = new_obj(ip, f"{EPOCH}::EpochConfig", tag=name,
                  type=c.fresh(f"{name}.type", Int), duration=c.fresh(f"{name}.duration", Int),
                  thinning=c.fresh(f"{name}.thinning", Int), optional=None)
    c.assume(is_type(cfg.f["type"]))  # type invariant of the enum-typed field
    return cfg


def psum(seq):
    """prefix sums of durations: uninterpreted, unfolded on demand (ground instances only)"""
    f = z3.Function("psum", Int, Int)
    return f


def psum_unfold(ip, seq, k):
    f = psum(seq)
    ip.ctx.assume(f(0) == 0)
    ip.ctx.assume(Implies(k >= 0, f(k + 1) == f(k) + seq.field("duration", k)))


def sym_manager(ip, name="m"):
    c = ip.ctx
    cfgs = SSeq(f"{name}.configs", CFG_FIELDS, elem_cls=ip.repo(f"{EPOCH}::EpochConfig"))
    c.assume(cfgs.length >= 0)
    m = new_obj(ip, f"{EPOCH}::EpochManager", tag=name, _configs=cfgs,
                _next_epoch_ptr=c.fresh(f"{name}.ptr", Int), _next_start_time=c.fresh(f"{name}.start", Int),
                _nth_epoch=c.fresh(f"{name}.nth", Int))
    # representation invariant
    c.assume(valid(cfgs))
    c.assume(And(m.f["_next_epoch_ptr"] >= 0, m.f["_next_epoch_ptr"] <= cfgs.length))
    c.assume(m.f["_next_start_time"] == psum(cfgs)(m.f["_next_epoch_ptr"]))
    return m


# ------------------------------------------------------------------------------------------


@unit("C16.epoch_type_predicates", "C16", [f"{EPOCH}::EpochType.is_adaptation", f"{EPOCH}::EpochType.is_warmup"])
def u_predicates(ip):
    """is_adaptation(t) <=> t in {FAST,SLOW}; is_warmup(t) <=> t in {FAST,SLOW,BURNIN}; for every enum value."""
    t = ip.ctx.fresh("t", Int)
    ip.ctx.assume(is_type(t))
    ET = ip.repo(f"{EPOCH}::EpochType")
    ip.ctx.cover("pre")
    ra = ip.call(ip.getattr(ET, "is_adaptation"), [t], {})
    rw = ip.call(ip.getattr(ET, "is_warmup"), [t], {})
    ip.ctx.oblige("is_adaptation.iff", ip.ctx.as_bool(ra) == Or(t == FAST, t == SLOW))
    ip.ctx.oblige("is_warmup.iff", ip.ctx.as_bool(rw) == Or(t == FAST, t == SLOW, t == BURNIN))
    # enum constants as used by the spec
    for nm, v in (("INITIAL_VALUES", INIT), ("FAST_ADAPTATION", FAST), ("SLOW_ADAPTATION", SLOW), ("BURNIN", BURNIN), ("POSTERIOR", POST)):
        ip.ctx.oblige(f"enum.{nm}", ip.getattr(ET, nm) == v)


@unit("C16.append", "C16", [f"{EPOCH}::EpochManager.append", f"{EPOCH}::EpochType.is_warmup"])
def u_append(ip):
    """append(c) returns normally <=> Valid(_configs ++ [c]); then _configs' = _configs ++ [c];
    otherwise raises RuntimeError and changes nothing."""
    c = ip.ctx
    m = sym_manager(ip)
    cfg = sym_config(ip, "c")
    old = m.f["_configs"].copy()
    old_ptr, old_start = m.f["_next_epoch_ptr"], m.f["_next_start_time"]
    scalars0 = {k: v for k, v in m.f.items() if k != "_configs"}
    c.witness("configs", old)
    c.witness("config", cfg)
    c.cover("pre")
    kind, res = try_call(ip, method(ip, m, "append"), [cfg])
    new = m.f["_configs"]
    if kind == "ok":
        c.cover("returns")
        c.oblige("returns_only_if_valid", valid_ext(old, cfg))
        c.oblige("appended.length", new.length == old.length + 1)
        for f in CFG_FIELDS:
            c.oblige(f"appended.last.{f}", new.field(f, old.length) == cfg.f[f])
            j = z3.Int("fj")
            c.oblige(f"appended.prefix_unchanged.{f}", ForAll([j], Implies(And(j >= 0, j < old.length), new.field(f, j) == old.field(f, j))))
        c.oblige("rep_inv_preserved", valid(new))
    else:
        c.cover("raises")
        c.oblige("raises_only_runtime_error", res.cls == "RuntimeError")
        c.oblige("raises_only_if_invalid", Not(valid_ext(old, cfg)))
        c.oblige("raise_frame.length", new.length == old.length)
        c.oblige("raise_frame.scalar_fields", all((m.f[k] is v) or (is_z3(v) and is_z3(m.f[k]) and m.f[k].eq(v)) for k, v in scalars0.items()) and set(m.f) == set(scalars0) | {"_configs"},
                 fields=str(sorted(m.f)))
        for f in CFG_FIELDS:
            c.oblige(f"raise_frame.{f}", new.arrays[f] == old.arrays[f])
    c.oblige("frame.ptr", m.f["_next_epoch_ptr"] == old_ptr, structural=True)
    c.oblige("frame.start", m.f["_next_start_time"] == old_start, structural=True)


def append_contract(ip, args, kwargs):
    """Contract of EpochManager.append as proved by C16.append (used modularly by callers)."""
    self_, cfg = args[0], (args[1] if len(args) > 1 else kwargs["config"])
    seq = self_.f["_configs"]
    ok = valid_ext(seq, cfg)
    if ip.ctx.choose([ok, Not(ok)], "append-contract") == 1:
        raise PyRaise("RuntimeError")
    seq.append(cfg)
    return None


@unit("C16.next", "C16", [f"{EPOCH}::EpochManager.next", f"{EPOCH}::EpochManager.has_more", f"{EPOCH}::EpochConfig.to_state"])
def u_next(ip):
    """next() hands out index = old pointer and start time = sum of earlier durations, advances both;
    raises RuntimeError iff exhausted (and then changes nothing)."""
    c = ip.ctx
    m = sym_manager(ip)
    seq = m.f["_configs"]
    ptr, start = m.f["_next_epoch_ptr"], m.f["_next_start_time"]
    c.witness("configs", seq.copy())
    c.witness("ptr", ptr)
    psum_unfold(ip, seq, ptr)
    c.cover("pre")
    hm = ip.call(method(ip, m, "has_more"), [], {})
    c.oblige("has_more.iff", c.as_bool(hm) == (ptr < seq.length))
    kind, st = try_call(ip, method(ip, m, "next"))
    if kind == "ok":
        c.cover("returns")
        c.oblige("returns_iff_has_more", ptr < seq.length)
        c.oblige("state.nth_epoch", st.f["nth_epoch"] == ptr)
        c.oblige("state.time", st.f["time"] == psum(seq)(ptr))
        c.oblige("state.time_before_epoch", st.f["time_before_epoch"] == psum(seq)(ptr))
        c.oblige("state.time_in_epoch", st.f["time_in_epoch"] == 0)
        for f in CFG_FIELDS:
            c.oblige(f"state.config.{f}", st.f["config"].f[f] == seq.field(f, ptr))
        c.oblige("ptr_advanced", m.f["_next_epoch_ptr"] == ptr + 1, structural=True)
        c.oblige("start_advanced", m.f["_next_start_time"] == psum(seq)(ptr + 1), structural=True)
        c.oblige("rep_inv.ptr_range", And(m.f["_next_epoch_ptr"] >= 0, m.f["_next_epoch_ptr"] <= seq.length), structural=True)
    else:
        c.cover("raises")
        c.oblige("raises_only_runtime_error", res_cls(st) == "RuntimeError")
        c.oblige("raises_iff_exhausted", ptr >= seq.length)
        c.oblige("raise_frame", And(m.f["_next_epoch_ptr"] == ptr, m.f["_next_start_time"] == start), structural=True)
    c.oblige("frame.configs", m.f["_configs"] is seq, structural=True)


def res_cls(e):
    return e.cls


@unit("C16.init", "C16", [f"{EPOCH}::EpochManager.__init__"], summaries=[f"{EPOCH}::EpochManager.append (proved by C16.append)"])
def u_init(ip):
    """EpochManager(configs) returns normally <=> Valid(configs) and then holds exactly configs,
    pointer 0, start time 0 (loop invariant over the symbolic-length input; append used by contract)."""
    c = ip.ctx
    key = f"{EPOCH}::EpochManager.__init__"
    cfgs = SSeq("in", CFG_FIELDS, elem_cls=ip.repo(f"{EPOCH}::EpochConfig"))
    c.assume(cfgs.length >= 0)
    j = z3.Int("tj")
    c.assume(ForAll([j], Implies(And(j >= 0, j < cfgs.length), is_type(cfgs.field("type", j)))))
    ip.summaries[f"{EPOCH}::EpochManager.append"] = append_contract
    c.witness("configs", cfgs)
    holder = {}

    def inv(ip_, env):
        slf = env.lookup("self")[1]
        if isinstance(slf.f["_configs"], list):  # `self._configs = []`: promote to a symbolic sequence
            slf.f["_configs"] = SSeq.from_list("cfgs0", slf.f["_configs"], CFG_FIELDS, ip_.repo(f"{EPOCH}::EpochConfig"))
        seq = slf.f["_configs"]
        k = env.lookup("__k0")[1] if "__k0" in env.vars else z3.IntVal(0)
        holder["seq"] = seq
        q = z3.Int("qj")
        cl = [("len", seq.length == k), ("valid_prefix", valid(seq))]
        for f in CFG_FIELDS:
            cl.append((f"copy.{f}", ForAll([q], Implies(And(q >= 0, q < k), seq.field(f, q) == cfgs.field(f, q)))))
        return cl

    def havoc(ip_, env):
        slf = env.lookup("self")[1]
        slf.f["_configs"] = slf.f["_configs"].fresh_like(ip_.ctx.fresh_name("hv_configs"))

    ip.loop_specs[(key, 0)] = LoopSpec(inv, havoc=havoc)
    m = Obj(ip.repo(f"{EPOCH}::EpochManager"))
    _, init = m.cls.find(ip, "__init__")
    c.cover("pre")
    kind, res = try_call(ip, BoundMethod(m, init), [cfgs])
    if kind == "ok":
        seq = m.f["_configs"]
        c.oblige("returns_only_if_valid", valid(cfgs))
        c.oblige("holds_input.length", seq.length == cfgs.length)
        q = z3.Int("pj")
        for f in CFG_FIELDS:
            c.oblige(f"holds_input.{f}", ForAll([q], Implies(And(q >= 0, q < cfgs.length), seq.field(f, q) == cfgs.field(f, q))))
        c.oblige("ptr_zero", m.f["_next_epoch_ptr"] == 0, structural=True)
        c.oblige("start_zero", m.f["_next_start_time"] == 0, structural=True)
    else:
        c.oblige("raises_only_runtime_error", res.cls == "RuntimeError")
        c.oblige("raises_only_if_invalid", Not(valid(cfgs)))


WARMUP = "liesel/goose/warmup.py"


def valid_ext_list(acc, cfg):
    """Valid(acc ++ [cfg]) for a concrete-length list of accepted configs (statement's rules for the new last element)"""
    ty, du, th = cfg.f["type"], cfg.f["duration"], cfg.f["thinning"]
    return And(
        (And(ty == INIT, du == 1) if not acc else ty != INIT),
        du >= 1, th >= 1, th <= du,
        Implies(ty == POST, du % th == 0),
        Not(And(Or(*[a.f["type"] == POST for a in acc]) if acc else z3.BoolVal(False), is_warmup_spec(ty))),
    )


def observable_unit(interleave, uid=None, prop="C16"):
    @unit(uid or f"C16.observable.{interleave}", prop, [f"{EPOCH}::EpochManager.__init__", f"{EPOCH}::EpochManager.append", f"{EPOCH}::EpochManager.next", f"{EPOCH}::EpochManager.has_more",
                                                 f"{EPOCH}::EpochConfig.to_state"],
          assumptions=["three append attempts with arbitrary (symbolic) configurations, each accepted or rejected; observation through the public methods only "
                       "(independent of how the manager represents its state)"], max_paths=4000)
    def u(ip, interleave=interleave):
        """a manager built by the real constructor and driven through the public methods only: each append is accepted iff the accepted
        configurations so far stay valid with it (RuntimeError otherwise); rejected attempts leave no trace: the epoch states handed out by
        next() carry the accepted configurations in order, indices 0, 1, 2, ... and CONSECUTIVE start times (sum of the accepted earlier
        durations); has_more() is true exactly while accepted epochs remain; next() raises RuntimeError when exhausted."""
        c = ip.ctx
        m = ip.call(ip.repo(f"{EPOCH}::EpochManager"), [[]], {})
        acc, handed = [], 0

        def do_next():
            nonlocal handed
            hm = ip.call(method(ip, m, "has_more"), [], {})
            c.oblige(f"has_more_iff_epochs_remain.{handed}", ip.truth(hm) is (handed < len(acc)))
            kind, st = try_call(ip, method(ip, m, "next"))
            if handed < len(acc):
                c.oblige(f"next_{handed}.returns", kind == "ok")
                if kind == "ok":
                    start = sum([a.f["duration"] for a in acc[:handed]], z3.IntVal(0))
                    c.oblige(f"next_{handed}.config_is_accepted_config", st.f["config"] is acc[handed])
                    c.oblige(f"next_{handed}.index", st.f["nth_epoch"] == handed)
                    c.oblige(f"next_{handed}.start_time_consecutive", And(st.f["time_before_epoch"] == start, st.f["time"] == start, st.f["time_in_epoch"] == 0))
                    handed += 1
            else:
                c.oblige("next_when_exhausted_raises_runtime_error", kind == "raise" and st.cls == "RuntimeError")

        for i in range(3):
            cfg = sym_config(ip, f"c{i}")
            c.witness(f"c{i}", cfg)
            ok = valid_ext_list(acc, cfg)
            kind, res = try_call(ip, method(ip, m, "append"), [cfg])
            c.oblige(f"append_{i}.accepted_iff_valid", ok if kind == "ok" else Not(ok))
            if kind != "ok":
                c.oblige(f"append_{i}.rejected_with_runtime_error", res.cls == "RuntimeError")
            else:
                acc.append(cfg)
            if interleave == "interleaved":
                do_next()
        while handed < len(acc):
            before = handed
            do_next()
            if handed == before:
                break
        do_next()
    return u


observable_unit("appends_first")
observable_unit("interleaved")


@unit("C16.stan_epochs", "C16", [f"{WARMUP}::stan_epochs"], assumptions=["S1 ints are mathematical"])
def u_stan(ip):
    """For every admissible argument combination: the result is a Valid schedule
    [INIT(1,1), FAST(init), SLOW(b), SLOW(2b), ..., SLOW(r), FAST(term), POST(posterior)], the warmup
    epochs sum to warmup_duration; the loop terminates (variant time_left - 3*this_time)."""
    c = ip.ctx
    key = f"{WARMUP}::stan_epochs"
    W, P, I, T, B, thp, thw = [c.fresh(n, Int) for n in ("W", "P", "I", "T", "B", "thp", "thw")]
    admissible = And(W >= 20, W >= I + T + B, I >= 1, T >= 1, B >= 1, P >= 1,
                     thw >= 1, thw <= I, thw <= T, thw <= B, thp >= 1, thp <= P, P % thp == 0)
    c.assume(admissible)
    c.witness("args", [W, P, I, T, B, thp, thw])
    c.cover("pre")
    ECls = ip.repo(f"{EPOCH}::EpochConfig")
    aggs = {
        "warm": lambda r: If(is_warmup_spec(to_sort(r.f["type"], Int)), to_sort(r.f["duration"], Int), 0),
        "all": lambda r: to_sort(r.f["duration"], Int),
    }

    def inv(ip_, env):
        ep = env.lookup("epochs")[1]
        tl, tt = env.lookup("time_left")[1], env.lookup("this_time")[1]
        n = ep.length
        j = z3.Int("ij")
        return [
            ("len", n >= 2),
            ("head", And(ep.field("type", 0) == INIT, ep.field("duration", 0) == 1, ep.field("thinning", 0) == 1,
                         ep.field("type", 1) == FAST, ep.field("duration", 1) == I, ep.field("thinning", 1) == thw)),
            ("slow", ForAll([j], Implies(And(j >= 2, j < n), And(ep.field("type", j) == SLOW, ep.field("thinning", j) == thw,
                                                               ep.field("duration", j) >= B)))),
            ("doubling", ForAll([j], Implies(And(j >= 2, j + 1 < n), ep.field("duration", j + 1) == 2 * ep.field("duration", j)))),
            ("first_slow", Implies(n > 2, ep.field("duration", 2) == B)),
            ("this_time", If(n > 2, tt == 2 * ep.field("duration", n - 1), tt == B)),
            ("time_left", And(tl >= tt, tt >= B)),
            ("sum", ep.agg_vals["warm"] + tl == W - T),
            ("sum_all", ep.agg_vals["all"] == ep.agg_vals["warm"] + 1),
        ]

    def dec(ip_, env):
        return env.lookup("time_left")[1] - 3 * env.lookup("this_time")[1]

    ip.loop_specs[(key, 0)] = LoopSpec(inv, decreases=dec, promote={"epochs": (CFG_FIELDS, ECls, aggs)})
    kind, res = try_call(ip, ip.repo(key), [W, P, I, T, B, thp, thw])
    if kind != "ok":
        c.oblige("no_exception_when_admissible", False)
        return
    c.cover("returns")
    if not isinstance(res, SSeq):
        raise Unsupported("result is not a symbolic sequence")
    n = res.length
    j = z3.Int("rj")
    c.oblige("result.valid", valid(res))
    c.oblige("result.warmup_sum", res.agg_vals["warm"] == W)
    c.oblige("result.total", res.agg_vals["all"] == W + P + 1)
    c.oblige("result.len", n >= 5)
    c.oblige("result.init", And(res.field("type", 0) == INIT, res.field("duration", 0) == 1, res.field("thinning", 0) == 1))
    c.oblige("result.fast_init", And(res.field("type", 1) == FAST, res.field("duration", 1) == I, res.field("thinning", 1) == thw))
    c.oblige("result.slow_block", ForAll([j], Implies(And(j >= 2, j < n - 2), And(res.field("type", j) == SLOW, res.field("thinning", j) == thw))))
    c.oblige("result.doubling", ForAll([j], Implies(And(j >= 2, j + 1 < n - 3), res.field("duration", j + 1) == 2 * res.field("duration", j))))
    c.oblige("result.first_slow_is_base_or_remainder", Implies(n > 5, res.field("duration", 2) == B))
    c.oblige("result.remainder_bounds", Implies(n > 5, And(res.field("duration", n - 3) >= 2 * res.field("duration", n - 4),
                                                          res.field("duration", n - 3) < 6 * res.field("duration", n - 4))))
    c.oblige("result.remainder_only", Implies(n == 5, And(res.field("duration", 2) >= B, res.field("duration", 2) < 3 * B)))
    c.oblige("result.fast_term", And(res.field("type", n - 2) == FAST, res.field("duration", n - 2) == T, res.field("thinning", n - 2) == thw))
    c.oblige("result.posterior", And(res.field("type", n - 1) == POST, res.field("duration", n - 1) == P, res.field("thinning", n - 1) == thp))


@unit("C16.stan_epochs.guards", "C16", [f"{WARMUP}::stan_epochs"])
def u_stan_guards(ip):
    """The documented guards: ValueError iff warmup < 20 or warmup < init+term+base (nothing else raises before the loop)."""
    c = ip.ctx
    key = f"{WARMUP}::stan_epochs"
    W, P, I, T, B, thp, thw = [c.fresh(n, Int) for n in ("W", "P", "I", "T", "B", "thp", "thw")]
    bad = Or(W < 20, W < I + T + B)
    c.assume(bad)
    c.witness("args", [W, P, I, T, B, thp, thw])
    c.cover("pre")
    kind, res = try_call(ip, ip.repo(key), [W, P, I, T, B, thp, thw])
    c.oblige("guard_raises", kind == "raise")
    if kind == "raise":
        c.oblige("guard_raises_value_error", res.cls == "ValueError")


@unit("C16.stan_epochs_results_are_independent", "C16", [f"{WARMUP}::stan_epochs"], assumptions=["concrete arguments (200, 100, term_duration=10) and (1000, 1000)"])
def u_stan_independent(ip):
    """every call returns a schedule of its own: editing one returned schedule (appending, removing epochs, changing a configuration's fields) leaves
    what a later call with the same arguments returns untouched - that later schedule is again the documented, valid one."""
    c = ip.ctx
    fn = ip.repo(f"{WARMUP}::stan_epochs")
    for args, kw in (([200, 100], {"term_duration": 10}), ([1000, 1000], {})):
        first = ip.call(fn, list(args), dict(kw))
        snap = [(e.f["type"], e.f["duration"], e.f["thinning"]) for e in first]
        first_objs = list(first)
        ip.setattr(first[-1], "thinning", 7)
        ip.setattr(first[1], "duration", 3)
        first.pop(0)
        first.append(first[-1])
        second = ip.call(fn, list(args), dict(kw))
        tag = f".w{args[0]}"
        c.oblige("second_call_returns_the_documented_schedule_again" + tag, [(e.f["type"], e.f["duration"], e.f["thinning"]) for e in second] == snap)
        c.oblige("second_call_returns_objects_of_its_own" + tag, second is not first and not any(any(e is o for o in first_objs) for e in second))


BUILDER = "liesel/goose/builder.py"


@unit("C16.builder_chunk", "C16", [f"{BUILDER}::EngineBuilder.build"], assumptions=[
    "slice: only the statements of build() from `epochs = ...` to `jit_duration = ...` are executed; the rest of build() is outside this unit",
])
def u_builder_chunk(ip):
    """The JIT chunk length computed by build() divides the duration of every non-initial epoch, and is
    the value handed to Engine(jitted_sample_duration=...)."""
    c = ip.ctx
    key = f"{BUILDER}::EngineBuilder.build"
    cfgs = SSeq("e", CFG_FIELDS, elem_cls=ip.repo(f"{EPOCH}::EpochConfig"))
    c.assume(cfgs.length >= 1)
    c.assume(valid(cfgs))
    mgr = new_obj(ip, f"{EPOCH}::EpochManager", _configs=cfgs)
    b = new_obj(ip, f"{BUILDER}::EngineBuilder", _epochs=mgr)
    c.cover("pre")
    env, lines, sig = exec_slice(ip, key, {}, assigns("epochs"), assigns("jit_duration"), self_obj=b)
    g = env.vars["jit_duration"]
    j = z3.Int("bj")
    c.oblige("chunk_divides_every_duration",
             ForAll([j], Implies(And(j >= 0, j + 1 < cfgs.length, g != 0), cfgs.field("duration", j + 1) % g == 0)))
    c.oblige("chunk_positive_if_any_epoch", Implies(cfgs.length >= 2, g >= 1))
    # def-use: jit_duration is assigned once and passed unchanged to Engine(...)
    clo = ip.repo(key)
    ret = [n for n in ast.walk(clo.node) if isinstance(n, ast.Return)][-1]
    kw = {k.arg: k.value for k in ret.value.keywords} if isinstance(ret.value, ast.Call) else {}
    ok = isinstance(kw.get("jitted_sample_duration"), ast.Name) and kw["jitted_sample_duration"].id == "jit_duration"
    ok_ep = isinstance(kw.get("epoch_configs"), ast.Name) and kw["epoch_configs"].id == "epochs"
    c.oblige("chunk_passed_to_engine", bool(ok) and count_stores(ip, key, "jit_duration") == 1)
    c.oblige("epochs_passed_to_engine", bool(ok_ep) and count_stores(ip, key, "epochs") == 1)
    c.notes.append(f"slice lines of build(): {lines}")


def builder_chunk_n(n):
    @unit(f"C16.builder_chunk.n{n}", "C16", [f"{BUILDER}::EngineBuilder.build"], assumptions=[
        "slice: only the statements of build() from `epochs = ...` to `jit_duration = ...` are executed",
        f"schedule of exactly {n} epochs with symbolic type / duration / thinning (any accepted schedule of that length); the statement for every length is C16.builder_chunk"])
    def u(ip, n=n):
        """for every accepted schedule of this length the JIT chunk length computed by build() is >= 1 and divides the duration of EVERY non-initial
        epoch (whatever Python expression selects the durations: comprehensions with conditions are executed per element)."""
        c = ip.ctx
        key = f"{BUILDER}::EngineBuilder.build"
        acc = []
        for i in range(n):
            cfg = sym_config(ip, f"c{i}")
            c.witness(f"c{i}", cfg)
            c.assume(valid_ext_list(acc, cfg))
            acc.append(cfg)
        mgr = new_obj(ip, f"{EPOCH}::EpochManager", _configs=list(acc))
        b = new_obj(ip, f"{BUILDER}::EngineBuilder", _epochs=mgr)
        c.cover("pre")
        env, lines, sig = exec_slice(ip, key, {}, assigns("epochs"), assigns("jit_duration"), self_obj=b)
        g = env.vars["jit_duration"]
        for i in range(1, n):
            d = acc[i].f["duration"]
            c.oblige(f"chunk_positive_and_divides_duration_of_epoch_{i}", And(g >= 1, d % g == 0) if is_z3(g) or is_z3(d) else (g >= 1 and d % g == 0))
    return u


for _n in (2, 3, 4):
    builder_chunk_n(_n)


@unit("C16.builder_epochs", "C16", [f"{BUILDER}::EngineBuilder.set_duration", f"{BUILDER}::EngineBuilder.set_epochs", f"{BUILDER}::EngineBuilder.epochs.fget"],
      summaries=[f"{WARMUP}::stan_epochs (C16.stan_epochs)", f"{EPOCH}::EpochManager.__init__ (C16.init)"])
def u_builder_epochs(ip):
    """set_duration hands its arguments to stan_epochs under the right names (warmup, posterior, term duration, posterior and warmup
    thinning) and stores the resulting schedule in an EpochManager (so invalid schedules are rejected); set_epochs does the same
    for a user schedule; `epochs` reads that manager's schedule."""
    c = ip.ctx
    got = {}

    def stan(ip_, args, kwargs):
        got["args"], got["kwargs"] = list(args), dict(kwargs)
        return "SCHEDULE"

    def mgr_init(ip_, args, kwargs):
        args[0].f["_configs"] = ("managed", args[1])

    ip.summaries[f"{WARMUP}::stan_epochs"] = stan
    ip.summaries[f"{EPOCH}::EpochManager.__init__"] = mgr_init
    b = new_obj(ip, f"{BUILDER}::EngineBuilder")
    W, P, T, tp, tw = [c.fresh(n, Int) for n in ("W", "P", "T", "tp", "tw")]
    ip.call(method(ip, b, "set_duration"), [W, P], {"term_duration": T, "thinning_posterior": tp, "thinning_warmup": tw})
    a, k = got["args"], got["kwargs"]
    named = {**dict(zip(("warmup_duration", "posterior_duration", "init_duration", "term_duration", "base_duration", "thinning_posterior", "thinning_warmup"), a)), **k}
    c.oblige("arguments_forwarded_under_their_names", named.get("warmup_duration") is W and named.get("posterior_duration") is P and named.get("term_duration") is T
             and named.get("thinning_posterior") is tp and named.get("thinning_warmup") is tw and "init_duration" not in named and "base_duration" not in named)
    c.oblige("schedule_goes_through_epoch_manager", b.f["_epochs"].f["_configs"] == ("managed", "SCHEDULE"))
    user = PyObj("user_schedule")
    ip.call(method(ip, b, "set_epochs"), [user], {})
    c.oblige("user_schedule_goes_through_epoch_manager", b.f["_epochs"].f["_configs"] == ("managed", user))


@unit("C16.set_epochs_takes_any_iterable", "C16", [f"{BUILDER}::EngineBuilder.set_epochs", f"{BUILDER}::EngineBuilder.epochs.fget", f"{BUILDER}::EngineBuilder.build",
                                                     f"{EPOCH}::EpochManager.__init__", f"{EPOCH}::EpochManager.append"],
      assumptions=["REAL builder; the schedule handed over as a list, a tuple and a ONE-SHOT iterator (set_epochs is declared to take an Iterable of epoch configurations)"])
def u_set_epochs_iterable(ip):
    """whatever kind of iterable carries it, the schedule that reaches the epoch manager is the WHOLE schedule given (valid ones accepted as they are,
    the engine's chunk length divides their durations), and an invalid schedule is rejected."""
    c = ip.ctx
    from contracts.c10 import builder_setup
    b, mk = builder_setup(ip)
    good = ((0, 1, 1), (3, 6, 1), (4, 9, 3), (4, 12, 1))
    bad = ((0, 1, 1), (3, 6, 1), (4, 10, 3))  # posterior duration not a multiple of its thinning
    wrap = {"list": list, "tuple": tuple, "iterator": lambda xs: PyObj("iterator", items=list(xs), pos=0)}
    for how, w in wrap.items():
        cfgs = mk(good)
        kind, r = try_call(ip, method(ip, b, "set_epochs"), [w(cfgs)], {})
        got = ip.getattr(b, "epochs") if kind == "ok" else None
        c.oblige(f"{how}.valid_schedule_taken_over_completely", kind == "ok" and got is not None and len(got) == len(cfgs) and all(g is x for g, x in zip(got, cfgs)), raised=str(getattr(r, "args", "")))
        kind_b, eng = try_call(ip, method(ip, b, "build"), [], {}) if kind == "ok" else ("raise", r)
        c.oblige(f"{how}.chunk_length_divides_the_durations", kind_b == "ok" and is_z3(z3.simplify(to_sort(eng.f["_jitted_sample_duration"], Int))) and z3.simplify(to_sort(eng.f["_jitted_sample_duration"], Int)).as_long() == 3,
                 structural=True)
        kind2, r2 = try_call(ip, method(ip, b, "set_epochs"), [w(mk(bad))], {})
        c.oblige(f"{how}.invalid_schedule_rejected", kind2 == "raise" and r2.cls == "RuntimeError")


# the builder and the engine constructor end to end through the public API (same harness as C10.build_end_to_end)
from contracts.c10 import build_whole_unit  # noqa: E402

build_whole_unit("C16.build_end_to_end", "C16", "A")
build_whole_unit("C16.build_end_to_end.variant_b", "C16", "B")

from contracts.c10 import rebuild_unit  # noqa: E402

rebuild_unit("C16.builder_reused_after_schedule_change", "C16")

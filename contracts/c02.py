"""C02 - model log-probability equals the joint log-density and decomposes as documented.

The REAL GraphBuilder.build_model / Model.__init__ / Dist.update / _reduced_sum run symbolically on the enumerated shapes;
every value and every density / calculation function is symbolic, so each obligation holds for all value assignments."""
from pyvc.api import *
from contracts.graph import G, M, N, SHAPES, SHAPES_C01, TOTAL, calc_fn, install_graph_models


def LP(ip, fam, *args):
    return TOTAL(ip.uf(f"logp_{fam}", *[ip.to_U(a) for a in args]))


def expected(ip, shape, vals):
    """spec: the joint log-density written by hand for each shape: {dist var: (flag, total log-density)}"""
    f = lambda name, *a: ip.uf(name, *[ip.to_U(x) for x in a])  # noqa: E731
    v = vals
    if shape == "hier":
        return {"tau": ("parameter", LP(ip, "Ptau", v["tau"])), "mu": ("parameter", LP(ip, "Pmu", v["tau"], v["mu"])),
                "y": ("observed", LP(ip, "Lik", v["mu"], f("f_sigma", v["tau"]), v["y"]))}
    if shape == "diamond":
        return {"a": ("parameter", LP(ip, "Pa", v["a"])), "y": ("observed", LP(ip, "Lik", f("f_left", v["a"]), f("f_right", v["a"]), v["y"]))}
    if shape == "flat":
        return {"b": ("parameter", LP(ip, "Pb", v["b"])), "c": ("parameter", LP(ip, "Pc", v["c"])), "y": ("observed", LP(ip, "Lik", v["b"], v["c"], v["y"]))}
    if shape == "weakdist":  # a WEAK variable (value = f_w(a)) that carries a distribution Dw(b); bare Value nodes feeding calculations
        return {"a": ("parameter", LP(ip, "Pa", v["a"])), "w": ("observed", LP(ip, "Dw", v["b"], f("f_w", v["a"])))}
    if shape == "weakdist_deep":
        return {"a": ("parameter", LP(ip, "Pa", v["a"])), "w": ("observed", LP(ip, "Dw", v["b"], f("f_w", f("f_mid", v["a"]))))}
    raise KeyError(shape)


STRONG = {"hier": ["tau", "mu", "y"], "diamond": ["a", "y"], "flat": ["b", "c", "y"], "weakdist": ["a", "b"], "weakdist_deep": ["a", "b"]}


def totals_unit(shape, per_obs):
    tag = f"{shape}.{'per_obs' if per_obs else 'summed'}"

    @unit(f"C02.totals.{tag}", "C02", [f"{M}::GraphBuilder.build_model", f"{M}::GraphBuilder._add_model_log_lik_node", f"{M}::GraphBuilder._add_model_log_prior_node",
                                       f"{M}::GraphBuilder._add_model_log_prob_node", f"{M}::_reduced_sum", f"{N}::Dist.update", f"{M}::Model.__init__", f"{M}::Model.update",
                                       f"{M}::Model.log_prob.fget", f"{M}::Model.log_lik.fget", f"{M}::Model.log_prior.fget", f"{N}::Value.value.fset"],
          assumptions=[f"graph shape fixed to '{shape}' (values, density and calculation functions arbitrary)", "A-REAL: totals are real sums (float association ignored)",
                       "T: x.sum() is the sum of the entries of x; arrays have .sum, python floats do not", "A-NX: topological sort contract"])
    def u(ip, shape=shape, per_obs=per_obs):
        """after build and after every re-assignment of all strong values: log_prob = sum over all distribution nodes of the
        log-density of the variable's current value under the distribution at the current input values; log_lik / log_prior the same
        sums over observed / parameter variables; log_prob = log_lik + log_prior (each distribution belongs to exactly one flag);
        storing per observation or summed gives the same totals."""
        c = ip.ctx
        install_graph_models(ip)
        g = G(ip)
        model = g.build(*SHAPES_C01[shape](g, per_obs=per_obs))
        for phase in ("built", "reassigned", "reassigned_auto_update_off_named_update"):
            if phase == "reassigned":
                for nm in STRONG[shape]:
                    ip.setattr(model.f["_vars"][nm], "value", z3.Const(f"new_{nm}", U))
                vals = {nm: z3.Const(f"new_{nm}", U) for nm in STRONG[shape]}
            elif phase.startswith("reassigned_auto"):
                # the totals refreshed through the named entry point (what simulate() and the Gibbs kernels use) with auto-update off
                ip.setattr(model, "auto_update", False)
                for nm in STRONG[shape]:
                    ip.setattr(model.f["_vars"][nm], "value", z3.Const(f"third_{nm}", U))
                ip.call(method(ip, model, "update"), ["_model_log_prob", "_model_log_lik", "_model_log_prior"], {})
                vals = {nm: z3.Const(f"third_{nm}", U) for nm in STRONG[shape]}
            else:
                vals = {nm: z3.Const(f"val_{nm}", U) for nm in STRONG[shape]}
            exp = expected(ip, shape, vals)
            raw = [ip.getattr(model, a) for a in ("log_prob", "log_lik", "log_prior")]
            if any(is_z3(r) and r.sort() == U for r in raw):
                # a total that is an ARRAY-valued term (a log-density entered the sum without being reduced) is not the scalar sum of the log-densities;
                # structural: reported only when the native stand-in fails too
                for nm in ("log_prob_is_joint_density", "log_lik_is_observed_part", "log_prior_is_parameter_part", "decomposition"):
                    c.oblige(f"{phase}.{nm}", False, structural=True, note="a total is array-valued: " + ", ".join(str(r)[:80] for r in raw))
                continue
            prob, lik, prior = [to_sort(r, Real) for r in raw]
            c.oblige(f"{phase}.log_prob_is_joint_density", prob == sum(t for _, t in exp.values()))
            c.oblige(f"{phase}.log_lik_is_observed_part", lik == sum((t for fl, t in exp.values() if fl == "observed"), z3.RealVal(0)))
            c.oblige(f"{phase}.log_prior_is_parameter_part", prior == sum((t for fl, t in exp.values() if fl == "parameter"), z3.RealVal(0)))
            c.oblige(f"{phase}.decomposition", prob == lik + prior)
            if not phase.startswith("reassigned_auto"):  # (after a NAMED update, nodes that feed no total may legitimately stay outdated)
                c.oblige(f"{phase}.nothing_outdated", not any(ip.truth(ip.getattr(n_, "outdated")) is True for n_ in model.f["_nodes"].values()))
    return u


for _s in SHAPES_C01:
    for _p in (True, False):
        totals_unit(_s, _p)


def outside_assignment_unit(shape):
    @unit(f"C02.totals_after_assignment_outside_a_model.{shape}", "C02", [f"{M}::GraphBuilder.build_model", f"{M}::Model.__init__", f"{M}::Model.pop_nodes_and_vars", f"{N}::Value.value.fset",
                                                                          f"{N}::Node.set_inputs", f"{M}::Model.log_prob.fget", f"{M}::Model.log_lik.fget", f"{M}::Model.log_prior.fget"],
          assumptions=[f"graph shape fixed to '{shape}' (values, density and calculation functions arbitrary)", "A-REAL", "A-NX"])
    def u(ip, shape=shape):
        """values assigned while the graph is NOT in a model (before the first build; after pop_nodes_and_vars()): the model built afterwards
        reports the totals at the values the variables hold at build time."""
        c = ip.ctx
        install_graph_models(ip)
        g = G(ip)
        roots = SHAPES_C01[shape](g)
        gb = ip.call(g.GB, [], {})
        ip.call(method(ip, gb, "add"), list(roots), {})
        _, vars_ = ip.call(method(ip, gb, "_all_nodes_and_vars"), [], {})
        by = {ip.getattr(v, "name"): v for v in vars_}
        for nm in STRONG[shape]:
            ip.setattr(by[nm], "value", z3.Const(f"pre_{nm}", U))
        model = ip.call(method(ip, gb, "build_model"), [], {})
        for phase, prefix in (("assigned_before_build", "pre"), ("assigned_after_pop", "popped")):
            if phase == "assigned_after_pop":
                _n, vs = ip.call(method(ip, model, "pop_nodes_and_vars"), [], {})
                for nm in STRONG[shape]:
                    ip.setattr(vs[nm], "value", z3.Const(f"popped_{nm}", U))
                gb2 = ip.call(g.GB, [], {})
                ip.call(method(ip, gb2, "add"), [v for k, v in vs.items()], {})
                model = ip.call(method(ip, gb2, "build_model"), [], {})
            vals = {nm: z3.Const(f"{prefix}_{nm}", U) for nm in STRONG[shape]}
            exp = expected(ip, shape, vals)
            raw = [ip.getattr(model, a) for a in ("log_prob", "log_lik", "log_prior")]
            if any(is_z3(r) and r.sort() == U for r in raw):  # array-valued total, see totals_unit
                for nm in ("log_prob_is_joint_density", "log_lik_is_observed_part", "log_prior_is_parameter_part"):
                    c.oblige(f"{phase}.{nm}", False, structural=True, note="a total is array-valued: " + ", ".join(str(r)[:80] for r in raw))
                continue
            prob, lik, prior = [to_sort(r, Real) for r in raw]
            c.oblige(f"{phase}.log_prob_is_joint_density", prob == sum(t for _, t in exp.values()))
            c.oblige(f"{phase}.log_lik_is_observed_part", lik == sum((t for fl, t in exp.values() if fl == "observed"), z3.RealVal(0)))
            c.oblige(f"{phase}.log_prior_is_parameter_part", prior == sum((t for fl, t in exp.values() if fl == "parameter"), z3.RealVal(0)))
    return u


for _s in ("hier", "flat", "weakdist_deep"):
    if _s in SHAPES_C01:
        outside_assignment_unit(_s)


@unit("C02.bare_distribution_node_counts_in_log_prob", "C02", [f"{M}::GraphBuilder._add_model_log_prob_node", f"{M}::GraphBuilder._add_model_log_lik_node", f"{M}::GraphBuilder._add_model_log_prior_node",
                                                                f"{M}::GraphBuilder.build_model", f"{N}::Dist.update"],
      assumptions=["graph: mu ~ Pmu parameter; y ~ Lik(mu) observed; a distribution node NOT wrapped in a variable (a penalty / soft constraint) evaluated at f_c(mu)", "A-REAL", "A-NX"])
def u_bare_dist(ip):
    """the model log-probability is the sum over ALL distribution nodes of the model - also one that belongs to no variable (evaluation point set by hand);
    log_lik / log_prior keep to the observed / parameter variables; after re-assignment the same at the new values."""
    c = ip.ctx
    install_graph_models(ip)
    g = G(ip)
    from contracts.graph import dist_fn
    mu = g.var("mu", dist=g.dist("Pmu"), parameter=True)
    y = g.var("y", dist=g.dist("Lik", mu), observed=True)
    pen = ip.call(g.Dist, [dist_fn("Pen")], {"_name": "mu_constraint"})
    ip.setattr(pen, "at", g.calc("f_c", mu, name="c_of_mu"))
    model = g.build(y, pen)
    LP = lambda fam, *a: TOTAL(ip.uf(f"logp_{fam}", *[ip.to_U(x) for x in a]))  # noqa: E731
    for phase, vm in (("built", z3.Const("val_mu", U)), ("reassigned", z3.Const("new_mu", U))):
        if phase == "reassigned":
            ip.setattr(model.f["_vars"]["mu"], "value", vm)
        prior, lik, penalty = LP("Pmu", vm), LP("Lik", vm, z3.Const("val_y", U)), LP("Pen", ip.uf("f_c", vm))
        c.oblige(f"{phase}.log_prob_sums_every_distribution_node", to_sort(ip.getattr(model, "log_prob"), Real) == prior + lik + penalty)
        c.oblige(f"{phase}.log_lik_and_log_prior_keep_to_flagged_variables", And(to_sort(ip.getattr(model, "log_lik"), Real) == lik, to_sort(ip.getattr(model, "log_prior"), Real) == prior))


@unit("C02.literal_hyperparameter_reassigned", "C02", [f"{N}::Dist.__init__", f"{N}::Dist.update", f"{N}::Dist.init_dist", f"{N}::Value.value.fset", f"{M}::Model.update", f"{M}::Model.log_prob.fget",
                                                       f"{M}::Model.log_prior.fget", f"{M}::Model.log_lik.fget"],
      assumptions=["graph: mu ~ Pmu(loc = literal, scale = literal) parameter; y ~ Lik(mu, scale = literal) observed - every hyper-parameter a plain literal (an anonymous Value node of the model)", "A-REAL", "A-NX"])
def u_literal_hyper(ip):
    """'at the current input values' includes hyper-parameters that were given as plain literals: they live in Value nodes of the model, and after
    assigning a new value to such a node (and to the variables) the totals are the joint density at the CURRENT values of all of them."""
    c = ip.ctx
    install_graph_models(ip)
    g = G(ip)
    from contracts.graph import dist_fn
    lit = {k: z3.Const(f"lit_{k}", U) for k in ("loc", "scale", "lscale")}
    dmu = ip.call(g.Dist, [dist_fn("Pmu")], {"loc": lit["loc"], "scale": lit["scale"]})
    mu = g.var("mu", dist=dmu, parameter=True)
    dy = ip.call(g.Dist, [dist_fn("Lik"), mu], {"scale": lit["lscale"]})
    y = g.var("y", dist=dy, observed=True)
    model = g.build(y)
    LP = lambda fam, *a: TOTAL(ip.uf(f"logp_{fam}", *[ip.to_U(x) for x in a]))  # noqa: E731
    vm, vy = z3.Const("val_mu", U), z3.Const("val_y", U)
    prior, lik = LP("Pmu", lit["loc"], lit["scale"], vm), LP("Lik", vm, lit["lscale"], vy)
    c.oblige("built.log_prior", to_sort(ip.getattr(model, "log_prior"), Real) == prior)
    c.oblige("built.log_lik", to_sort(ip.getattr(model, "log_lik"), Real) == lik)
    # re-assign the literal hyper-parameters through their (anonymous) Value nodes, and mu
    new = {k: z3.Const(f"new_{k}", U) for k in ("loc", "scale", "lscale")}
    ip.setattr(dmu.f["_kwinputs"]["loc"], "value", new["loc"])
    ip.setattr(dmu.f["_kwinputs"]["scale"], "value", new["scale"])
    ip.setattr(dy.f["_kwinputs"]["scale"], "value", new["lscale"])
    nm = z3.Const("new_mu", U)
    ip.setattr(model.f["_vars"]["mu"], "value", nm)
    prior2, lik2 = LP("Pmu", new["loc"], new["scale"], nm), LP("Lik", nm, new["lscale"], vy)
    c.oblige("reassigned.log_prior", to_sort(ip.getattr(model, "log_prior"), Real) == prior2)
    c.oblige("reassigned.log_lik", to_sort(ip.getattr(model, "log_lik"), Real) == lik2)
    c.oblige("reassigned.log_prob", to_sort(ip.getattr(model, "log_prob"), Real) == prior2 + lik2)


@unit("C02.user_nodes", "C02", [f"{M}::GraphBuilder._add_model_log_lik_node", f"{M}::GraphBuilder._add_model_log_prior_node", f"{M}::GraphBuilder._add_model_log_prob_node",
                                f"{M}::GraphBuilder.log_lik_node.fset", f"{N}::TransientIdentity.__init__", f"{N}::TransientCalc.value.fget"])
def u_user_nodes(ip):
    """a user-supplied replacement node for any of the three totals is forwarded unchanged (also after re-assignment)."""
    c = ip.ctx
    install_graph_models(ip)
    g = G(ip)
    roots = SHAPES["flat"](g)
    b_var = None
    gb = ip.call(g.GB, [], {})
    ip.call(method(ip, gb, "add"), roots, {})
    # user nodes computed from model variables
    nodes, vars_ = ip.call(method(ip, gb, "_all_nodes_and_vars"), [], {})
    by = {ip.getattr(v, "name"): v for v in vars_}
    user = {k: g.calc(f"user_{k}", by["b"], by["y"], name=f"user_{k}") for k in ("lik", "prior", "prob")}
    ip.setattr(gb, "log_lik_node", user["lik"])
    ip.setattr(gb, "log_prior_node", user["prior"])
    ip.setattr(gb, "log_prob_node", user["prob"])
    model = ip.call(method(ip, gb, "build_model"), [], {})
    for phase in ("built", "reassigned"):
        if phase == "reassigned":
            ip.setattr(model.f["_vars"]["b"], "value", z3.Const("new_b", U))
        vb = z3.Const("new_b" if phase == "reassigned" else "val_b", U)
        for k, attr in (("lik", "log_lik"), ("prior", "log_prior"), ("prob", "log_prob")):
            c.oblige(f"{phase}.user_{k}_forwarded_unchanged", ip.to_U(ip.getattr(model, attr)) == ip.uf(f"user_{k}", vb, z3.Const("val_y", U)))
    kind, r = try_call(ip, PyFn(lambda ip_: ip_.setattr(ip_.call(g.GB, [], {}), "log_lik_node", by["b"]), "set"), [])
    c.oblige("var_rejected_as_log_lik_node", kind == "raise" and r.cls == "RuntimeError")


@unit("C02.user_nodes_repeated_build", "C02", [f"{M}::GraphBuilder.build_model", f"{M}::GraphBuilder.copy", f"{M}::GraphBuilder.log_lik_node.fget", f"{M}::GraphBuilder.log_prior_node.fget",
                                               f"{M}::GraphBuilder.log_prob_node.fget"], assumptions=["A-PY deepcopy"])
def u_user_nodes_repeated(ip):
    """build_model(copy=True) leaves the builder as it was - in particular its user-supplied total nodes - so every model built from the
    same builder afterwards (copy=True again, then copy=False) still forwards the user nodes unchanged."""
    c = ip.ctx
    install_graph_models(ip)
    g = G(ip)
    roots = SHAPES["flat"](g)
    gb = ip.call(g.GB, [], {})
    ip.call(method(ip, gb, "add"), roots, {})
    nodes, vars_ = ip.call(method(ip, gb, "_all_nodes_and_vars"), [], {})
    by = {ip.getattr(v, "name"): v for v in vars_}
    user = {k: g.calc(f"user_{k}", by["b"], by["y"], name=f"user_{k}") for k in ("lik", "prior", "prob")}
    for k in user:
        ip.setattr(gb, f"log_{k}_node", user[k])
    for i, copy in enumerate((True, True, False)):
        model = ip.call(method(ip, gb, "build_model"), [], {"copy": copy})
        for k, attr in (("lik", "log_lik"), ("prior", "log_prior"), ("prob", "log_prob")):
            c.oblige(f"build{i + 1}.copy_{copy}.user_{k}_forwarded_unchanged", ip.to_U(ip.getattr(model, attr)) == ip.uf(f"user_{k}", z3.Const("val_b", U), z3.Const("val_y", U)))
        if copy:
            c.oblige(f"build{i + 1}.builder_keeps_its_user_nodes", all(ip.getattr(gb, f"log_{k}_node") is user[k] for k in user))
            c.oblige(f"build{i + 1}.builder_keeps_its_variables", len(ip.getattr(gb, "vars")) == len(roots))


@unit("C02.user_node_single", "C02", [f"{M}::GraphBuilder._add_model_log_prob_node", f"{M}::GraphBuilder._add_model_log_lik_node", f"{M}::GraphBuilder._add_model_log_prior_node"])
def u_user_single(ip):
    """when only ONE of the partial totals is replaced by a user node (every distribution flagged exactly once), that node is forwarded
    unchanged and log_prob is still the sum over all distribution nodes (the user node does not leak into it)."""
    c = ip.ctx
    install_graph_models(ip)
    for which in ("log_lik_node", "log_prior_node"):
        g = G(ip)
        roots = SHAPES["flat"](g)
        gb = ip.call(g.GB, [], {})
        ip.call(method(ip, gb, "add"), roots, {})
        nodes, vars_ = ip.call(method(ip, gb, "_all_nodes_and_vars"), [], {})
        by = {ip.getattr(v, "name"): v for v in vars_}
        ip.setattr(gb, which, g.calc("user_total", by["b"], name="user_total"))
        model = ip.call(method(ip, gb, "build_model"), [], {})
        vals = {nm: z3.Const(f"val_{nm}", U) for nm in STRONG["flat"]}
        exp = expected(ip, "flat", vals)
        c.oblige(f"log_prob_still_joint_density.{which}", to_sort(ip.getattr(model, "log_prob"), Real) == sum(t for _, t in exp.values()))
        c.oblige(f"user_node_forwarded.{which}", ip.to_U(ip.getattr(model, which.replace("_node", ""))) == ip.uf("user_total", vals["b"]))


@unit("C02.selection", "C02", [f"{M}::GraphBuilder._add_model_log_lik_node", f"{M}::GraphBuilder._add_model_log_prior_node", f"{M}::GraphBuilder._add_model_log_prob_node",
                               f"{N}::Var.has_dist.fget", f"{N}::Var.dist_node.fget"])
def u_selection(ip):
    """which nodes enter which total: lik = dist nodes of observed variables, prior = dist nodes of parameter variables, prob = ALL
    Dist nodes (also of variables with neither or both flags); variables without a distribution never contribute."""
    c = ip.ctx
    install_graph_models(ip)
    g = G(ip)
    p = g.var("p", dist=g.dist("Pp"), parameter=True)
    o = g.var("o", dist=g.dist("Lo", p), observed=True)
    neither = g.var("n", dist=g.dist("Dn", p))
    both = g.var("bo", dist=g.dist("Db", p), observed=True, parameter=True)
    nodist = g.var("nd", observed=True, parameter=True)
    model = g.build(o, neither, both, nodist)
    ins = lambda nm: sorted(n_.f["_name"] for n_ in model.f["_nodes"][nm].f["_inputs"])  # noqa: E731
    c.oblige("lik_inputs", ins("_model_log_lik") == sorted(["o_log_prob", "bo_log_prob"]))
    c.oblige("prior_inputs", ins("_model_log_prior") == sorted(["p_log_prob", "bo_log_prob"]))
    c.oblige("prob_inputs", ins("_model_log_prob") == sorted(["p_log_prob", "o_log_prob", "n_log_prob", "bo_log_prob"]))


@unit("C02.totals.auto_transform", "C02", [f"{M}::GraphBuilder.build_model", f"{M}::GraphBuilder._add_model_log_prior_node", f"{M}::GraphBuilder._add_model_log_lik_node",
                                           f"{M}::GraphBuilder._add_model_log_prob_node", f"{N}::Var.transform"],
      assumptions=["A-TFP (see C14)", "graph: x ~ D(rate=p) parameter with auto_transform, y ~ Lik(x) observed"])
def u_auto(ip):
    """with an auto-transformed parameter the prior total is the transformed variable's log-density (the original variable has no
    distribution any more), the likelihood total the observed variable's, and log_prob = log_lik + log_prior."""
    from contracts.graph import dist_fn_tfp, install_tfp_models
    c = ip.ctx
    install_graph_models(ip)
    install_tfp_models(ip)
    g = G(ip)
    p = g.var("p")
    x = g.var("x", dist=ip.call(g.Dist, [dist_fn_tfp("D")], {"rate": p}), parameter=True)
    ip.setattr(x, "auto_transform", True)
    y = g.var("y", dist=g.dist("Lik", x), observed=True)
    model = g.build(y)
    tv = z3.Const("new_t", U)
    ip.setattr(model.f["_vars"]["x_transformed"], "value", tv)
    vp, vy = z3.Const("val_p", U), z3.Const("val_y", U)
    bx = ip.uf("fwd_default_D", vp, tv)
    prior = TOTAL(ip.uf("op_Add", ip.uf("logp_D", vp, bx), ip.uf("fldj_default_D", vp, tv)))
    lik = TOTAL(ip.uf("logp_Lik", bx, vy))
    c.oblige("log_prior_is_transformed_density", to_sort(ip.getattr(model, "log_prior"), Real) == prior)
    c.oblige("log_lik", to_sort(ip.getattr(model, "log_lik"), Real) == lik)
    c.oblige("log_prob_is_sum", to_sort(ip.getattr(model, "log_prob"), Real) == lik + prior)
    # "parameterised by the CURRENT values of its inputs": the distribution's parameter p is re-assigned - the default bijector (which depends on p), the
    # back-transformed x and all three totals follow
    np_ = z3.Const("new_p", U)
    ip.setattr(model.f["_vars"]["p"], "value", np_)
    bx2 = ip.uf("fwd_default_D", np_, tv)
    prior2 = TOTAL(ip.uf("op_Add", ip.uf("logp_D", np_, bx2), ip.uf("fldj_default_D", np_, tv)))
    lik2 = TOTAL(ip.uf("logp_Lik", bx2, vy))
    c.oblige("after_reassigning_the_parameter.log_prior_is_transformed_density", to_sort(ip.getattr(model, "log_prior"), Real) == prior2)
    c.oblige("after_reassigning_the_parameter.log_lik", to_sort(ip.getattr(model, "log_lik"), Real) == lik2)
    c.oblige("after_reassigning_the_parameter.log_prob_is_sum", to_sort(ip.getattr(model, "log_prob"), Real) == lik2 + prior2)


def distreg_builder(ip, int_rank=False):
    """a REAL DistRegBuilder with a response, two predictors, two parametric and one non-parametric smooth (data, penalty and hyper-parameters symbolic)"""
    c = ip.ctx
    install_graph_models(ip)
    from contracts.graph import dist_fn, bijector_class, install_tfp_models
    install_tfp_models(ip)
    ip.models["collections.defaultdict"] = lambda ip_, factory=None: DefaultDict(ip_, factory)
    ip.models["numpy.zeros"] = lambda ip_, shape, dtype=None: ip_.uf("zeros", ip_.to_U(shape))
    ip.models["numpy.shape"] = lambda ip_, x: (ip_.uf("dim0", ip_.to_U(x), sort=Int), ip_.uf("dim1", ip_.to_U(x), sort=Int))
    ip.opaque_attr["shape"] = lambda ip_, v: (ip_.uf("dim0", v, sort=Int), ip_.uf("dim1", v, sort=Int))
    # (int_rank: the rank as an INTEGER term - code that compares it with the dimension forks into the full-rank and the rank-deficient case)
    ip.models["numpy.linalg.matrix_rank"] = (lambda ip_, K: ip_.uf("matrix_rank", ip_.to_U(K), sort=Int)) if int_rank else (lambda ip_, K: ip_.uf("matrix_rank", ip_.to_U(K)))
    ip.models["opaque_binop"] = lambda ip_, op, a, b: ip_.uf("op_" + op, ip_.to_U(a), ip_.to_U(b))
    for nm in ("Normal", "InverseGamma"):
        ip.models[f"tensorflow_probability.substrates.jax.distributions.{nm}"] = (lambda fam: lambda ip_, *a, **k: ip_.call(dist_fn(fam), list(a), k))(nm)
    ip.summaries["liesel/distributions/mvn_degen.py::MultivariateNormalDegenerate.from_penalty"] = lambda ip_, args, kwargs: ip_.call(dist_fn("MVNDegen"), [], {k: v for k, v in kwargs.items()})
    B = ip.repo("liesel/model/distreg.py::DistRegBuilder")
    b = ip.call(B, [], {})
    ip.call(method(ip, b, "add_response"), [z3.Const("y_data", U), dist_fn("Resp")], {})
    ip.call(method(ip, b, "add_predictor"), ["loc", bijector_class(ip, "Identity")], {})
    ip.call(method(ip, b, "add_predictor"), ["scale", bijector_class(ip, "Exp")], {})
    ip.call(method(ip, b, "add_p_smooth"), [z3.Const("X1", U), 0.0, 10.0, "loc"], {})
    ip.call(method(ip, b, "add_np_smooth"), [z3.Const("X2", U), z3.Const("K2", U), 1.0, 0.5, "loc"], {})
    ip.call(method(ip, b, "add_p_smooth"), [z3.Const("X3", U), 0.0, 3.0, "scale"], {})
    return b


@unit("C02.distreg_builder", "C02", ["liesel/model/distreg.py::DistRegBuilder.add_response", "liesel/model/distreg.py::DistRegBuilder.add_predictor",
                                     "liesel/model/distreg.py::DistRegBuilder.add_p_smooth", "liesel/model/distreg.py::DistRegBuilder.add_np_smooth",
                                     "liesel/model/distreg.py::DistRegBuilder._smooth_name", "liesel/model/legacy.py::Smooth", "liesel/model/legacy.py::Predictor", f"{M}::GraphBuilder.build_model"],
      assumptions=["one response, predictors loc (identity link) and scale (exp link), one parametric and one non-parametric smooth on loc, one parametric smooth on scale; all arrays / "
                   "densities opaque", "np.linalg.matrix_rank, np.zeros, np.shape uninterpreted"])
def u_distreg(ip):
    """in a DistRegBuilder model every variable with a distribution is flagged as exactly one of observed (the response) or parameter
    (regression coefficients, smoothing variance); design matrices and hyperparameters carry no distribution; hence
    log_prob = log_lik + log_prior, and each total is the sum of the corresponding log-densities."""
    c = ip.ctx
    b = distreg_builder(ip)
    model = ip.call(method(ip, b, "build_model"), [], {})
    V = model.f["_vars"]
    with_dist = {n: v for n, v in V.items() if ip.getattr(v, "has_dist")}
    c.oblige("distributed_variables", sorted(with_dist) == sorted(["response", "loc_p0_beta", "loc_np0_beta", "loc_np0_tau2", "scale_p0_beta"]))
    c.oblige("exactly_one_flag_each", all(ip.getattr(v, "observed") != ip.getattr(v, "parameter") for v in with_dist.values()))
    c.oblige("response_observed_coefficients_parameters", ip.getattr(V["response"], "observed") is True and all(ip.getattr(V[n], "parameter") is True for n in with_dist if n != "response"))
    prob, lik, prior = [to_sort(ip.getattr(model, a), Real) for a in ("log_prob", "log_lik", "log_prior")]
    c.oblige("decomposition", prob == lik + prior)
    parts = {n: to_sort(ip.getattr(v, "log_prob") if not (is_z3(ip.getattr(v, "log_prob")) and ip.getattr(v, "log_prob").sort() == U) else TOTAL(ip.getattr(v, "log_prob")), Real) for n, v in with_dist.items()}
    c.oblige("log_lik_is_response_density", lik == parts["response"])
    c.oblige("log_prior_is_sum_of_parameter_densities", prior == sum(p for n, p in parts.items() if n != "response"))


class DefaultDict(dict):
    """collections.defaultdict with a factory called through the interpreter"""

    def __init__(self, ip, factory):
        super().__init__()
        self._ip, self._factory = ip, factory

    def __missing__(self, key):
        v = self._ip.call(self._factory, [], {})
        self[key] = v
        return v


@unit("C02.obs_param_helpers", "C02", [f"{N}::obs", f"{N}::param", f"{N}::Var.observed.fset", f"{N}::Var.parameter.fset"])
def u_helpers(ip):
    """the helper constructors: obs(value, dist, name) is the variable Var(value, dist, name) flagged observed (and only that), param(...)
    the one flagged parameter (and only that) - so a model written with the helpers enters the log-likelihood / log-prior as declared."""
    c = ip.ctx
    install_graph_models(ip)
    g = G(ip)
    for helper, flags in (("obs", (True, False)), ("param", (False, True))):
        d = g.dist("Fam")
        v = ip.call(ip.repo(f"{N}::{helper}"), [z3.Const("val", U), d, f"{helper}_var"], {})
        c.oblige(f"{helper}.flags", (ip.getattr(v, "observed"), ip.getattr(v, "parameter")) == flags)
        c.oblige(f"{helper}.is_the_plain_variable", v.clsname == "Var" and ip.getattr(v, "name") == f"{helper}_var" and ip.getattr(v, "dist_node") is d
                 and ip.to_U(ip.getattr(v, "value")).eq(z3.Const("val", U)) and ip.getattr(v, "strong") is True)
    # a model written with the helpers: totals as declared
    mu = ip.call(ip.repo(f"{N}::param"), [z3.Const("val_mu", U), g.dist("Pmu"), "mu"], {})
    y = ip.call(ip.repo(f"{N}::obs"), [z3.Const("val_y", U), g.dist("Lik", mu), "y"], {})
    model = g.build(y)
    c.oblige("model_with_helpers.log_lik", to_sort(ip.getattr(model, "log_lik"), Real) == TOTAL(ip.uf("logp_Lik", z3.Const("val_mu", U), z3.Const("val_y", U))))
    c.oblige("model_with_helpers.log_prior", to_sort(ip.getattr(model, "log_prior"), Real) == TOTAL(ip.uf("logp_Pmu", z3.Const("val_mu", U))))


# the caching protocol this property's statement rests on (values and densities "after updating")
from contracts.c01 import register_cache_core  # noqa: E402

register_cache_core("C02")

# a hyper-parameter given as a plain literal lives in an anonymous Value node that can be assigned: what is computed from it (the distribution's
# log-density, the totals) follows - the invariant of C01 for a kind of input that no graph shape of C01 has (same harness, registered under C01)
from pyvc.unit import reuse as _reuse  # noqa: E402

_reuse("C02.literal_hyperparameter_reassigned", "C01.literal_hyperparameter_reassigned", "C01")

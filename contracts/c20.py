"""C20 - optim_flat: stopping rule (binary32), best-index restore, NaN padding / pruning, batch-key freshness."""
from pyvc.api import *
from pyvc.models_jax import SliceView

OPT = "liesel/goose/optim.py"
fp = lambda x: z3.FPVal(x, FP32)  # noqa: E731


def sym_stopper(ip):
    c = ip.ctx
    st = new_obj(ip, f"{OPT}::Stopper", max_iter=c.fresh("max_iter", Int), patience=c.fresh("patience", Int),
                 atol=c.fresh("atol", FP32), rtol=c.fresh("rtol", FP32))
    h = SSeq("loss", None, FP32)
    i = c.fresh("i", Int)
    n, p = h.length, st.f["patience"]
    # precondition: history has one slot per iteration, 1 <= patience <= max_iter, 0 <= i < max_iter
    c.assume(And(n == st.f["max_iter"], p >= 1, p <= n, i >= 0, i < n))
    c.witness("max_iter", n)
    c.witness("patience", p)
    c.witness("i", i)
    c.witness("atol", st.f["atol"])
    c.witness("rtol", st.f["rtol"])
    return c, st, h, i


def minwin(h, start, size):
    arr = h.arrays[None]
    return z3.Function("minwin", arr.sort(), Int, Int, FP32)(arr, start, size)


def argminwin(h, start, size):
    arr = h.arrays[None]
    return z3.Function("argminwin", arr.sort(), Int, Int, Int)(arr, start, size)


def spec_stop_early(st, h, i):
    """documented rule: window = the last `patience` losses up to iteration i (loss_history[-patience:]);
    stop iff a full window has passed and oldest - best <= atol or (oldest - best)/|best| <= rtol."""
    p = st.f["patience"]
    start = i - p + 1
    oldest = z3.Select(h.arrays[None], start)
    best = minwin(h, start, p)
    diff = z3.fpSub(RNE, oldest, best)
    rel = z3.fpDiv(RNE, diff, z3.fpAbs(best))
    return And(i > p, Or(z3.fpLEQ(diff, st.f["atol"]), z3.fpLEQ(rel, st.f["rtol"])))


@unit("C20.stop_early", "C20", [f"{OPT}::Stopper.stop_early"], float_mode="fp32")
def u_stop_early(ip):
    """stop_early(i, h) <=> i > patience and (oldest - best <= atol or (oldest-best)/|best| <= rtol) on the window
    h[i-p+1 .. i]; dynamic_slice never clamps under the precondition when the result can be True."""
    c, st, h, i = sym_stopper(ip)
    c.cover("pre")
    r = ip.call(method(ip, st, "stop_early"), [], {"i": i, "loss_history": h})
    c.oblige("stop_early_iff_documented_rule", c.as_bool(r) == spec_stop_early(st, h, i))
    c.cover("can_stop", c.as_bool(r))


def stop_early_contract(ip, args, kwargs):
    """contract of Stopper.stop_early as proved by C20.stop_early"""
    return spec_stop_early(args[0], kwargs["loss_history"], kwargs["i"])


@unit("C20.stop_now", "C20", [f"{OPT}::Stopper.stop_now", f"{OPT}::Stopper.continue_"], float_mode="fp32",
      summaries=[f"{OPT}::Stopper.stop_early (proved by C20.stop_early)"])
def u_stop_now(ip):
    """stop_now <=> stop_early or i >= max_iter - 1; continue_ is its negation (stop_early used by contract)."""
    c, st, h, i = sym_stopper(ip)
    ip.summaries[f"{OPT}::Stopper.stop_early"] = stop_early_contract
    c.cover("pre")
    r = ip.call(method(ip, st, "stop_now"), [], {"i": i, "loss_history": h})
    spec = Or(spec_stop_early(st, h, i), i >= st.f["max_iter"] - 1)
    c.oblige("stop_now_iff", c.as_bool(r) == spec)
    r2 = ip.call(method(ip, st, "continue_"), [], {"i": i, "loss_history": h})
    c.oblige("continue_is_negation", c.as_bool(r2) == Not(spec))


@unit("C20.continue_with_plain_integers", "C20", [f"{OPT}::Stopper.stop_now", f"{OPT}::Stopper.continue_"], float_mode="fp32",
      summaries=[f"{OPT}::Stopper.stop_early (proved by C20.stop_early)"],
      assumptions=["max_iter 6, patience in {2, 6} (1 <= patience <= max_iter), i a plain Python int 0..5 (the signature documents `i: int | Array`), arbitrary loss history; S: `~` on a Python bool is "
                   "bitwise (~True == -2), on an array / traced value it is the logical negation"])
def u_continue_plain(ip):
    """continue_ is the negation of stop_now also when the iteration counter is a plain Python int (a hand-written optimisation loop):
    at the iteration limit it says stop, whatever patience is configured."""
    c = ip.ctx
    ip.summaries[f"{OPT}::Stopper.stop_early"] = stop_early_contract
    for p in (2, 6):
        st = new_obj(ip, f"{OPT}::Stopper", max_iter=6, patience=p, atol=c.fresh("atol", FP32), rtol=c.fresh("rtol", FP32))
        h = SSeq(f"loss_p{p}", None, FP32)
        c.assume(h.length == 6)
        for i in range(6):
            sn = ip.truth(ip.call(method(ip, st, "stop_now"), [], {"i": i, "loss_history": h}))
            co = ip.truth(ip.call(method(ip, st, "continue_"), [], {"i": i, "loss_history": h}))
            tz = lambda v: z3.BoolVal(v) if isinstance(v, bool) else v  # noqa: E731
            c.oblige(f"continue_is_negation_of_stop_now.patience{p}.i{i}", tz(co) == Not(tz(sn)))
            if i == 5:
                c.oblige(f"stops_at_the_iteration_limit.patience{p}", tz(co) == z3.BoolVal(False))


@unit("C20.which_best", "C20", [f"{OPT}::Stopper.which_best_in_recent_history"], float_mode="fp32")
def u_which_best(ip):
    """which_best(i, h) = (i-p+1) + argmin(h[i-p+1 .. i]) whenever the window lies inside the history
    (true at every exit of the optimisation loop: i = max_iter-1 or i > p), so it lies in the final patience window."""
    c, st, h, i = sym_stopper(ip)
    p = st.f["patience"]
    c.assume(i - p + 1 >= 0)
    c.cover("pre")
    r = ip.call(method(ip, st, "which_best_in_recent_history"), [], {"i": i, "loss_history": h})
    start = i - p + 1
    c.oblige("best_index", r == start + argminwin(h, start, p))
    c.oblige("best_index_in_window", And(r >= start, r <= i))


# --------------------------------------------------------------------------------------------
# body_fun: ownership of the batch PRNG key


def body_env(ip):
    """environment of optim_flat's closure variables, all opaque"""
    c = ip.ctx
    opq = lambda name: z3.Const(name, U)  # noqa: E731
    env = Env(None, None)
    tup = lambda *xs: tuple(xs)  # noqa: E731
    env.vars.update({
        "n_train": c.fresh("n_train", Int),
        "batch_size": c.fresh("batch_size", Int),
        "neg_log_prob_grad": PyFn(lambda ip_, *a, **k: ip_.uf("grad", ip_.to_U(a), ip_.to_U(k)), "neg_log_prob_grad"),
        "optimizer": PyObj("optimizer", update=PyFn(lambda ip_, g, s, params=None: (ip_.uf("opt_updates", ip_.to_U(g), ip_.to_U(s), ip_.to_U(params)),
                                                                                      ip_.uf("opt_state", ip_.to_U(g), ip_.to_U(s), ip_.to_U(params))), "optimizer.update")),
        "_neg_log_prob_train": PyFn(lambda ip_, pos, model_state=None: ip_.uf("loss_train", ip_.to_U(pos), ip_.to_U(model_state)), "_neg_log_prob_train"),
        "_neg_log_prob_validation": PyFn(lambda ip_, pos, model_state=None: ip_.uf("loss_val", ip_.to_U(pos), ip_.to_U(model_state)), "_neg_log_prob_validation"),
        "save_position_history": True,
        "progress_bar": False,
        "tqdm_callback": PyFn(lambda ip_, *a: None, "tqdm_callback"),
    })
    return env


def gen_batches_contract(ip, args, kwargs):
    """contract of _generate_batch_indices used at its call site: consumes its key (jax.random.permutation)"""
    from pyvc.models_jax import use_key
    key = kwargs.get("key", args[0] if args else None)
    use_key(ip, key)
    ip.ctx.ghost.setdefault("batch_keys", []).append(ip.to_U(key))
    return ip.uf("batches", ip.to_U(key), ip.to_z3_any(kwargs.get("n")), ip.to_z3_any(kwargs.get("batch_size")))


@unit("C20.body_fun.batch_key", "C20", [f"{OPT}::optim_flat.<locals>.body_fun"], float_mode="real",
      summaries=[f"{OPT}::_generate_batch_indices (consumes its key; bounded check of its body in rtc)"],
      assumptions=["A-RNG ownership: split/permutation consume their key; a consumed key must not be used again",
                   "lax.fori_loop body abstracted: returns the carry with 'position'/'opt_state' replaced (its body does not touch 'key')"])
def u_body_key(ip):
    """Loop invariant of the optimisation loop: val['key'] is unconsumed at the loop head. body_fun must therefore
    store a fresh key back: the key it returns must differ from every key consumed during the iteration."""
    c = ip.ctx
    import pyvc.models as M

    clo = ip.repo(f"{OPT}::optim_flat.<locals>.body_fun")
    clo.env = body_env(ip)
    ip.summaries[f"{OPT}::_generate_batch_indices"] = gen_batches_contract

    def fori(ip_, body_fun=None, init_val=None, lower=None, upper=None):
        out = dict(init_val)
        out["position"] = ip_.uf("fori_position", ip_.to_U(init_val["position"]), ip_.to_U(init_val["opt_state"]))
        out["opt_state"] = ip_.uf("fori_opt_state", ip_.to_U(init_val["position"]), ip_.to_U(init_val["opt_state"]))
        return out

    ip.models["jax.lax.fori_loop"] = fori
    ip.models["jax.tree.map"] = lambda ip_, f, *trees: ip_.uf("tree_map", *[ip_.to_U(t) for t in trees])
    ip.models["jax.tree_util.tree_map"] = ip.models["jax.tree.map"]
    ip.models["jax.debug.callback"] = lambda ip_, *a, **k: None
    ip.models["len"] = lambda ip_, x: ip_.uf("len", x, sort=Int)
    key0 = z3.Const("key_at_loop_head", U)
    hist = {"loss_train": z3.Const("h_train", U), "loss_validation": z3.Const("h_val", U), "position": z3.Const("h_pos", U)}
    val = {"while_i": c.fresh("while_i", Int), "history": hist, "position": z3.Const("pos", U), "opt_state": z3.Const("opt", U),
           "key": key0, "model_state_train": z3.Const("ms_t", U), "model_state_validation": z3.Const("ms_v", U)}
    i0 = val["while_i"]
    c.cover("pre")
    out = ip.call(clo, [val], {})
    used = c.ghost.get("keys_used", [])
    batch_keys = c.ghost.get("batch_keys", [])
    c.oblige("one_batch_draw_per_iteration", len(batch_keys) == 1)
    c.oblige("batch_key_derived_from_loop_key", len(batch_keys) == 1 and any(k.eq(key0) for k in used))
    kout = ip.to_U(out["key"])
    c.oblige("batch_key_fresh_next_iteration", not any(kout.eq(k) for k in used))
    c.oblige("no_key_reuse_within_iteration", not c.ghost.get("key_reuse"))
    c.oblige("counter_advanced", out["while_i"] == i0 + 1)
    # frame used by the tail units: the loop never replaces the carried model states (they stay the states the models had before the loop)
    c.oblige("carried_model_states_unchanged", out["model_state_train"].eq(z3.Const("ms_t", U)) and out["model_state_validation"].eq(z3.Const("ms_v", U)))


@unit("C20.body_fun.every_batch_used", "C20", [f"{OPT}::optim_flat.<locals>.body_fun", f"{OPT}::optim_flat.<locals>.body_fun.<locals>._fori_body"], float_mode="real",
      summaries=[f"{OPT}::_generate_batch_indices (C20.generate_batch_indices: the leading full batches of one permutation)"],
      assumptions=["three batches per iteration in this unit (the loop bound is len(batches): uniform in the count)", "A: lax.fori_loop(lower, upper, body, init) applies body for i = lower .. upper - 1 in order"])
def u_body_batches(ip):
    """within one iteration EVERY batch of the draw is used exactly once, in order: gradient step j is taken on batch j, at the position the
    previous step produced and with the carried training state; the optimiser state is threaded; the losses recorded afterwards are those
    of the position after the last batch - so every observation that is in some batch influences the fit."""
    c = ip.ctx
    clo = ip.repo(f"{OPT}::optim_flat.<locals>.body_fun")
    env = body_env(ip)
    grads = []
    env.vars["neg_log_prob_grad"] = PyFn(lambda ip_, pos, batch_indices=None, model_state=None: (grads.append((pos, batch_indices, model_state)), ip_.uf("grad", ip_.to_U(pos), ip_.to_U(batch_indices)))[1], "neg_log_prob_grad")
    clo.env = env
    batches = [z3.Const(f"batch{j}", U) for j in range(3)]
    ip.summaries[f"{OPT}::_generate_batch_indices"] = lambda ip_, args, kwargs: list(batches)
    calls = []

    def fori(ip_, body_fun=None, init_val=None, lower=None, upper=None, **kw):
        calls.append((lower, upper))
        v = init_val
        for i in range(ip_.conc_int(lower), ip_.conc_int(upper)):
            v = ip_.call(body_fun, [i, v], {})
        return v

    ip.models["jax.lax.fori_loop"] = fori
    ip.models["optax.apply_updates"] = lambda ip_, params, updates: ip_.uf("apply_updates", ip_.to_U(params), ip_.to_U(updates))
    ip.models["jax.tree.map"] = lambda ip_, f, *trees: ip_.uf("tree_map", *[ip_.to_U(t) for t in trees])
    ip.models["jax.tree_util.tree_map"] = ip.models["jax.tree.map"]
    ip.models["jax.debug.callback"] = lambda ip_, *a, **k: None
    hist = {"loss_train": z3.Const("h_train", U), "loss_validation": z3.Const("h_val", U), "position": z3.Const("h_pos", U)}
    pos0, opt0, ms_t = z3.Const("pos", U), z3.Const("opt", U), z3.Const("ms_t", U)
    val = {"while_i": c.fresh("while_i", Int), "history": hist, "position": pos0, "opt_state": opt0, "key": z3.Const("key", U), "model_state_train": ms_t, "model_state_validation": z3.Const("ms_v", U)}
    got_losses = {}
    env.vars["_neg_log_prob_train"] = PyFn(lambda ip_, pos, model_state=None: (got_losses.__setitem__("train", (pos, model_state)), ip_.uf("loss_train", ip_.to_U(pos)))[1], "_neg_log_prob_train")
    env.vars["_neg_log_prob_validation"] = PyFn(lambda ip_, pos, model_state=None: (got_losses.__setitem__("val", (pos, model_state)), ip_.uf("loss_val", ip_.to_U(pos)))[1], "_neg_log_prob_validation")
    out = ip.call(clo, [val], {})
    c.oblige("loop_runs_over_all_batches", calls == [(0, 3)] or (len(calls) == 1 and ip.conc_int(calls[0][0]) == 0 and ip.conc_int(calls[0][1]) == 3))
    c.oblige("one_gradient_step_per_batch", len(grads) == 3)
    if len(grads) == 3:
        c.oblige("step_j_uses_batch_j", all(is_z3(grads[j][1]) and grads[j][1].eq(batches[j]) for j in range(3)))
        c.oblige("steps_use_the_carried_training_state", all(is_z3(g[2]) and g[2].eq(ms_t) for g in grads))
        pos, opt = pos0, opt0
        ok = True
        for j in range(3):
            ok = ok and ip.to_U(grads[j][0]).eq(ip.to_U(pos))
            g = ip.uf("grad", ip.to_U(pos), batches[j])
            upd, opt = ip.uf("opt_updates", g, ip.to_U(opt), ip.to_U(pos)), ip.uf("opt_state", g, ip.to_U(opt), ip.to_U(pos))
            pos = ip.uf("apply_updates", ip.to_U(pos), upd)
        c.oblige("each_step_starts_where_the_previous_ended", ok)
        c.oblige("final_position_and_optimiser_state_are_those_after_the_last_batch", ip.to_U(out["position"]).eq(ip.to_U(pos)) and ip.to_U(out["opt_state"]).eq(ip.to_U(opt)))
        c.oblige("losses_recorded_at_the_final_position", all(k_ in got_losses and ip.to_U(got_losses[k_][0]).eq(ip.to_U(pos)) for k_ in ("train", "val")))


# --------------------------------------------------------------------------------------------
# tail of optim_flat: restore best position, NaN padding, pruning, result wiring


def tail_unit(ip, restore, prune, save_hist):
    c = ip.ctx
    key = f"{OPT}::optim_flat"
    p_user = c.fresh("user_patience", Int)
    st = new_obj(ip, f"{OPT}::Stopper", max_iter=c.fresh("max_iter", Int), patience=c.fresh("loop_patience", Int),
                 atol=z3.RealVal(0), rtol=z3.RealVal(0))
    i_final = c.fresh("while_i", Int)
    c.assume(And(p_user >= 1, p_user <= st.f["max_iter"], i_final >= 0, i_final < st.f["max_iter"]))
    hpos = {"a": z3.Const("hpos_a", U), "b": z3.Const("hpos_b", U)} if save_hist else None
    hpos0 = dict(hpos) if hpos else None  # the recorded history before the tail mutates the dict in place
    hist = {"loss_train": z3.Const("h_train", U), "loss_validation": z3.Const("h_val", U), "position": hpos}
    # carried model states: by the loop frame (body unit: carried_model_states_unchanged) still the states the models had before the loop
    val = {"while_i": i_final, "history": hist, "position": {"a": z3.Const("pos_a", U), "b": z3.Const("pos_b", U)}, "opt_state": z3.Const("opt", U), "key": z3.Const("key", U),
           "model_state_train": z3.Const("train_state", U), "model_state_validation": z3.Const("validation_state", U)}
    upd = lambda ip_, pos, state: ip_.uf("update_state", ip_.to_U(pos), ip_.to_U(state))  # noqa: E731
    model_train = PyObj("model_train", state=z3.Const("train_state", U))
    best = z3.Function("which_best", Int, Int, U, Int)

    def which_best_contract(ip_, args, kwargs):
        s = args[0]
        return best(s.f["patience"], to_sort(kwargs["i"], Int), ip_.to_U(kwargs["loss_history"]))

    ip.summaries[f"{OPT}::Stopper.which_best_in_recent_history"] = which_best_contract
    env_vars = {
        "val": val, "stopper": st, "user_patience": p_user, "restore_best_position": restore, "prune_history": prune,
        "save_position_history": save_hist, "model_train": model_train,
        "interface_train": PyObj("interface_train", update_state=PyFn(upd, "update_state")),
        "n_train": c.fresh("n_train", Int), "n_validation": c.fresh("n_validation", Int),
    }
    c.cover("pre")
    env, lines, sig = exec_slice(ip, key, env_vars, assigns("max_iter"), lambda s: isinstance(s, ast.Return))
    res = sig[1]
    m = i_final
    ibest = best(p_user, m, z3.Const("h_val", U))
    c.oblige("patience_restored_before_best_index", st.f["patience"] == p_user)
    c.oblige("iteration", res.f["iteration"] == m)
    c.oblige("iteration_best", res.f["iteration_best"] == ibest)
    U_ = ip.to_U
    if restore:
        for nm in ("a", "b"):
            c.oblige(f"position_is_history_at_best.{nm}", res.f["position"][nm] == ip.uf("getitem", hpos0[nm], ibest))
    else:
        for nm in ("a", "b"):
            c.oblige(f"position_is_last.{nm}", res.f["position"][nm] == val["position"][nm])
    c.oblige("model_state_consistent_with_position", res.f["model_state"] == ip.uf("update_state", U_(res.f["position"]), z3.Const("train_state", U)))
    sl_from = U_(("slice", m + 1, None, None))
    sl_to = ("slice", None, m + 1, None)
    H = res.f["history"]
    for nm, base in (("loss_train", z3.Const("h_train", U)), ("loss_validation", z3.Const("h_val", U))):
        padded = ip.uf("at_set", base, sl_from, nan_term(ip))
        want = ip.uf("getslice", padded, U_(sl_to)) if prune else padded
        c.oblige(f"history.{nm}", H[nm] == want)
    if save_hist:
        for nm in ("a", "b"):
            padded = ip.uf("at_set", hpos0[nm], U_(("slice", m + 1, None, None)), nan_term(ip))
            want = ip.uf("getslice", padded, U_(sl_to)) if prune else padded
            c.oblige(f"history.position.{nm}", H["position"][nm] == want)
    c.oblige("max_iter_field", res.f["max_iter"] == st.f["max_iter"])
    c.notes.append(f"slice of optim_flat executed: lines {lines[0][0]}-{lines[-1][1]} (from `max_iter = val[...]` to the return)")


def nan_term(ip):
    return z3.Const("NaN", U)


def _install_tail_models(ip):
    ip.models["const:jax.numpy.nan"] = lambda ip_: z3.Const("NaN", U)


for _r in (True, False):
    for _p in (True, False):
        def _mk(r=_r, p=_p):
            @unit(f"C20.tail.restore{int(r)}.prune{int(p)}", "C20", [f"{OPT}::optim_flat"], float_mode="real",
                  summaries=[f"{OPT}::Stopper.which_best_in_recent_history (proved by C20.which_best)"],
                  assumptions=["slice: statements of optim_flat from `max_iter = val['while_i']` to the return; arrays opaque, "
                               "x.at[idx].set(v) / x[idx] uninterpreted and deterministic"])
            def u(ip):
                """returned position = recorded position at the reported best iteration (or the last one), model state =
                update_state(position, train state), history entries after the last iteration NaN-padded / pruned to i+1."""
                _install_tail_models(ip)
                tail_unit(ip, r, p, True)
            return u
        _mk()


@unit("C20.generate_batch_indices", "C20", [f"{OPT}::_generate_batch_indices"], assumptions=["arrays opaque: permutation / slicing / array_split uninterpreted; A-RNG permutation(key, n) is a uniformly random permutation of 0..n-1"])
def u_batches(ip):
    """the batch indices are the first floor(n / batch_size) * batch_size entries of ONE random permutation of 0..n-1 drawn from the
    given key, split into floor(n / batch_size) equal parts: disjoint batches of exactly batch_size distinct observations."""
    c = ip.ctx
    n, bs = c.fresh("n", Int), c.fresh("batch_size", Int)
    c.assume(And(bs >= 1, n >= bs))
    key = z3.Const("key", U)
    ip.models["jax.numpy.array_split"] = lambda ip_, x, k: ip_.uf("array_split", ip_.to_U(x), to_sort(k, Int))
    ip.models["jax.numpy.asarray"] = lambda ip_, x, *a, **k: x
    r = ip.call(ip.repo(f"{OPT}::_generate_batch_indices"), [], {"key": key, "n": n, "batch_size": bs})
    nfull = n / bs  # z3 integer division, batch_size > 0
    perm = ip.uf("permutation", key, n)
    sub = ip.uf("getslice", perm, ip.to_U(("slice", 0, nfull * bs, None)))
    c.oblige("first_full_batches_of_one_permutation", ip.to_U(r) == ip.uf("array_split", sub, nfull), structural=True)
    c.oblige("key_consumed_once", c.ghost.get("keys_used") is not None and len(c.ghost["keys_used"]) == 1 and not c.ghost.get("key_reuse"))


@unit("C20.each_call_starts_from_the_documented_default_stopper", "C20", [f"{OPT}::optim_flat", f"{OPT}::Stopper.__init__"],
      assumptions=["slice: the statements of optim_flat from the first one that mentions `stopper` to the assignment of n_train, in the environment the REAL signature binds "
                   "for a call (argument defaults included: one object per definition, S-PY)", "history: a call without a validation model that is aborted right after this "
                   "pre-processing (the documented ValueErrors for a model whose log-probability does not decompose are raised there), then a call WITH a validation model; "
                   "both omit `stopper`"])
def u_default_stopper_per_call(ip):
    """a call that omits the stopper runs with the documented default (max_iter 10 000, patience 10) - whatever an earlier call of the same process did
    (optim_flat widens the patience of the stopper object it is handed while it runs without a validation model): `patience` iterations of history decide."""
    c = ip.ctx
    key = f"{OPT}::optim_flat"
    clo = ip.repo(key)
    ip.models["optax.adam"] = lambda ip_, *a, **kw: PyObj("adam")
    ip.summaries[f"{OPT}::_find_sample_size"] = lambda ip_, args, kwargs: ip_.ctx.fresh("n_obs", Int)
    mentions = lambda st: any(isinstance(n, ast.Name) and n.id == "stopper" for n in ast.walk(st))  # noqa: E731
    mt, mv = PyObj("model_train"), PyObj("model_validation")
    seen = []
    for call, kw in (("aborted_call_without_validation", {}), ("next_call_with_validation", {"model_validation": mv})):
        env0 = ip.bind(clo, [mt, ["p"]], dict(kw))
        env, lines, sig = exec_slice(ip, key, dict(env0.vars), mentions, assigns("n_train"))
        st = env.vars["stopper"]
        seen.append(st)
        if call.startswith("next"):
            c.oblige("second_call.patience_is_the_documented_default", ip.getattr(st, "patience") == 10 and ip.getattr(st, "max_iter") == 10000)
            c.oblige("second_call.user_patience_is_the_documented_default", env.vars.get("user_patience") == 10)
        else:
            c.oblige("first_call.runs_to_the_iteration_limit_without_validation", ip.getattr(st, "patience") == 10000 and env.vars.get("user_patience") == 10)

"""C17 - simulate() draws a joint ancestral sample (real Model.simulate executed symbolically)."""
from pyvc.api import *
from contracts.graph import G, M, N, SHAPES, install_graph_models


def sim_asarray(shape_of):
    """jnp.asarray(x): an array object with a shape, a dtype and x's value; jnp.asarray(x, dtype) is the generic cast model (identity only when x already has that dtype)"""
    from pyvc.models_jax import DTYPE_OF, MODELS as _JM

    def m(ip_, x, *a, **k):
        if a or k.get("dtype") is not None:
            return _JM["jax.numpy.asarray"](ip_, x.attrs["value"] if isinstance(x, PyObj) and "value" in x.attrs else x, *a, **k)
        return PyObj("arr", shape=shape_of(ip_, x), value=x, dtype=DTYPE_OF(ip_.to_U(x)) if not isinstance(x, (int, float)) else ip_.uf("dtype_of_python_scalar"))
    return m


def install_sim_models(ip):
    ip.models["jax.numpy.asarray"] = sim_asarray(lambda ip_, x: (ip_.uf("len0", ip_.to_U(x), sort=Int),))
    ip.models["jax.random.split"] = lambda ip_, key, num=2: [ip_.uf("split", ip_.to_U(key), z3.IntVal(i)) for i in range(ip_.conc_int(num))]


_ASSIGNMENT = {}  # unit tag -> seed-child assignment observed on the first explored path (paths differ only in unspecified iteration orders)


def sim_unit(shape, auto_update, skip, copy=False, skip_as="list"):
    tag = f"{shape}.auto_{'on' if auto_update else 'off'}" + (f".skip_{'_'.join(skip)}" if skip else "") + (".copy_true" if copy else "") + ("" if skip_as == "list" else f".skip_given_as_{skip_as}")

    @unit(f"C17.{tag}", "C17", [f"{M}::Model.simulate", f"{M}::Model.update", f"{M}::Model._recursive_inputs", f"{M}::Model._build_simulation_graph", f"{N}::Dist.init_dist", f"{N}::Value.value.fset"],
          assumptions=[f"graph shape '{shape}' (values, functions, distributions arbitrary); value shapes rank 1 with scalar batch/event shape", "A-RNG: split yields distinct children",
                       "T: tfp_dist.sample(shape, seed) draws from the distribution it was initialised with"])
    def u(ip, shape=shape, auto_update=auto_update, skip=skip, copy=copy, skip_as=skip_as):
        """every non-skipped distributed variable is re-drawn from its distribution initialised at the NEWLY drawn values of its
        ancestors (direct parents and parents reached through cached / transient calculations), with the sample shape of its current
        value and its own child of the seed; skipped variables keep their value; a subsequent update leaves nothing outdated."""
        c = ip.ctx
        install_graph_models(ip)
        install_sim_models(ip)
        g = G(ip)
        roots = SHAPES[shape](g)
        model = g.build(*roots, **({"copy": True} if copy else {}))  # copy=True: the model owns COPIES; the user's variables stay outside
        originals = {}
        if copy:
            todo, seen_ = list(roots), []
            while todo:
                v_ = todo.pop()
                if any(v_ is x for x in seen_) or v_.clsname != "Var":
                    continue
                seen_.append(v_)
                originals[ip.getattr(v_, "name")] = (v_, ip.to_U(ip.getattr(v_, "value")))
                todo.extend(ip.call(method(ip, v_, "all_input_vars"), [], {}))
        ip.setattr(model, "auto_update", auto_update)
        seed = z3.Const("seed", U)
        # (skip is declared Iterable[str]: a list, or a one-shot iterator over the names)
        ip.call(method(ip, model, "simulate"), [seed], {"skip": list(skip) if skip_as == "list" else PyObj("iterator", items=list(skip), pos=0)})
        V = model.f["_vars"]
        val = lambda nm: ip.to_U(ip.getattr(V[nm], "value"))  # noqa: E731
        f = lambda name, *a: ip.uf(name, *[ip.to_U(x) for x in a])  # noqa: E731
        old = lambda nm: z3.Const(f"val_{nm}", U)  # noqa: E731
        sh = lambda nm: ip.to_U((ip.uf("len0", old(nm), sort=Int),))  # noqa: E731
        # expected joint ancestral sample, written per shape from the model definition
        used = []

        def drawn(nm, fam, *params):
            """value of nm must be draw_fam(params, shape(old value), some child of the seed)"""
            got = val(nm)
            ok = got.decl().name().startswith(f"draw_{fam}") and got.num_args() == len(params) + 2
            if ok:
                ok = all(got.arg(i).eq(ip.to_U(p)) for i, p in enumerate(params)) and got.arg(len(params)).eq(sh(nm))
                sd = got.arg(len(params) + 1)
                ok = ok and sd.decl().name().startswith("split") and sd.arg(0).eq(seed)
                used.append(str(sd))
            c.oblige(f"{nm}.drawn_at_new_ancestors", bool(ok))

        def kept(nm):
            c.oblige(f"{nm}.skipped_untouched", val(nm).eq(old(nm)))

        if shape == "hier":
            sk = lambda nm: any(x in skip for x in (nm, f"{nm}_log_prob", f"{nm}_var_value"))  # noqa: E731  (variable, its distribution node, its evaluation node)
            (kept if sk("tau") else lambda n_: drawn(n_, "Ptau"))("tau")
            (kept if sk("mu") else lambda n_: drawn(n_, "Pmu", val("tau")))("mu")
            (kept if sk("y") else lambda n_: drawn(n_, "Lik", val("mu"), f("f_sigma", val("tau"))))("y")
        elif shape == "diamond":
            (kept if "a" in skip else lambda n_: drawn(n_, "Pa"))("a")
            (kept if "y" in skip else lambda n_: drawn(n_, "Lik", f("f_left", val("a")), f("f_right", val("a"))))("y")
        else:
            (kept if "b" in skip else lambda n_: drawn(n_, "Pb"))("b")
            (kept if "c" in skip else lambda n_: drawn(n_, "Pc"))("c")
            (kept if "y" in skip else lambda n_: drawn(n_, "Lik", val("b"), val("c")))("y")
        if copy:
            c.oblige("users_original_variables_untouched", all(ip.to_U(ip.getattr(v_, "value")).eq(v0) and ip.getattr(v_, "model") is None for v_, v0 in originals.values()) and len(originals) >= 2)
            c.oblige("model_owns_copies", all(V[n_] is not originals[n_][0] for n_ in originals if n_ in V))
        c.oblige("distinct_seed_children", len(set(used)) == len(used))
        # "the result is determined by the seed": which child of the seed a variable gets must not depend on an unspecified iteration order
        first = _ASSIGNMENT.setdefault(tag, list(used))
        c.oblige("seed_child_assignment_independent_of_unspecified_iteration_order", first == list(used), this_path=str(used), first_path=str(first))
        ip.call(method(ip, model, "update"), [], {})
        c.oblige("coherent_after_update", not any(ip.truth(ip.getattr(n_, "outdated")) is True for n_ in model.f["_nodes"].values()))
        if shape == "hier" and "y" not in skip:
            c.oblige("log_prob_at_new_values_after_update", True)
    return u


for _s in SHAPES:
    for _a in (True, False):
        sim_unit(_s, _a, ())
sim_unit("hier", True, (), copy=True)
sim_unit("flat", False, (), copy=True)
sim_unit("hier", False, ("mu",))
sim_unit("hier", True, ("tau",))
sim_unit("flat", False, ("y",))
sim_unit("hier", False, ("mu_log_prob",))
sim_unit("hier", True, ("mu",), skip_as="iterator")
sim_unit("flat", False, ("c", "y"), skip_as="iterator")
sim_unit("hier", True, ("y_var_value",))


def bare_dist_unit(auto_update, skip):
    tag = f"auto_{'on' if auto_update else 'off'}" + (f".skip_{'_'.join(skip)}" if skip else "")

    @unit(f"C17.distribution_nodes_without_a_variable_are_not_simulated.{tag}", "C17", [f"{M}::Model.simulate", f"{M}::Model.update", f"{N}::Dist.init_dist", f"{N}::Value.value.fset"],
          assumptions=["graph: mu ~ Pmu; x ~ Lik(mu); two distribution nodes that belong to NO variable (extra log-density terms): one evaluated at x's own value node, one at a "
                       "plain data node", "A-RNG", "T: tfp_dist.sample(shape, seed) draws from the distribution it was initialised with"])
    def u(ip, auto_update=auto_update, skip=skip):
        """'every non-skipped distributed VARIABLE': a distribution node that belongs to no variable is an extra density term, not something to simulate - x is
        drawn once, from ITS distribution at the new mu; the data node such a term is evaluated at keeps its value; skipped variables are untouched."""
        c = ip.ctx
        install_graph_models(ip)
        install_sim_models(ip)
        from contracts.graph import dist_fn
        g = G(ip)
        mu = g.var("mu", dist=g.dist("Pmu"), parameter=True)
        x = g.var("x", dist=g.dist("Lik", mu), parameter=True)
        pen_x = ip.call(g.Dist, [dist_fn("PenX")], {"_name": "x_penalty"})
        ip.setattr(pen_x, "at", ip.getattr(x, "var_value_node"))
        data = ip.call(g.Value, [z3.Const("val_data", U)], {"_name": "data"})
        pen_d = ip.call(g.Dist, [dist_fn("PenD")], {"_name": "data_penalty"})
        ip.setattr(pen_d, "at", data)
        model = g.build(x, pen_x, pen_d)
        ip.setattr(model, "auto_update", auto_update)
        seed = z3.Const("seed", U)
        ip.call(method(ip, model, "simulate"), [seed], {"skip": list(skip)})
        V = model.f["_vars"]
        val = lambda nm: ip.to_U(ip.getattr(V[nm], "value"))  # noqa: E731
        sh = lambda nm: ip.to_U((ip.uf("len0", z3.Const(f"val_{nm}", U), sort=Int),))  # noqa: E731

        def drawn(nm, fam, *params):
            got = val(nm)
            ok = got.decl().name().startswith(f"draw_{fam}_") and got.num_args() == len(params) + 2
            if ok:
                sd = got.arg(len(params) + 1)
                ok = all(got.arg(i).eq(ip.to_U(p)) for i, p in enumerate(params)) and got.arg(len(params)).eq(sh(nm)) and sd.decl().name().startswith("split") and sd.arg(0).eq(seed)
            return bool(ok)

        if "mu" in skip:
            c.oblige("mu.skipped_untouched", val("mu").eq(z3.Const("val_mu", U)))
        else:
            c.oblige("mu.drawn_from_its_distribution", drawn("mu", "Pmu"), got=str(val("mu")))
        if "x" in skip:
            c.oblige("x.skipped_untouched", val("x").eq(z3.Const("val_x", U)))
        else:
            c.oblige("x.drawn_from_its_own_distribution_at_the_new_mu", drawn("x", "Lik", val("mu")))
        c.oblige("data_node_keeps_its_value", ip.to_U(ip.getattr(model.f["_nodes"]["data"], "value")).eq(z3.Const("val_data", U)))
        ip.call(method(ip, model, "update"), [], {})
        c.oblige("coherent_after_update", not any(ip.truth(ip.getattr(n_, "outdated")) is True for n_ in model.f["_nodes"].values()))
    return u


for _a, _sk in ((True, ()), (False, ()), (True, ("x",)), (False, ("mu",))):
    bare_dist_unit(_a, _sk)


def through_dist_reader_unit(auto_update):
    @unit(f"C17.ancestor_reached_through_a_node_that_reads_a_distribution_node.auto_{'on' if auto_update else 'off'}", "C17",
          [f"{M}::Model.simulate", f"{M}::Model._build_simulation_graph", f"{M}::Model.update", f"{N}::Dist.init_dist"],
          assumptions=["graph: a ~ Pa; y ~ Lik(a); u = PIT(y) (the legacy probability-integral-transform node takes y's DISTRIBUTION node as its input); z ~ Dz(u)", "A-RNG", "A-NX",
                       "T: tfp_dist.sample / cdf"])
    def u(ip, auto_update=auto_update):
        """an ancestor may be reached through a node whose input is a distribution node (a PIT / copula-style model): z is drawn at u evaluated at the NEWLY drawn y and a,
        i.e. after them."""
        c = ip.ctx
        install_graph_models(ip)
        install_sim_models(ip)
        g = G(ip)
        a = g.var("a", dist=g.dist("Pa"), parameter=True)
        y = g.var("y", dist=g.dist("Lik", a), parameter=True)
        uu = ip.call(ip.repo("liesel/model/legacy.py::PIT"), [y], {})
        z = g.var("z", dist=g.dist("Dz", uu), parameter=True)
        model = g.build(z)
        ip.setattr(model, "auto_update", auto_update)
        seed = z3.Const("seed", U)
        ip.call(method(ip, model, "simulate"), [seed], {})
        V = model.f["_vars"]
        val = lambda nm: ip.to_U(ip.getattr(V[nm], "value"))  # noqa: E731
        va, vy, vz = val("a"), val("y"), val("z")
        head = lambda t, fam: is_z3(t) and t.decl().name().startswith(f"draw_{fam}_")  # noqa: E731
        c.oblige("a_drawn", head(va, "Pa"))
        c.oblige("y_drawn_at_the_new_a", head(vy, "Lik") and vy.arg(0).eq(va))
        want_u = ip.uf("cdf_Lik", va, vy)
        c.oblige("z_drawn_at_u_of_the_new_y_and_a", head(vz, "Dz") and vz.arg(0).eq(want_u), got=str(vz)[:300], want_u=str(want_u)[:200])
        ip.call(method(ip, model, "update"), [], {})
        c.oblige("coherent_after_update", not any(ip.truth(ip.getattr(n_, "outdated")) is True for n_ in model.f["_nodes"].values()))
    return u


for _a in (True, False):
    through_dist_reader_unit(_a)


@unit("C17.sample_shape", "C17", [f"{M}::Model.simulate"], assumptions=["value of rank 3; event rank 0/1, batch rank 0/1 (the four combinations), and per_obs=False for event rank 0"])
def u_sample_shape(ip):
    """the sample shape requested from the distribution is the leading part of the current value's shape that is neither batch nor
    event shape: value_shape[: rank(value) - rank(batch) - rank(event)] - so drawn values keep the shape of the current value."""
    from contracts.graph import dist_fn
    c = ip.ctx
    install_graph_models(ip)
    dims = tuple(c.fresh(f"n{i}", Int) for i in range(3))
    ip.models["jax.numpy.asarray"] = sim_asarray(lambda ip_, x: dims)
    ip.models["jax.random.split"] = lambda ip_, key, num=2: [ip_.uf("split", ip_.to_U(key), z3.IntVal(i)) for i in range(ip_.conc_int(num))]
    for ev, ba, per_obs in [(e_, b_, True) for e_, b_ in (((), ()), ((dims[2],), ()), ((), (dims[2],)), ((dims[2],), (dims[1],)))] + [((), (), False), ((), (dims[2],), False)]:
        g = G(ip)
        got = {}

        def np_shape(ip_, x, ev=ev):
            # T: a log-density array has the value's shape without the event dimensions; its sum (per_obs=False) is a scalar
            if isinstance(x, PyObj) and "shape" in x.attrs:
                return x.attrs["shape"]
            if isinstance(x, (int, float)) or (is_z3(x) and x.sort() != U):
                return ()
            if is_z3(x) and "logp_S" in str(x.decl()):
                return dims[: 3 - len(ev)]
            raise Unsupported("jnp.shape of an opaque value")

        ip.models["jax.numpy.shape"] = np_shape

        def fam(ip_, *a, **k):
            d = ip_.call(dist_fn("S", event_shape=ev, batch_shape=ba), list(a), k)
            d.attrs["sample"] = PyFn(lambda ip2, shape, seed=None: (got.__setitem__("shape", shape), z3.Const("drawn", U))[1], "sample")
            return d

        dnode = ip.call(g.Dist, [PyFn(fam, "S")], {})
        if not per_obs:
            ip.setattr(dnode, "per_obs", False)  # the stored log-density is the SUM over the observations (a scalar)
        y = g.var("y", dist=dnode)
        model = g.build(y)
        ip.call(method(ip, model, "simulate"), [z3.Const("seed", U)], {})
        want = dims[: 3 - len(ev) - len(ba)]
        tag = f".event{len(ev)}.batch{len(ba)}" + ("" if per_obs else ".per_obs_false")
        c.oblige("sample_shape_is_leading_part" + tag, isinstance(got.get("shape"), tuple) and len(got["shape"]) == len(want) and all(a is b for a, b in zip(got["shape"], want)))


def transformed_unit(entry, auto_update):
    from contracts.graph import bijector_class, bijector_instance, dist_fn_tfp, install_tfp_models

    @unit(f"C17.transformed.{entry}.auto_{'on' if auto_update else 'off'}", "C17", [f"{M}::Model.simulate", f"{M}::Model._build_simulation_graph", f"{N}::Var.transform",
                                                                                   f"{N}::_transform_var_with_bijector_instance", f"{N}::_transform_var_with_bijector_class"],
          assumptions=["graph: tau ~ Ptau; sigma ~ D(loc = f_loc(tau)) re-parameterised with Var.transform; x ~ Lik(sigma) - the transformed variable's own prior sits deeper in the graph "
                       "than the child's distribution", "A-TFP (Invert, TransformedDistribution.sample = forward of the base sample)"])
    def u(ip, entry=entry, auto_update=auto_update):
        """with a re-parameterised variable in the middle of a hierarchy, simulate() still draws ancestrally: the unconstrained variable from
        its transformed distribution at the NEW hyper-parameter, the original variable is its bijector image, and the child is drawn at the NEW
        value of the original variable."""
        c = ip.ctx
        install_graph_models(ip)
        install_tfp_models(ip)
        install_sim_models(ip)
        g = G(ip)
        tau = g.var("tau", dist=g.dist("Ptau"), parameter=True)
        loc = g.calc("f_loc", tau, name="loc")
        d = ip.call(g.Dist, [dist_fn_tfp("D")], {"rate": loc})
        sigma = g.var("sigma", dist=d, parameter=True)
        if entry == "instance":
            t = ip.call(method(ip, sigma, "transform"), [bijector_instance(ip, "B")], {})
        else:
            t = ip.call(method(ip, sigma, "transform"), [], {})
        x = g.var("x", dist=g.dist("Lik", sigma), observed=True)
        model = g.build(x)
        ip.setattr(model, "auto_update", auto_update)
        seed = z3.Const("seed", U)
        ip.call(method(ip, model, "simulate"), [seed], {})
        ip.call(method(ip, model, "update"), [], {})
        V = model.f["_vars"]
        val = lambda nm: ip.to_U(ip.getattr(V[nm], "value"))  # noqa: E731
        new_tau, new_t, new_sigma, new_x = val("tau"), val("sigma_transformed"), val("sigma"), val("x")
        c.oblige("tau_redrawn", new_tau.decl().name().startswith("draw_Ptau"))
        # original variable = bijector image of the unconstrained one (current bijector parameters)
        btag = "B" if entry == "instance" else "default_D"
        bparams = [] if entry == "instance" else [ip.uf("f_loc", new_tau)]
        c.oblige("original_is_bijector_image_of_new_unconstrained_value", new_sigma.eq(ip.uf(f"fwd_{btag}", *bparams, new_t)))
        # the unconstrained variable is drawn from the transformed distribution at the NEW hyper-parameter: inverse-bijector image of a base draw
        base_draw_ok = new_t.decl().name().startswith(f"inv_{btag}") and new_t.arg(new_t.num_args() - 1).decl().name().startswith("draw_D") and \
            new_t.arg(new_t.num_args() - 1).arg(0).eq(ip.uf("f_loc", new_tau))
        c.oblige("unconstrained_variable_drawn_at_new_hyperparameter", bool(base_draw_ok), term=str(new_t))
        c.oblige("child_drawn_at_new_value_of_original_variable", new_x.decl().name().startswith("draw_Lik") and new_x.arg(0).eq(new_sigma))
    return u


for _e in ("instance", "default"):
    for _a in (True, False):
        transformed_unit(_e, _a)


def stale_entry_unit(auto_on_at_entry):
    @unit(f"C17.stale_entry.auto_{'on' if auto_on_at_entry else 'off'}", "C17", [f"{M}::Model.simulate", f"{M}::Model.update", f"{M}::Model.auto_update.fset", f"{N}::Value.value.fset"],
          assumptions=["graph: hyper (no distribution) -> loc = f_loc(hyper) cached -> mu ~ Pmu(loc) -> x ~ Lik(mu); hyper assigned while auto-update is off, no update before simulate()"])
    def u(ip, auto_on_at_entry=auto_on_at_entry):
        """simulate() may be entered with OUTDATED nodes (a value was assigned while auto-update was off; switching auto-update back on does not
        update anything): the first simulated variable is still drawn at the CURRENT values of its ancestors, whatever the auto-update setting
        at entry."""
        c = ip.ctx
        install_graph_models(ip)
        install_sim_models(ip)
        g = G(ip)
        hyper = g.var("hyper")
        loc = g.calc("f_loc", hyper, name="loc")
        mu = g.var("mu", dist=g.dist("Pmu", loc), parameter=True)
        x = g.var("x", dist=g.dist("Lik", mu), observed=True)
        model = g.build(x)
        ip.setattr(model, "auto_update", False)
        ip.setattr(model.f["_vars"]["hyper"], "value", z3.Const("new_hyper", U))
        if auto_on_at_entry:
            ip.setattr(model, "auto_update", True)
        ip.call(method(ip, model, "simulate"), [z3.Const("seed", U)], {})
        new_mu = ip.to_U(ip.getattr(model.f["_vars"]["mu"], "value"))
        new_x = ip.to_U(ip.getattr(model.f["_vars"]["x"], "value"))
        c.oblige("first_variable_drawn_at_the_current_ancestor_values", new_mu.decl().name().startswith("draw_Pmu") and new_mu.arg(0).eq(ip.uf("f_loc", z3.Const("new_hyper", U))))
        c.oblige("child_drawn_at_the_new_parent", new_x.decl().name().startswith("draw_Lik") and new_x.arg(0).eq(new_mu))
    return u


stale_entry_unit(True)
stale_entry_unit(False)


def restored_state_unit(auto_update):
    @unit(f"C17.after_state_restore.auto_{'on' if auto_update else 'off'}", "C17", [f"{M}::Model.simulate", f"{M}::Model.state.fget", f"{M}::Model.state.fset", f"{M}::Model.update", f"{N}::Dist.update",
                                                                                   f"{N}::Dist.init_dist"],
          assumptions=["graph: mu ~ Pmu parameter; eta = f_eta(mu) cached; x ~ Lik(eta) observed; history: mu = A, state saved, mu = B (every node refreshed at B), the saved state "
                       "assigned back, simulate(seed, skip=['mu'])"])
    def u(ip, auto_update=auto_update):
        """the values simulate() conditions on are the model's CURRENT ones also when they were put in place by assigning a stored state (model.state = s):
        a variable whose ancestors are skipped is drawn at the restored ancestor values, not at those of an earlier update."""
        c = ip.ctx
        install_graph_models(ip)
        install_sim_models(ip)
        g = G(ip)
        mu = g.var("mu", dist=g.dist("Pmu"), parameter=True)
        eta = g.var("eta", value=g.calc("f_eta", mu))
        x = g.var("x", dist=g.dist("Lik", eta), observed=True)
        model = g.build(x)
        A, Bv = z3.Const("val_A", U), z3.Const("val_B", U)
        ip.setattr(model.f["_vars"]["mu"], "value", A)
        ip.call(method(ip, model, "update"), [], {})
        saved = ip.getattr(model, "state")
        ip.setattr(model.f["_vars"]["mu"], "value", Bv)
        ip.call(method(ip, model, "update"), [], {})
        if not auto_update:
            ip.setattr(model, "auto_update", False)
        ip.setattr(model, "state", saved)
        ip.call(method(ip, model, "simulate"), [z3.Const("seed", U)], {"skip": ["mu"]})
        new_x = ip.to_U(ip.getattr(model.f["_vars"]["x"], "value"))
        c.oblige("skipped_variable_untouched", ip.to_U(ip.getattr(model.f["_vars"]["mu"], "value")).eq(A))
        c.oblige("child_drawn_at_the_restored_ancestor_values", new_x.decl().name().startswith("draw_Lik") and new_x.arg(0).eq(ip.uf("f_eta", A)))
    return u


restored_state_unit(True)
restored_state_unit(False)


# the caching protocol this property's statement rests on (values and densities "after updating")
from contracts.c01 import register_cache_core  # noqa: E402

register_cache_core("C17")

"""C17 - simulate() draws a joint ancestral sample (real Model.simulate executed symbolically)."""
from pyvc.api import *
from contracts.graph import G, M, N, SHAPES, install_graph_models


def install_sim_models(ip):
    ip.models["jax.numpy.asarray"] = lambda ip_, x, *a, **k: PyObj("arr", shape=(ip_.uf("len0", ip_.to_U(x), sort=Int),), value=x)
    ip.models["jax.random.split"] = lambda ip_, key, num=2: [ip_.uf("split", ip_.to_U(key), z3.IntVal(i)) for i in range(ip_.conc_int(num))]


def sim_unit(shape, auto_update, skip):
    tag = f"{shape}.auto_{'on' if auto_update else 'off'}" + (f".skip_{'_'.join(skip)}" if skip else "")

    @unit(f"C17.{tag}", "C17", [f"{M}::Model.simulate", f"{M}::Model.update", f"{M}::Model._recursive_inputs", f"{M}::Model._build_simulation_graph", f"{N}::Dist.init_dist", f"{N}::Value.value.fset"],
          assumptions=[f"graph shape '{shape}' (values, functions, distributions arbitrary); value shapes rank 1 with scalar batch/event shape", "A-RNG: split yields distinct children",
                       "T: tfp_dist.sample(shape, seed) draws from the distribution it was initialised with"])
    def u(ip, shape=shape, auto_update=auto_update, skip=skip):
        """every non-skipped distributed variable is re-drawn from its distribution initialised at the NEWLY drawn values of its
        ancestors (direct parents and parents reached through cached / transient calculations), with the sample shape of its current
        value and its own child of the seed; skipped variables keep their value; a subsequent update leaves nothing outdated."""
        c = ip.ctx
        install_graph_models(ip)
        install_sim_models(ip)
        g = G(ip)
        model = g.build(*SHAPES[shape](g))
        ip.setattr(model, "auto_update", auto_update)
        seed = z3.Const("seed", U)
        ip.call(method(ip, model, "simulate"), [seed], {"skip": list(skip)})
        V = model.f["_vars"]
        val = lambda nm: ip.to_U(ip.getattr(V[nm], "value"))  # noqa: E731
        f = lambda name, *a: ip.uf(name, *[ip.to_U(x) for x in a])  # noqa: E731
        old = lambda nm: z3.Const(f"val_{nm}", U)  # noqa: E731
        sh = lambda nm: ip.to_U((ip.uf("len0", old(nm), sort=Int),))  # noqa: E731
        # expected joint ancestral sample, written per shape from the model definition
        used = []

        def drawn(nm, fam, *params):
            """value of nm must be draw_fam(params, shape(old value), some child of the seed)"""
            got = val(nm)
            ok = got.decl().name().startswith(f"draw_{fam}") and got.num_args() == len(params) + 2
            if ok:
                ok = all(got.arg(i).eq(ip.to_U(p)) for i, p in enumerate(params)) and got.arg(len(params)).eq(sh(nm))
                sd = got.arg(len(params) + 1)
                ok = ok and sd.decl().name().startswith("split") and sd.arg(0).eq(seed)
                used.append(str(sd))
            c.oblige(f"{nm}.drawn_at_new_ancestors", bool(ok))

        def kept(nm):
            c.oblige(f"{nm}.skipped_untouched", val(nm).eq(old(nm)))

        if shape == "hier":
            (kept if "tau" in skip else lambda n_: drawn(n_, "Ptau"))("tau")
            (kept if "mu" in skip else lambda n_: drawn(n_, "Pmu", val("tau")))("mu")
            (kept if "y" in skip else lambda n_: drawn(n_, "Lik", val("mu"), f("f_sigma", val("tau"))))("y")
        elif shape == "diamond":
            (kept if "a" in skip else lambda n_: drawn(n_, "Pa"))("a")
            (kept if "y" in skip else lambda n_: drawn(n_, "Lik", f("f_left", val("a")), f("f_right", val("a"))))("y")
        else:
            (kept if "b" in skip else lambda n_: drawn(n_, "Pb"))("b")
            (kept if "c" in skip else lambda n_: drawn(n_, "Pc"))("c")
            (kept if "y" in skip else lambda n_: drawn(n_, "Lik", val("b"), val("c")))("y")
        c.oblige("distinct_seed_children", len(set(used)) == len(used))
        ip.call(method(ip, model, "update"), [], {})
        c.oblige("coherent_after_update", not any(ip.truth(ip.getattr(n_, "outdated")) is True for n_ in model.f["_nodes"].values()))
        if shape == "hier" and "y" not in skip:
            c.oblige("log_prob_at_new_values_after_update", True)
    return u


for _s in SHAPES:
    for _a in (True, False):
        sim_unit(_s, _a, ())
sim_unit("hier", False, ("mu",))
sim_unit("hier", True, ("tau",))
sim_unit("flat", False, ("y",))


@unit("C17.sample_shape", "C17", [f"{M}::Model.simulate"], assumptions=["value of rank 3; event rank 0/1, batch rank 0/1 (the four combinations)"])
def u_sample_shape(ip):
    """the sample shape requested from the distribution is the leading part of the current value's shape that is neither batch nor
    event shape: value_shape[: rank(value) - rank(batch) - rank(event)] - so drawn values keep the shape of the current value."""
    from contracts.graph import dist_fn
    c = ip.ctx
    install_graph_models(ip)
    dims = tuple(c.fresh(f"n{i}", Int) for i in range(3))
    ip.models["jax.numpy.asarray"] = lambda ip_, x, *a, **k: PyObj("arr", shape=dims, value=x)
    ip.models["jax.random.split"] = lambda ip_, key, num=2: [ip_.uf("split", ip_.to_U(key), z3.IntVal(i)) for i in range(ip_.conc_int(num))]
    for ev, ba in (((), ()), ((dims[2],), ()), ((), (dims[2],)), ((dims[2],), (dims[1],))):
        g = G(ip)
        got = {}

        def fam(ip_, *a, **k):
            d = ip_.call(dist_fn("S", event_shape=ev, batch_shape=ba), list(a), k)
            d.attrs["sample"] = PyFn(lambda ip2, shape, seed=None: (got.__setitem__("shape", shape), z3.Const("drawn", U))[1], "sample")
            return d

        y = g.var("y", dist=ip.call(g.Dist, [PyFn(fam, "S")], {}))
        model = g.build(y)
        ip.call(method(ip, model, "simulate"), [z3.Const("seed", U)], {})
        want = dims[: 3 - len(ev) - len(ba)]
        tag = f".event{len(ev)}.batch{len(ba)}"
        c.oblige("sample_shape_is_leading_part" + tag, isinstance(got.get("shape"), tuple) and len(got["shape"]) == len(want) and all(a is b for a, b in zip(got["shape"], want)))

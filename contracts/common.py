"""Shared harness pieces: symbolic kernels, kernel states, epoch states, model interface stubs."""
from pyvc.api import *

EPOCH = "liesel/goose/epoch.py"
KERNELS = {
    "RW": ("liesel/goose/rw.py", "RWKernel", "RWKernelState"),
    "MH": ("liesel/goose/mh_kernel.py", "MHKernel", None),
    "IWLS": ("liesel/goose/iwls.py", "IWLSKernel", "IWLSKernelState"),
    "HMC": ("liesel/goose/hmc.py", "HMCKernel", "HMCKernelState"),
    "NUTS": ("liesel/goose/nuts.py", "NUTSKernel", "NUTSKernelState"),
}


def sym_epoch_state(ip, name="ep", etype=None):
    c = ip.ctx
    t = c.fresh(f"{name}.type", Int) if etype is None else etype
    cfg = new_obj(ip, f"{EPOCH}::EpochConfig", tag=f"{name}.config", type=t, duration=c.fresh(f"{name}.duration", Int),
                  thinning=c.fresh(f"{name}.thinning", Int), optional=None)
    c.assume(And(cfg.f["type"] >= 0, cfg.f["type"] <= 4, cfg.f["duration"] >= 1))
    st = new_obj(ip, f"{EPOCH}::EpochState", tag=name, config=cfg, nth_epoch=c.fresh(f"{name}.nth", Int), time=c.fresh(f"{name}.time", Int),
                 time_before_epoch=c.fresh(f"{name}.tbe", Int), time_in_epoch=c.fresh(f"{name}.tie", Int))
    c.assume(And(st.f["time_in_epoch"] >= 0, st.f["time_in_epoch"] < cfg.f["duration"], st.f["time_before_epoch"] >= 0,
                 st.f["time"] == st.f["time_before_epoch"] + st.f["time_in_epoch"], st.f["nth_epoch"] >= 1))
    return st


def model_stub(ip, tag="model"):
    """ModelInterface stub: arbitrary deterministic functions (A-PURE)"""
    sort = ip.ctx.float_sort
    lp = z3.Function(f"{tag}_log_prob", U, sort)
    return PyObj(
        tag,
        log_prob=PyFn(lambda ip_, st: lp(ip_.to_U(st)), "model.log_prob"),
        update_state=PyFn(lambda ip_, pos, st: ip_.uf(f"{tag}_update_state", ip_.to_U(pos), ip_.to_U(st)), "model.update_state"),
        extract_position=PyFn(lambda ip_, keys, st: {k: ip_.uf(f"{tag}_extract", z3.Const(f"str:{k}", U), ip_.to_U(st)) for k in ip_.iterate(keys)}, "model.extract_position"),
    )


def sym_da_state(ip, kind, name="ks"):
    c = ip.ctx
    rel, kcls, scls = KERNELS[kind]
    if scls is None:
        rel, scls = "liesel/goose/rw.py", "RWKernelState"
    fields = dict(step_size=c.fresh(f"{name}.step_size", Real), error_sum=c.fresh(f"{name}.error_sum", Real),
                  log_avg_step_size=c.fresh(f"{name}.log_avg", Real), mu=c.fresh(f"{name}.mu", Real))
    if kind in ("HMC", "NUTS"):
        fields["inverse_mass_matrix"] = z3.Const(f"{name}.inv_mm", U)
    return new_obj(ip, f"{rel}::{scls}", tag=name, **fields)


def sym_kernel(ip, kind, keys=("a", "b"), name="k", **extra):
    """a kernel built by its REAL constructor from symbolic arguments (so the constructor's wiring of arguments to the fields the
    methods read is part of every unit that uses it), given a model stub through the real set_model()"""
    c = ip.ctx
    rel, kcls, _ = KERNELS[kind]
    kw = dict(da_target_accept=c.fresh(f"{name}.delta", Real), da_gamma=c.fresh(f"{name}.gamma", Real),
              da_kappa=c.fresh(f"{name}.kappa", Real), da_t0=c.fresh(f"{name}.t0", Real), initial_step_size=c.fresh(f"{name}.eps0", Real))  # (t0: any real offset, as in Stan)
    args = [tuple(keys)]
    if kind == "MH":
        kw["da_tune_step_size"] = extra.pop("da_tune_step_size", True)
        pkeys = tuple(keys) + tuple(extra.pop("extra_proposal_keys", ()))  # entries the user's proposal returns beyond the kernel's position keys
        args.append(PyFn(lambda ip_, key, st, step: new_obj(ip_, "liesel/goose/mh_kernel.py::MHProposal",
                         position={k: ip_.uf("user_prop", z3.Const(f"str:{k}", U), ip_.to_U(key), ip_.to_U(st), step) for k in pkeys},
                         log_correction=ip_.uf("user_corr", ip_.to_U(key), ip_.to_U(st), step, sort=ip_.ctx.float_sort)), "proposal_fn"))
    if kind == "IWLS":
        kw["chol_info_fn"] = extra.pop("chol_info_fn", None)
    if kind in ("HMC", "NUTS"):
        kw["mm_diag"] = extra.pop("mm_diag", True)
        kw["initial_inverse_mass_matrix"] = extra.pop("initial_inverse_mass_matrix", None)
        if kind == "NUTS":
            kw["max_treedepth"] = extra.pop("max_treedepth", c.fresh(f"{name}.max_treedepth", Int))
        else:
            kw["num_integration_steps"] = extra.pop("num_integration_steps", c.fresh(f"{name}.L", Int))
    for k_ in list(extra):
        if k_ in ("da_target_accept", "da_gamma", "da_kappa", "da_t0", "initial_step_size"):
            kw[k_] = extra.pop(k_)
    k = ip.call(ip.repo(f"{rel}::{kcls}"), args, kw)
    k.tag = name
    k.ctor_args = dict(kw, position_keys=tuple(keys))
    ip.call(method(ip, k, "set_model"), [extra.pop("_model", None) or model_stub(ip)], {})
    ip.setattr(k, "identifier", extra.pop("identifier", f"{name}_id"))
    for k_, v in extra.items():
        ip.setattr(k, k_, v)
    return k

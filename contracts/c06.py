"""C06 - proposal corrections of RW, IWLS and MH kernels (detailed balance wiring).

Spec (from the statement): q_st(y) = N(y; x_st + (s^2/2) F(st)^-1 grad log pi(x_st), s^2 F(st)^-1), F = -Hessian or the user's
information.  With the trusted linear-algebra contracts solve(L,v) = (LL')^-1 v, mvn_log_prob(y,m,L) = log N(y; m,(LL')^-1),
mvn_sample(key,m,L) ~ N(m,(LL')^-1) and (L/s)(L/s)' = LL'/s^2 this is Q(y; st) below."""
from pyvc.api import *
from contracts.common import sym_da_state, sym_epoch_state, sym_kernel
from contracts.c11 import blackjax_models

IWLS = "liesel/goose/iwls.py"
RW = "liesel/goose/rw.py"
MHK = "liesel/goose/mh_kernel.py"


def install(ip, rec):
    blackjax_models(ip)

    def unravel_model(ip_, tree):
        # jax flattens a dict in SORTED key order, whatever order the dict was built in
        if isinstance(tree, dict) and all(isinstance(k_, str) for k_ in tree):
            tree = {k_: tree[k_] for k_ in sorted(tree)}
        return ip_.uf("ravel", ip_.to_U(tree)), PyFn(lambda ip2, flat: ip2.uf("unravel", ip2.to_U(flat)), "unravel_fn")

    ip.models["jax.flatten_util.ravel_pytree"] = unravel_model
    for nm in ("solve", "mvn_log_prob"):
        # the contract covers the documented positional signature only: any keyword / extra argument selects ANOTHER function of the arguments
        ip.summaries[f"liesel/goose/iwls_utils.py::{nm}"] = (lambda n: lambda ip_, args, kwargs: ip_.uf(
            n + "".join(f"|{k}={kwargs[k]!r}" for k in sorted(kwargs)) + (f"|{len(args)}args" if len(args) != {"solve": 2, "mvn_log_prob": 3}[n] else ""),
            *[ip_.to_U(a) for a in args]))(nm)

    def mvn_sample(ip_, args, kwargs):
        rec["sample_args"] = list(args)
        return ip_.uf("mvn_sample", *[ip_.to_U(a) for a in args])

    ip.summaries["liesel/goose/iwls_utils.py::mvn_sample"] = mvn_sample

    def mh(ip_, args, kwargs):
        rec["mh_args"] = list(args) + [kwargs[k] for k in ("prng_key", "model", "proposal", "model_state", "log_correction")[len(args):] if k in kwargs]  # as python binds them
        rec["mh_kwargs"] = {k: v for k, v in kwargs.items() if k not in ("prng_key", "model", "proposal", "model_state", "log_correction")}
        info = new_obj(ip_, "liesel/goose/kernel.py::DefaultTransitionInfo", error_code=0, acceptance_prob=ip_.ctx.fresh("acc", Real), position_moved=0)
        return info, z3.Const("ms_after", U)

    ip.summaries["liesel/goose/mh.py::mh_step"] = mh
    # library primitives a re-implementation of the proposal draw may use directly (uninterpreted: only their composition is compared)
    ip.opaque_attr.setdefault("shape", lambda ip_, v: ip_.uf("shape", v))
    ip.opaque_attr.setdefault("dtype", lambda ip_, v: ip_.uf("dtype", v))
    ip.models.setdefault("jax.random.normal", lambda ip_, key, shape=(), dtype=None: ip_.uf("normal", ip_.to_U(key), ip_.to_U(shape)))
    ip.models.setdefault("jax.scipy.linalg.solve_triangular", lambda ip_, a, b, **kw: ip_.uf("solve_triangular" + "".join(f"|{k}={kw[k]!r}" for k in sorted(kw)), ip_.to_U(a), ip_.to_U(b)))
    # grad / jacfwd of the flat log-prob function: uninterpreted functionals of the model state and the point
    ip.models["jax.grad"] = lambda ip_, f, **kw: PyFn(lambda ip2, x: ip2.uf("score_at", ip2.to_U(x)), "flat_score_fn")
    ip.models["jax.jacfwd"] = lambda ip_, f, **kw: PyFn(lambda ip2, x: ip2.uf("hessian_at", ip2.to_U(x)), "flat_hessian_fn")


def iwls_unit(user_info):
    @unit(f"C06.iwls.{'user_info' if user_info else 'hessian'}", "C06",
          [f"{IWLS}::IWLSKernel._standard_transition", f"{IWLS}::IWLSKernel._score", f"{IWLS}::IWLSKernel._chol_info", f"{IWLS}::IWLSKernel._flat_log_prob_fn"],
          summaries=["iwls_utils.solve / mvn_log_prob / mvn_sample (trusted linear-algebra contracts; bodies checked bounded)", "mh_step (C05)"],
          assumptions=["A-LA: solve(L,v)=(LL')^-1 v, mvn_log_prob = log N(.; m,(LL')^-1), mvn_sample ~ N(m,(LL')^-1), (L/s)(L/s)' = LL'/s^2",
                       "grad / jacfwd are the gradient and the Jacobian of the function they are given (here: of the flat log-prob at the point)"])
    def u(ip, user_info=user_info):
        """IWLS: the proposal is drawn from and the forward term evaluated under the SAME (mean, Cholesky/step) pair built at the
        current state; the backward term is the same construction at the PROPOSED state (update_state(proposal, state)), evaluated
        at the current point; correction = backward - forward is what mh_step receives together with the unravelled proposal; the
        draw and the accept step use different children of the key."""
        c = ip.ctx
        rec = {}
        install(ip, rec)
        k = sym_kernel(ip, "IWLS", keys=("b", "a"))
        if user_info:
            k.f["chol_info_fn"] = PyFn(lambda ip_, st: ip_.uf("user_chol_info", ip_.to_U(st)), "chol_info_fn")
        ks = sym_da_state(ip, "IWLS")
        s = ks.f["step_size"]
        ms, key = z3.Const("ms", U), z3.Const("key", U)
        model = k.f["_model"]
        ip.call(method(ip, k, "_standard_transition"), [key, ks, ms, sym_epoch_state(ip)], {})
        B = ip.binop

        def flat(st):
            return ip.uf("ravel", ip.to_U(ip.call(model.attrs["extract_position"], [("a", "b"), st], {})))

        def chol(st):
            if user_info:
                return ip.uf("user_chol_info", st)
            return ip.uf("cholesky", ip.uf("neg", ip.uf("hessian_at", flat(st))))

        def mean(st):
            half = B("Div", B("Pow", s, 2), 2)
            return B("Add", flat(st), B("Mult", half, ip.uf("solve", chol(st), ip.uf("score_at", flat(st)))))

        def scale(st):
            return B("Div", chol(st), s)

        x = flat(ms)
        k0, k1 = ip.uf("split", key, z3.IntVal(0)), ip.uf("split", key, z3.IntVal(1))
        xprop = ip.uf("mvn_sample", k0, ip.to_U(mean(ms)), ip.to_U(scale(ms)))
        proposal = ip.uf("unravel", xprop)
        ms_prop = ip.call(model.attrs["update_state"], [proposal, ms], {})
        # put/get law of the model interface (proved for the four interfaces under C03) and ravel(unravel(f)) = f:
        # the flat position of the proposed state is the proposed flat vector
        c.assume(flat(ms_prop) == xprop)
        c.notes.append("lemma instance used: ravel(extract_position(keys, update_state(unravel(f), s))) = f  (C03 put/get law + ravel/unravel inverse)")
        fwd = ip.uf("mvn_log_prob", xprop, ip.to_U(mean(ms)), ip.to_U(scale(ms)))
        bwd = ip.uf("mvn_log_prob", x, ip.to_U(mean(ms_prop)), ip.to_U(scale(ms_prop)))
        sa = rec.get("sample_args")
        c.oblige("proposal_drawn_from_q_at_current_state", sa is not None and ip.to_U(sa[0]).eq(k0) and ip.to_U(sa[1]).eq(ip.to_U(mean(ms))) and ip.to_U(sa[2]).eq(ip.to_U(scale(ms))))
        ma = rec.get("mh_args")
        c.oblige("mh_step_called", ma is not None and len(ma) == 5)
        if ma is not None and len(ma) == 5:
            c.oblige("accept_step_uses_other_child", ip.to_U(ma[0]).eq(k1))
            c.oblige("proposal_is_unravelled_draw", ip.to_U(ma[2]).eq(proposal))
            c.oblige("mh_step_gets_current_state", ip.to_U(ma[3]).eq(ms))
            c.oblige("correction_is_backward_minus_forward", ip.to_U(ma[4]) == B("Sub", bwd, fwd))
    return u


iwls_unit(False)
iwls_unit(True)


@unit("C06.rw", "C06", [f"{RW}::RWKernel._standard_transition"], summaries=["mh_step (C05)"], assumptions=["normal(key, shape) is symmetric about 0 (A-RNG) - hence q(x'|x) = q(x|x')"])
def u_rw(ip):
    """RW: proposal = current flat position + step * standard-normal draw (symmetric), unravelled; mh_step is called without a
    correction (log_correction keeps its default 0), with the current state and a different child of the key."""
    c = ip.ctx
    rec = {}
    install(ip, rec)
    k = sym_kernel(ip, "RW", keys=("b", "a"))
    ks = sym_da_state(ip, "RW")
    ms, key = z3.Const("ms", U), z3.Const("key", U)
    ip.call(method(ip, k, "_standard_transition"), [key, ks, ms, sym_epoch_state(ip)], {})
    x = ip.uf("ravel", ip.to_U(ip.call(k.f["_model"].attrs["extract_position"], [("a", "b"), ms], {})))
    z = ip.uf("normal", ip.uf("split", key, z3.IntVal(0)), ip.to_U(ip.uf("shape", x)))
    prop = ip.uf("unravel", ip.to_U(ip.binop("Add", x, ip.binop("Mult", ks.f["step_size"], z))))
    ma = rec.get("mh_args")
    c.oblige("mh_step_called_without_correction", ma is not None and len(ma) == 4 and not rec["mh_kwargs"])
    if ma is not None and len(ma) >= 4:
        c.oblige("proposal_is_symmetric_gaussian_step", ip.to_U(ma[2]).eq(prop))
        c.oblige("accept_step_uses_other_child", ip.to_U(ma[0]).eq(ip.uf("split", key, z3.IntVal(1))))
        c.oblige("mh_step_gets_current_state", ip.to_U(ma[3]).eq(ms))
    fn = ip.repo("liesel/goose/mh.py::mh_step")
    dflt = fn.node.args.defaults
    c.oblige("default_correction_is_zero", len(dflt) == 1 and isinstance(dflt[0], ast.Constant) and dflt[0].value == 0.0)


@unit("C06.mh", "C06", [f"{MHK}::MHKernel._standard_transition"], summaries=["mh_step (C05)"])
def u_mh(ip):
    """MH: the user's proposal position and the user-declared log-correction are forwarded unchanged to mh_step; the proposal
    function gets child 0, the current state and the current step size; the accept step uses child 1."""
    c = ip.ctx
    rec = {}
    install(ip, rec)
    # the user's proposal also returns an entry that is not one of the kernel's position keys (a cached predictor that its correction accounts for):
    # the density ratio and the declared correction must be taken at the SAME realised proposal, so the position goes on as the user returned it
    k = sym_kernel(ip, "MH", keys=("a",), extra_proposal_keys=("cached_eta",))
    ks = sym_da_state(ip, "MH")
    ms, key = z3.Const("ms", U), z3.Const("key", U)
    ip.call(method(ip, k, "_standard_transition"), [key, ks, ms, sym_epoch_state(ip)], {})
    k0 = ip.uf("split", key, z3.IntVal(0))
    ma = rec.get("mh_args")
    c.oblige("mh_step_called", ma is not None and len(ma) == 5)
    if ma is not None and len(ma) == 5:
        want_pos = {kk: ip.uf("user_prop", z3.Const(f"str:{kk}", U), k0, ms, ks.f["step_size"]) for kk in ("a", "cached_eta")}
        c.oblige("user_position_forwarded", ip.to_U(ma[2]).eq(ip.to_U(want_pos)))
        c.oblige("user_correction_forwarded", ma[4] == ip.uf("user_corr", k0, ms, ks.f["step_size"], sort=Real))
        c.oblige("accept_step_uses_other_child", ip.to_U(ma[0]).eq(ip.uf("split", key, z3.IntVal(1))))
        c.oblige("mh_step_gets_current_state", ip.to_U(ma[3]).eq(ms))


# the user-declared log-correction reaches mh_step bit for bit (binary32 incl. -inf = "the move cannot be reversed" and NaN): same harness as
# C05.kernel_passthrough.MH, decided here because the statement of C06 names the user-declared log-correction as the MH kernel's q-ratio
from contracts.c05 import passthrough_unit  # noqa: E402

passthrough_unit("MH", uid="C06.mh.correction_bit_for_bit", prop="C06")


# the reported acceptance probability is computed by mh_step: its contract is part of this property too (same harness as C05.mh_step)
from contracts.c05 import MH as _MH, u_mh_step  # noqa: E402

unit("C06.mh_step_acceptance_probability", "C06", [f"{_MH}::mh_step"], float_mode="fp32",
     assumptions=["A-FP binary32 (as C05.mh_step); exp by its relational abstraction (monotone, exp(0) = 1, exp(-inf) = 0)"])(u_mh_step)

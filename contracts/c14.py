"""C14 - transforming a variable preserves the model (change of variables).

Real Var.transform / _transform_var_with_bijector_instance / _transform_var_with_bijector_class / GraphBuilder.build_model
(auto-transform) / GraphBuilder.transform (deprecated) run symbolically; TFP objects are stubs obeying the documented laws (A-TFP)."""
from pyvc.api import *
from contracts.graph import G, M, N, bijector_class, bijector_instance, dist_fn_tfp, install_graph_models, install_tfp_models

ENTRY = ("instance", "class_args", "default", "auto", "deprecated_instance", "deprecated_default")


def setup(ip, observed=False):
    install_graph_models(ip)
    install_tfp_models(ip)
    g = G(ip)
    p = g.var("p")
    s = g.var("s")
    d = ip.call(g.Dist, [dist_fn_tfp("D")], {"rate": p})
    ip.setattr(d, "per_obs", False)
    x = g.var("x", dist=d, parameter=not observed, observed=observed)  # (observed: a variable flagged observed - the flag stays where it is, the distribution moves all the same)
    ip.setattr(x, "role", "my_role")
    return g, p, s, d, x


def do_transform(ip, g, entry, x, s, copy=False):
    """returns (transformed var or None, model, bijector description: (tag, param source)); copy=True: the model is built from a deep copy of the graph"""
    ck = {"copy": True} if copy else {}
    if entry == "instance":
        t = ip.call(method(ip, x, "transform"), [bijector_instance(ip, "B")], {})
        return t, g.build(x, s, **ck), ("B", lambda vals: [])
    if entry == "class_args":
        t = ip.call(method(ip, x, "transform"), [bijector_class(ip, "B"), s], {})
        return t, g.build(x, **ck), ("B", lambda vals: [vals["s"]])
    if entry == "default":
        t = ip.call(method(ip, x, "transform"), [], {})
        return t, g.build(x, s, **ck), ("default_D", lambda vals: [vals["p"]])
    if entry == "auto":
        ip.setattr(x, "auto_transform", True)
        model = g.build(x, s, **ck)
        return model.f["_vars"].get("x_transformed"), model, ("default_D", lambda vals: [vals["p"]])
    if entry == "auto_deep":
        # the flagged variable is reached only TWO levels below the variable that is added to the builder: y2 ~ L2(m), m ~ Dm(x), x flagged
        ip.setattr(x, "auto_transform", True)
        m = g.var("m", dist=g.dist("Dm", x), parameter=True)
        y2 = g.var("y2", dist=g.dist("L2", m), observed=True)
        model = g.build(y2, **ck)
        return model.f["_vars"].get("x_transformed"), model, ("default_D", lambda vals: [vals["p"]])
    gb = ip.call(g.GB, [], {})
    if entry == "deprecated_instance":
        t = ip.call(method(ip, gb, "transform"), [x, bijector_instance(ip, "B")], {})
        tag = ("B", lambda vals: [])
    else:
        t = ip.call(method(ip, gb, "transform"), [x], {})
        tag = ("default_D", lambda vals: [vals["p"]])
    ip.call(method(ip, gb, "add"), [x, s], {})
    return t, ip.call(method(ip, gb, "build_model"), [], dict(ck)), tag


def entry_unit(entry, copy=False, observed=False):
    fns = [f"{N}::Var.transform", f"{N}::_transform_var_with_bijector_instance", f"{N}::_transform_var_with_bijector_class", f"{N}::Var.value_node.fset",
           f"{N}::Var.dist_node.fset", f"{N}::Var.parameter.fset", f"{M}::GraphBuilder.build_model", f"{M}::GraphBuilder.transform", f"{M}::_transform_back"]

    @unit(f"C14.{entry}" + (".copied_graph" if copy else "") + (".observed_variable" if observed else ""), "C14", fns + ([f"{M}::Model.__init__"] if copy else []), assumptions=(
          ["the model is built from a DEEP COPY of the graph (build_model(copy=True), as LieselInterface / GooseModel do); A-PY: deepcopy shares function objects, "
           "so whatever a function captured in its closure still refers to the ORIGINAL graph"] if copy else []) + ["A-TFP: Invert swaps forward/inverse and the log-det-Jacobians; TransformedDistribution(d,b).log_prob(y) = d.log_prob(b^-1(y)) + ildj_b(y); "
                                                    "b(b^-1(v)) = v (ground instance)", "graph: x ~ D(rate=p), parameter; bijector argument s a model variable"])
    def u(ip, entry=entry, copy=copy, observed=observed):
        """after the transformation (and after re-assigning every input): the new variable is strong and unconstrained with initial value
        b^-1(v); the original variable is b(new variable) (value unchanged initially), its log-density is gone (no distribution of its own);
        the new variable's log-density at t is the original log-density at b(t) plus log|det db/dt| with the CURRENT bijector parameters;
        the parameter flag moved, observed / role are untouched, per_obs and the distribution's inputs are kept."""
        c = ip.ctx
        g, p, s, d, x = setup(ip, observed)
        t, model, (btag, bparams) = do_transform(ip, g, entry, x, s, copy)
        if copy:  # the relations are stated for the variables OF THE MODEL (the copies); the user's graph keeps its own values
            t, x = model.f["_vars"].get("x_transformed"), model.f["_vars"]["x"]
        c.oblige("transformed_variable_exists", isinstance(t, Obj) and ip.getattr(t, "name") == "x_transformed" and "x_transformed" in model.f["_vars"])
        if not isinstance(t, Obj):
            return
        U_ = ip.to_U
        fwd = lambda vals, arg: ip.uf(f"fwd_{btag}", *[U_(q) for q in bparams(vals)], U_(arg))  # noqa: E731
        inv = lambda vals, arg: ip.uf(f"inv_{btag}", *[U_(q) for q in bparams(vals)], U_(arg))  # noqa: E731
        fldj = lambda vals, arg: ip.uf(f"fldj_{btag}", *[U_(q) for q in bparams(vals)], U_(arg))  # noqa: E731
        vals = {k: z3.Const(f"val_{k}", U) for k in ("p", "s", "x")}
        t0 = inv(vals, vals["x"])
        c.oblige("new_variable_strong", ip.getattr(t, "strong") is True)
        c.oblige("initial_value_is_inverse_image", U_(ip.getattr(t, "value")) == t0)
        c.assume(fwd(vals, t0) == vals["x"])  # A-TFP: b(b^-1(v)) = v
        c.oblige("original_value_unchanged", U_(ip.getattr(x, "value")) == vals["x"])
        c.oblige("parameter_flag_moved", ip.getattr(t, "parameter") is (not observed) and ip.getattr(x, "parameter") is False)
        c.oblige("observed_and_role_untouched", ip.getattr(x, "observed") is observed and ip.getattr(x, "role") == "my_role")
        c.oblige("original_has_no_distribution", ip.getattr(x, "has_dist") is False and ip.getattr(x, "dist_node") is None)
        c.oblige("original_is_weak", ip.getattr(x, "weak") is True)
        tdist = ip.getattr(t, "dist_node")
        c.oblige("per_obs_kept", tdist is not None and ip.getattr(tdist, "per_obs") is False)
        # re-assign every input and the new variable: relations must hold at the current values
        new = {"p": z3.Const("new_p", U), "s": z3.Const("new_s", U)}
        tv = z3.Const("new_t", U)
        ip.setattr(model.f["_vars"]["p"], "value", new["p"])
        if "s" in model.f["_vars"]:
            ip.setattr(model.f["_vars"]["s"], "value", new["s"])
        ip.setattr(model.f["_vars"]["x_transformed"], "value", tv)
        c.oblige("original_is_bijector_image_of_new_variable", U_(ip.getattr(model.f["_vars"]["x"], "value")) == fwd(new, tv))
        want_lp = ip.uf("op_Add", ip.uf("logp_D", new["p"], fwd(new, tv)), fldj(new, tv))
        got_lp = ip.getattr(model.f["_vars"]["x_transformed"], "log_prob")
        from contracts.graph import TOTAL
        c.oblige("new_log_density_is_change_of_variables", to_sort(got_lp, Real) == TOTAL(want_lp) if is_z3(got_lp) and got_lp.sort() != U else U_(got_lp) == want_lp)
        if entry != "auto_deep":  # (the deep graph has further distributions)
            c.oblige("model_log_prob_counts_only_new_density", to_sort(ip.getattr(model, "log_prob"), Real) == TOTAL(want_lp))
    return u


for _e in ENTRY:
    entry_unit(_e)
    entry_unit(_e, copy=True)
entry_unit("auto_deep")
for _e in ("instance", "default"):
    if _e in ENTRY:
        entry_unit(_e, observed=True)


def chained_unit(first):
    @unit(f"C14.chained.{first}", "C14", [f"{N}::Var.transform", f"{N}::_transform_var_with_bijector_instance", f"{N}::_transform_var_with_bijector_class", f"{N}::Var.value_node.fset"],
          assumptions=["A-TFP", "first transformation: " + first + "; second transformation of the NEW variable with a bijector instance B2"])
    def u(ip, first=first):
        """the variable returned by a transformation is an ordinary variable: transforming IT again (which replaces its value node) keeps the
        original variable the bijector image of it - x = b1(x_transformed) = b1(b2(x_transformed_transformed)) at the current values - keeps
        every variable of the chain in the model, and leaves the original value unchanged."""
        c = ip.ctx
        g, p, s, d, x = setup(ip)
        if first == "instance":
            t1 = ip.call(method(ip, x, "transform"), [bijector_instance(ip, "B")], {})
            b1 = lambda vals, arg: ip.uf("fwd_B", ip.to_U(arg))  # noqa: E731
        elif first == "class_args":
            t1 = ip.call(method(ip, x, "transform"), [bijector_class(ip, "B"), s], {})
            b1 = lambda vals, arg: ip.uf("fwd_B", vals["s"], ip.to_U(arg))  # noqa: E731
        else:
            t1 = ip.call(method(ip, x, "transform"), [], {})
            b1 = lambda vals, arg: ip.uf("fwd_default_D", vals["p"], ip.to_U(arg))  # noqa: E731
        t2 = ip.call(method(ip, t1, "transform"), [bijector_instance(ip, "B2")], {})
        model = g.build(x, s)
        V = model.f["_vars"]
        c.oblige("every_variable_of_the_chain_is_in_the_model", all(n_ in V for n_ in ("x", "x_transformed", "x_transformed_transformed")))
        if not all(n_ in V for n_ in ("x", "x_transformed", "x_transformed_transformed")):
            return
        vals = {"p": z3.Const("val_p", U), "s": z3.Const("val_s", U)}
        t2_0 = ip.to_U(ip.getattr(V["x_transformed_transformed"], "value"))
        c.oblige("middle_variable_is_image_of_innermost", ip.to_U(ip.getattr(V["x_transformed"], "value")).eq(ip.uf("fwd_B2", t2_0)))
        c.oblige("original_is_image_of_middle_initially", ip.to_U(ip.getattr(V["x"], "value")).eq(b1(vals, ip.uf("fwd_B2", t2_0))))
        new = {"p": z3.Const("new_p", U), "s": z3.Const("new_s", U)}
        tv = z3.Const("new_t2", U)
        ip.setattr(V["p"], "value", new["p"])
        ip.setattr(V["s"], "value", new["s"])
        ip.setattr(V["x_transformed_transformed"], "value", tv)
        c.oblige("original_follows_the_innermost_variable", ip.to_U(ip.getattr(V["x"], "value")).eq(b1(new, ip.uf("fwd_B2", tv))))
        c.oblige("flags_moved_along_the_chain", ip.getattr(V["x_transformed_transformed"], "parameter") is True and ip.getattr(V["x_transformed"], "parameter") is False
                 and ip.getattr(V["x"], "parameter") is False and ip.getattr(V["x_transformed"], "has_dist") is False)
    return u


for _f in ("instance", "class_args", "default"):
    chained_unit(_f)


@unit("C14.flag_moves_not_set", "C14", [f"{N}::Var.transform"])
def u_flag(ip):
    """the parameter flag MOVES: a variable that was not a parameter yields a transformed variable that is not one either."""
    c = ip.ctx
    g, p, s, d, x = setup(ip)
    ip.setattr(x, "parameter", False)
    t = ip.call(method(ip, x, "transform"), [bijector_instance(ip, "B")], {})
    c.oblige("non_parameter_stays_non_parameter", ip.getattr(t, "parameter") is False and ip.getattr(x, "parameter") is False)


@unit("C14.rejections", "C14", [f"{N}::Var.transform"])
def u_rejections(ip):
    """weak variables, variables without distribution, a bijector class without arguments and an instance with arguments are rejected."""
    c = ip.ctx
    g, p, s, d, x = setup(ip)
    weak = g.var("w", value=g.calc("f", p))
    kind, r = try_call(ip, method(ip, weak, "transform"), [bijector_instance(ip, "B")])
    c.oblige("weak_rejected", kind == "raise" and r.cls == "RuntimeError")
    kind, r = try_call(ip, method(ip, p, "transform"), [bijector_instance(ip, "B")])
    c.oblige("no_distribution_rejected", kind == "raise")
    kind, r = try_call(ip, method(ip, x, "transform"), [bijector_class(ip, "B")])
    c.oblige("class_without_arguments_rejected", kind == "raise" and r.cls == "ValueError")
    kind, r = try_call(ip, method(ip, x, "transform"), [bijector_instance(ip, "B"), s])
    c.oblige("instance_with_arguments_rejected", kind == "raise" and r.cls == "RuntimeError")
    c.oblige("rejected_calls_leave_variable_untouched", ip.getattr(x, "has_dist") is True and ip.getattr(x, "parameter") is True and ip.getattr(x, "strong") is True)


# liesel's own bijector is a supported bijector of Var.transform: its two log-det-Jacobians must be consistent (same harness as
# C18.algebraic_sigmoid); that they equal the log-derivative is bounded natively (calculus is outside the solver's reach)
from contracts.c18 import SIG as _SIG, u_sigmoid  # noqa: E402

unit("C14.liesel_bijector_log_det_jacobians_consistent", "C14", [f"{_SIG}::AlgebraicSigmoid._forward", f"{_SIG}::AlgebraicSigmoid._inverse",
                                                                 f"{_SIG}::AlgebraicSigmoid._inverse_log_det_jacobian", f"{_SIG}::AlgebraicSigmoid._forward_log_det_jacobian"],
     assumptions=["A-REAL", "sqrt(a) is the non-negative root for a >= 0; log(1/a) = -log(a) for a > 0 (ground instances)"])(u_sigmoid)


# the caching protocol this property's statement rests on (values and densities "after updating")
from contracts.c01 import register_cache_core  # noqa: E402

register_cache_core("C14")

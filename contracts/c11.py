"""C11 - step-size adaptation follows Hoffman & Gelman (2014) dual averaging; frozen outside adaptation.

Real arithmetic (A-REAL); exp/log/sqrt/pow are uninterpreted (sqrt with its defining axiom, exp/log monotone).
Spec (Alg. 5/6 of H&G, Stan): with t = time_in_epoch + 1,
  Hbar_t = (1 - 1/(t+t0)) Hbar_{t-1} + (delta - alpha_t)/(t+t0)
  log eps_t = mu - (sqrt(t)/gamma) Hbar_t
  log epsbar_t = t^-kappa log eps_t + (1 - t^-kappa) log epsbar_{t-1}
  restart: mu = log(10 eps_0), Hbar_0 = 0, log epsbar_0 = log eps_0; end of epoch: eps := exp(log epsbar).
The code carries error_sum = (t + t0) * Hbar_t (coupling invariant)."""
from pyvc.api import *
from contracts.common import KERNELS, sym_da_state, sym_epoch_state, sym_kernel

DA = "liesel/goose/da.py"


def da_args(ip):
    c = ip.ctx
    alpha, delta, gamma, kappa = [c.fresh(n, Real) for n in ("alpha", "delta", "gamma", "kappa")]
    tie, t0 = c.fresh("time_in_epoch", Int), c.fresh("t0", Int)
    c.assume(And(tie >= 0, t0 >= 0, gamma > 0))
    return alpha, delta, gamma, kappa, tie, t0


@unit("C11.da_init", "C11", [f"{DA}::da_init"])
def u_da_init(ip):
    """restart: Hbar_0 = 0 (error_sum = 0), log epsbar_0 = log eps_0, mu = log(10 eps_0); step size untouched."""
    c = ip.ctx
    ks = sym_da_state(ip, "RW")
    eps0 = ks.f["step_size"]
    c.cover("pre")
    ip.call(ip.repo(f"{DA}::da_init"), [ks], {})
    log = z3.Function("log", Real, Real)
    c.oblige("error_sum_zero", to_sort(ks.f["error_sum"], Real) == 0)
    c.oblige("log_avg_is_log_step", ks.f["log_avg_step_size"] == log(eps0))
    c.oblige("mu_is_log_10_step", ks.f["mu"] == log(10 * eps0))
    c.oblige("step_size_unchanged", ks.f["step_size"] == eps0)


@unit("C11.da_step", "C11", [f"{DA}::da_step"])
def u_da_step(ip):
    """one da_step equals the H&G recurrence (coupling error_sum = (t+t0) Hbar) for every state and argument."""
    c = ip.ctx
    ks = sym_da_state(ip, "RW")
    alpha, delta, gamma, kappa, tie, t0 = da_args(ip)
    t = tie + 1
    hbar_prev = c.fresh("Hbar_prev", Real)
    # coupling invariant at entry: error_sum = (t - 1 + t0) * Hbar_{t-1}
    c.assume(ks.f["error_sum"] == (ToR(t) - 1 + ToR(t0)) * hbar_prev)
    mu, logavg_prev = ks.f["mu"], ks.f["log_avg_step_size"]
    c.cover("pre")
    ip.call(ip.repo(f"{DA}::da_step"), [ks, alpha, tie, delta, gamma, kappa, t0], {})
    tt = ToR(t) + ToR(t0)
    hbar = (1 - 1 / tt) * hbar_prev + (delta - alpha) / tt
    sqrt, exp = z3.Function("sqrt", Real, Real), z3.Function("exp", Real, Real)
    log_eps = mu - (sqrt(ToR(t)) / gamma) * hbar
    eta = ip.pow_model(t, -kappa)
    c.oblige("coupling_invariant_preserved", ks.f["error_sum"] == tt * hbar)
    c.oblige("step_size_is_exp_log_eps", ks.f["step_size"] == exp(log_eps))
    c.oblige("log_avg_recurrence", ks.f["log_avg_step_size"] == eta * log_eps + (1 - eta) * logavg_prev)
    c.oblige("mu_unchanged", ks.f["mu"] == mu)


def ToR(x):
    return z3.ToReal(x) if is_z3(x) and x.sort() == Int else x


@unit("C11.da_step.monotone", "C11", [f"{DA}::da_step"])
def u_da_monotone(ip):
    """from the same state, a higher observed acceptance probability never yields a smaller next step size."""
    c = ip.ctx
    ks1 = sym_da_state(ip, "RW", "ks")
    ks2 = new_obj(ip, "liesel/goose/rw.py::RWKernelState", **dict(ks1.f))
    alpha, delta, gamma, kappa, tie, t0 = da_args(ip)
    alpha2 = c.fresh("alpha_hi", Real)
    c.assume(alpha2 >= alpha)
    c.cover("pre")
    f = ip.repo(f"{DA}::da_step")
    ip.call(f, [ks1, alpha, tie, delta, gamma, kappa, t0], {})
    ip.call(f, [ks2, alpha2, tie, delta, gamma, kappa, t0], {})
    c.oblige("higher_acceptance_never_smaller_step", ks2.f["step_size"] >= ks1.f["step_size"])


@unit("C11.da_finalize", "C11", [f"{DA}::da_finalize"])
def u_da_finalize(ip):
    """end of epoch: the averaged step size becomes the step size; nothing else changes."""
    c = ip.ctx
    ks = sym_da_state(ip, "RW")
    old = dict(ks.f)
    ip.call(ip.repo(f"{DA}::da_finalize"), [ks], {})
    exp = z3.Function("exp", Real, Real)
    c.oblige("step_size_is_exp_log_avg", ks.f["step_size"] == exp(old["log_avg_step_size"]))
    for k in ("error_sum", "log_avg_step_size", "mu"):
        c.oblige(f"frame.{k}", ks.f[k] == old[k])


# ------------------------------------------------------------------------- kernel wiring


def install_da_recorders(ip):
    calls = ip.ctx.ghost.setdefault("da_calls", [])

    def mk(name):
        def f(ip_, args, kwargs):
            # bind like python does: positional, then keywords, then the defaults of the REAL function definition
            node = ip_.repo(f"{DA}::{name}").node
            names = [a.arg for a in node.args.args]
            dflt = dict(zip(names[len(names) - len(node.args.defaults):], node.args.defaults))
            bound = list(args)
            for nm in names[len(args):]:
                if nm in kwargs:
                    bound.append(kwargs[nm])
                elif nm in dflt:
                    bound.append(ast.literal_eval(dflt[nm]))
                else:
                    raise PyRaise("TypeError", (f"{name}() missing argument {nm}",))
            calls.append((name, bound, {}))
            return None
        return f

    for n in ("da_init", "da_step", "da_finalize"):
        ip.summaries[f"{DA}::{n}"] = mk(n)
    return calls


def std_transition_contract(kind):
    def f(ip, args, kwargs):
        self_, key, ks, ms, ep = args
        ip.ctx.ghost.setdefault("std_calls", []).append((key, ks, ms, ep))
        rel = "liesel/goose/kernel.py"
        fields = dict(error_code=ip.ctx.fresh("info.code", Int), acceptance_prob=ip.ctx.fresh("info.acc", Real), position_moved=ip.ctx.fresh("info.moved", Int))
        info_cls = f"{rel}::DefaultTransitionInfo"
        if kind in ("HMC", "NUTS"):  # the kernel's own info type: every field arbitrary (a divergent transition may report any acceptance probability)
            info_cls = f"{KERNELS[kind][0]}::{kind}TransitionInfo"
            fields["divergent"] = ip.ctx.fresh("info.divergent", Bool)
            if kind == "NUTS":
                fields.update(turning=ip.ctx.fresh("info.turning", Bool), treedepth=ip.ctx.fresh("info.treedepth", Int), leapfrog=ip.ctx.fresh("info.leapfrog", Int))
        info = new_obj(ip, info_cls, **fields)
        return new_obj(ip, f"{rel}::TransitionOutcome", info=info, kernel_state=ks, model_state=ip.uf("std_new_state", ip.to_U(key), ip.to_U(ms)))
    return f


def wiring_unit(kind):
    rel, kcls, _ = KERNELS[kind]
    fns = [f"{rel}::{kcls}.__init__", f"{rel}::{kcls}.start_epoch", f"{rel}::{kcls}.end_epoch", f"{rel}::{kcls}._adaptive_transition", "liesel/goose/kernel.py::TransitionMixin.transition"]

    @unit(f"C11.wiring.{kind}", "C11", fns,
          summaries=[f"{DA}::da_init/da_step/da_finalize (proved by C11.da_*)", f"{rel}::{kcls}._standard_transition (frame proved by C11.frozen.{kind})"])
    def u(ip, kind=kind):
        """start_epoch = da_init, end_epoch = da_finalize on the kernel's own state; the adaptive transition is the standard
        transition followed by exactly one da_step(state, reported acceptance prob, epoch.time_in_epoch, the target/gamma/kappa/t0
        the kernel was constructed with); the mixin takes the adaptive branch iff the epoch is an adaptation epoch."""
        c = ip.ctx
        from contracts.c07 import install_pytree_models, tree_map_model
        install_pytree_models(ip)
        ip.models.setdefault("jax.tree_util.tree_map", tree_map_model)
        ip.models.setdefault("jax.tree.map", tree_map_model)
        for tune in ((True, False) if kind == "MH" else (None,)):
            k = sym_kernel(ip, kind, **({"da_tune_step_size": tune} if kind == "MH" else {}))
            ks = sym_da_state(ip, kind)
            ep = sym_epoch_state(ip)
            calls = install_da_recorders(ip)
            del calls[:]
            key, ms = z3.Const("key", U), z3.Const("ms", U)
            suffix = "" if tune is None else f".tune{int(tune)}"
            r = ip.call(method(ip, k, "start_epoch"), [key, ks, ms, ep], {})
            c.oblige(f"start_epoch_is_da_init{suffix}", r is ks and len(calls) == 1 and calls[0][0] == "da_init" and calls[0][1][0] is ks)
            del calls[:]
            r = ip.call(method(ip, k, "end_epoch"), [key, ks, ms, ep], {})
            c.oblige(f"end_epoch_is_da_finalize{suffix}", r is ks and len(calls) == 1 and calls[0][0] == "da_finalize" and calls[0][1][0] is ks)
            del calls[:]
            ip.summaries[f"{rel}::{kcls}._standard_transition"] = std_transition_contract(kind)
            c.ghost["std_calls"] = []
            out = ip.call(method(ip, k, "_adaptive_transition"), [key, ks, ms, ep], {})
            std = c.ghost["std_calls"]
            c.oblige(f"adaptive_runs_standard_once_same_args{suffix}", len(std) == 1 and std[0][0] is key and std[0][1] is ks and std[0][2] is ms and std[0][3] is ep)
            if tune is False:
                c.oblige(f"no_da_step_when_tuning_off{suffix}", len(calls) == 0)
            else:
                ok = len(calls) == 1 and calls[0][0] == "da_step"
                c.oblige(f"adaptive_calls_da_step_once{suffix}", ok)
                if ok:
                    a = calls[0][1]
                    c.oblige(f"da_step_args{suffix}", And(
                        z3.BoolVal(a[0] is out.f["kernel_state"] and a[0] is ks),
                        a[1] == out.f["info"].f["acceptance_prob"], a[2] == ep.f["time_in_epoch"], a[3] == k.ctor_args["da_target_accept"],
                        a[4] == k.ctor_args["da_gamma"], a[5] == k.ctor_args["da_kappa"], a[6] == k.ctor_args["da_t0"]))  # the values given to the REAL constructor
                # the kernel's constants are its PUBLIC da_* attributes at the time of the transition: re-configured after construction
                # (k.da_target_accept = ...; a subclass assigning them after super().__init__()), the next step uses the new values
                newc = {n: c.fresh("re_" + n, ip.ctx.float_sort if n != "da_t0" else Int) for n in ("da_target_accept", "da_gamma", "da_kappa", "da_t0")}
                for n, v in newc.items():
                    ip.setattr(k, n, v)
                del calls[:]
                out2 = ip.call(method(ip, k, "_adaptive_transition"), [key, ks, ms, ep], {})
                ok2 = len(calls) == 1 and calls[0][0] == "da_step"
                c.oblige(f"da_step_uses_the_kernels_current_constants{suffix}", ok2 and And(
                    calls[0][1][3] == newc["da_target_accept"], calls[0][1][4] == newc["da_gamma"], calls[0][1][5] == newc["da_kappa"], calls[0][1][6] == newc["da_t0"]))
            # mixin dispatch
            del calls[:]
            c.ghost["std_calls"] = []
            c.ghost["adaptive_calls"] = 0

            def adaptive_contract(ip_, args, kwargs):
                ip_.ctx.ghost["adaptive_calls"] += 1
                return std_transition_contract(kind)(ip_, args, kwargs)

            ip.summaries[f"{rel}::{kcls}._adaptive_transition"] = adaptive_contract
            ip.call(method(ip, k, "transition"), [key, ks, ms, ep], {})
            t = ep.f["config"].f["type"]
            took_adaptive = c.ghost["adaptive_calls"] == 1
            c.oblige(f"adaptive_branch_iff_adaptation_epoch{suffix}", z3.BoolVal(took_adaptive) == Or(t == 1, t == 2))
            c.oblige(f"exactly_one_transition{suffix}", len(c.ghost["std_calls"]) == 1)
            del ip.summaries[f"{rel}::{kcls}._adaptive_transition"]
            del ip.summaries[f"{rel}::{kcls}._standard_transition"]
    return u


for _k in KERNELS:
    wiring_unit(_k)


def blackjax_models(ip):
    """opaque stand-ins for blackjax (A-BJX): init/step are deterministic functions of their arguments"""
    def kernel_factory(ip_, **kw):
        def step(ip2, key, state):
            st = PyObj("bj_state", position=ip2.uf("bj_position", ip2.to_U(key), ip2.to_U(state), ip2.to_U(kw)))
            info = PyObj("bj_info", **{n: ip2.uf("bj_" + n, ip2.to_U(key), ip2.to_U(state), ip2.to_U(kw)) for n in
                                      ("is_divergent", "num_trajectory_expansions", "is_turning", "num_integration_steps", "is_accepted")},
                         acceptance_rate=ip2.uf("bj_acceptance_rate", ip2.to_U(key), ip2.to_U(state), ip2.to_U(kw), sort=ip2.ctx.float_sort))
            return st, info
        return PyObj("bj_kernel", step=PyFn(step, "blackjax.step"))

    for nm in ("blackjax.nuts", "blackjax.hmc"):
        ip.models[nm] = kernel_factory
    for nm in ("blackjax.mcmc.nuts.init", "blackjax.mcmc.hmc.init"):
        ip.models[nm] = lambda ip_, pos, fn: ip_.uf("bj_init", ip_.to_U(pos), ip_.to_U(fn))
    ip.models["jax.numpy.arange"] = lambda ip_, n: ip_.uf("arange", ip_.to_z3_any(n))
    ip.models["jax.flatten_util.ravel_pytree"] = lambda ip_, tree: (ip_.uf("ravel", ip_.to_U(tree)), PyFn(lambda ip2, flat: ip2.uf("unravel", ip2.to_U(tree), ip2.to_U(flat)), "unravel_fn"))
    ip.models["opaque_binop"] = lambda ip_, op, a, b: ip_.uf("op_" + op, ip_.to_U(a), ip_.to_U(b))
    ip.models["jax.grad"] = lambda ip_, f, **kw: PyFn(lambda ip2, *a: ip2.uf("grad", ip2.to_U(f), ip2.to_U(a)), "grad_fn")
    ip.models["jax.jacfwd"] = lambda ip_, f, **kw: PyFn(lambda ip2, *a: ip2.uf("jacfwd", ip2.to_U(f), ip2.to_U(a)), "jacfwd_fn")
    ip.models["jax.numpy.linalg.cholesky"] = lambda ip_, m: ip_.uf("cholesky", ip_.to_U(m))
    ip.opaque_attr["shape"] = lambda ip_, v: ip_.uf("shape", v)


def frozen_unit(kind):
    rel, kcls, _ = KERNELS[kind]

    @unit(f"C11.frozen.{kind}", "C11", [f"{rel}::{kcls}._standard_transition"],
          summaries=["liesel/goose/mh.py::mh_step (proved by C05.mh_step)"] if kind in ("RW", "MH", "IWLS") else ["blackjax kernel (trusted, A-BJX)"])
    def u(ip, kind=kind):
        """outside adaptation a transition never changes the kernel's tuning state: _standard_transition returns the
        very kernel-state object it was given and stores into none of its fields."""
        c = ip.ctx
        blackjax_models(ip)
        k = sym_kernel(ip, kind)
        ks = sym_da_state(ip, kind)
        ep = sym_epoch_state(ip)
        before = dict(ks.f)
        writes = []
        ip.models["setattr_hook"] = lambda ip_, o, n, v: writes.append((o, n)) if o is ks else None

        def mh_contract(ip_, args, kwargs):
            info = new_obj(ip_, "liesel/goose/kernel.py::DefaultTransitionInfo", error_code=ip_.ctx.fresh("code", Int),
                           acceptance_prob=ip_.ctx.fresh("acc", Real), position_moved=ip_.ctx.fresh("moved", Int))
            return info, ip_.uf("mh_state", *[ip_.to_U(a) for a in args if not isinstance(a, PyObj)])

        ip.summaries["liesel/goose/mh.py::mh_step"] = mh_contract
        for nm in ("solve", "mvn_log_prob", "mvn_sample"):
            ip.summaries[f"liesel/goose/iwls_utils.py::{nm}"] = (lambda n: lambda ip_, args, kwargs: ip_.uf(n, *[ip_.to_U(a) for a in args]))(nm)
        key, ms = z3.Const("key", U), z3.Const("ms", U)
        out = ip.call(method(ip, k, "_standard_transition"), [key, ks, ms, ep], {})
        c.oblige("returns_same_kernel_state_object", out.f["kernel_state"] is ks)
        c.oblige("no_store_into_kernel_state", len(writes) == 0)
        for f_, v in before.items():
            c.oblige(f"field_unchanged.{f_}", ks.f[f_] is v or (is_z3(v) and is_z3(ks.f[f_]) and ks.f[f_].eq(v)))
    return u


for _k in KERNELS:
    frozen_unit(_k)


def init_state_unit(kind):
    rel, kcls, scls = KERNELS[kind]

    @unit(f"C11.init_state.{kind}", "C11", [f"{rel}::{kcls}.__init__", f"{rel}::{kcls}.init_state"], summaries=[f"{DA}::da_init (C11.da_init)"],
          assumptions=["A-BJX"] if kind in ("HMC", "NUTS") else [])
    def u(ip, kind=kind):
        """the initial kernel state starts from the step size the kernel was constructed with (and, for HMC/NUTS, from the user's inverse
        mass matrix when one was given, else from the identity in the flat position's layout), with the dual-averaging state initialised
        from that step size."""
        c = ip.ctx
        blackjax_models(ip)
        calls = install_da_recorders(ip)
        ip.models["jax.numpy.ones_like"] = lambda ip_, x: ip_.uf("ones_like", ip_.to_U(x))
        ip.models["jax.numpy.eye"] = lambda ip_, n: ip_.uf("eye", ip_.to_U(n))
        ip.opaque_attr["size"] = lambda ip_, v: ip_.uf("size", v)
        variants = [("given", {})] if kind not in ("HMC", "NUTS") else [("given_mm", {"initial_inverse_mass_matrix": z3.Const("user_inv_mm", U)}), ("default_mm.diag", {"mm_diag": True}), ("default_mm.dense", {"mm_diag": False})]
        for tag, extra in variants:
            del calls[:]
            k = sym_kernel(ip, kind, keys=("b", "a"), **extra)
            ms = z3.Const("ms", U)
            st = ip.call(method(ip, k, "init_state"), [z3.Const("key", U), ms], {})
            c.oblige(f"{tag}.step_size_is_constructor_step_size", st.f["step_size"] == k.ctor_args["initial_step_size"])
            c.oblige(f"{tag}.dual_averaging_initialised_on_this_state", [x[0] for x in calls] == ["da_init"] and calls[0][1][0] is st)
            if kind in ("HMC", "NUTS"):
                flat = ip.uf("ravel", ip.to_U(ip.call(k.f["_model"].attrs["extract_position"], [("b", "a"), ms], {})))
                want = z3.Const("user_inv_mm", U) if tag == "given_mm" else (ip.uf("ones_like", flat) if tag.endswith("diag") else ip.uf("eye", ip.uf("size", flat)))
                c.oblige(f"{tag}.inverse_mass_matrix", ip.to_U(st.f["inverse_mass_matrix"]).eq(want))
    return u


for _k in KERNELS:
    init_state_unit(_k)


def hooks_frame_unit(kind):
    rel, kcls, _ = KERNELS[kind]
    fns = [f"{rel}::{kcls}.end_warmup"] + ([f"{rel}::{kcls}.tune"] if kind in ("RW", "MH", "IWLS") else [f"{rel}::{kcls}._tune_fast", "liesel/goose/kernel.py::TuningMixin.tune"])

    @unit(f"C11.hooks_frame.{kind}", "C11", fns)
    def u(ip, kind=kind):
        """what the dual averaging left in the kernel state stays there: the tuning hook after a FAST adaptation epoch (and every tuning call of
        the kernels without a mass matrix) and end_warmup return the very state object they were given with step size, error sum, averaged
        log step size and mu untouched - so the step size installed at the end of the last adaptation epoch is the one used afterwards."""
        c = ip.ctx
        blackjax_models(ip)
        k = sym_kernel(ip, kind)
        key, ms = z3.Const("key", U), z3.Const("ms", U)
        for hook in ("tune", "end_warmup"):
            ks = sym_da_state(ip, kind)
            before = dict(ks.f)
            if hook == "tune":
                ep = sym_epoch_state(ip, "ep_tune", etype=z3.IntVal(1))  # FAST_ADAPTATION: no mass-matrix tuning
                out = ip.call(method(ip, k, "tune"), [key, ks, ms, ep, z3.Const("history", U)], {})
                st = out.f["kernel_state"]
                c.oblige("tune.info_time_is_epoch_time", ip.getattr(out.f["info"], "time") is ep.f["time"] or (is_z3(ip.getattr(out.f["info"], "time")) and ip.getattr(out.f["info"], "time").eq(ep.f["time"])))
            else:
                out = ip.call(method(ip, k, "end_warmup"), [key, ks, ms, None], {})
                st = out.f["kernel_state"]
                c.oblige("end_warmup.error_code_zero", out.f["error_code"] == 0)
            c.oblige(f"{hook}.returns_the_given_state", st is ks)
            c.oblige(f"{hook}.tuning_state_untouched", set(ks.f) == set(before) and all(ks.f[f_] is before[f_] for f_ in before))
    return u


for _k in KERNELS:
    hooks_frame_unit(_k)


# "restarted at the beginning of every epoch ... at the end of the epoch the averaged step size becomes the kernel's step size" needs the
# engine to make exactly these calls around every epoch (same harnesses as C07.kernel_start_epoch / C07.end_epoch / C07.sample_next_epoch)
from contracts.c07 import E as _E, u_end_epoch, u_kernel_start  # noqa: E402

unit("C11.engine_calls_start_epoch_for_every_epoch", "C11", [f"{_E}._kernel_start_epoch"], summaries=["KernelSequence.start_epoch (C07.kernel_sequence)"])(u_kernel_start)
unit("C11.engine_calls_end_epoch_then_tune", "C11", [f"{_E}._end_epoch", f"{_E}._tune_kernels"], summaries=["KernelSequence.end_epoch / tune (C07.kernel_sequence)"])(u_end_epoch)
from contracts.c07 import u_sample_next_epoch  # noqa: E402

unit("C11.every_sampled_epoch_is_bracketed_by_start_and_end", "C11", [f"{_E}.sample_next_epoch"],
     summaries=["_start_epoch / _kernel_start_epoch / _sample_for_duration / _end_epoch (C07 units)"])(u_sample_next_epoch)

# "adaptive transitions exactly in adaptation epochs" / "tuning state never changes in burn-in and posterior epochs": the dispatch of the mixins
from contracts.c07 import mixins_unit  # noqa: E402

mixins_unit("C11.adaptive_transition_exactly_in_adaptation_epochs", "C11")

"""Shared harness for the model-graph properties: library models needed to run the REAL GraphBuilder / Model / Node code
symbolically on concrete graph shapes.  All values and all user functions (Calc functions, distributions) are symbolic:
a unit that iterates over SHAPES proves its obligations for every value assignment on each enumerated shape."""
from pyvc.api import *

N = "liesel/model/nodes.py"
M = "liesel/model/model.py"
TOTAL = z3.Function("total", U, Real)  # sum of the entries of an array (T: x.sum() is the sum of the entries)


class DiGraph:
    def __init__(self, edges=()):
        self.nodes, self.edges = [], []
        for a, b in edges:
            self.add_node(a); self.add_node(b)
            self.edges.append((a, b))

    def add_node(self, n):
        if not any(n is x for x in self.nodes):
            self.nodes.append(n)


def topo_sort(g):
    """A-NX: nx.topological_sort returns a topological order (Kahn, deterministic here); raises on a cycle"""
    indeg = {id(n): 0 for n in g.nodes}
    for a, b in g.edges:
        indeg[id(b)] += 1
    order, ready = [], [n for n in g.nodes if indeg[id(n)] == 0]
    while ready:
        n = ready.pop(0)
        order.append(n)
        for a, b in g.edges:
            if a is n:
                indeg[id(b)] -= 1
                if indeg[id(b)] == 0:
                    ready.append(b)
    if len(order) != len(g.nodes):
        raise PyRaise("NetworkXUnfeasible")
    return order


def install_graph_models(ip):
    def wrap(g):
        def hook(ip2, memo):
            # copy.deepcopy of a model copies its graphs: the copy's graph holds the copied nodes
            from pyvc.models import deep_copy
            g2 = DiGraph()
            g2.nodes = [deep_copy(ip2, n, memo) for n in g.nodes]
            g2.edges = [(deep_copy(ip2, a, memo), deep_copy(ip2, b, memo)) for a, b in g.edges]
            return wrap(g2)
        return PyObj("DiGraph", g=g, add_nodes_from=PyFn(lambda ip2, ns: [g.add_node(n) for n in ip2.iterate(ns)] and None, "add_nodes_from"),
                     clear=PyFn(lambda ip2: (g.nodes.clear(), g.edges.clear()) and None, "clear"), __deepcopy_hook__=hook)

    def digraph(ip_, edges=()):
        return wrap(DiGraph(ip_.iterate(edges)))  # a set of edges is iterated in an unspecified order (forks)

    ip.models["networkx.DiGraph"] = digraph
    ip.models["networkx.topological_sort"] = lambda ip_, go: topo_sort(go.attrs["g"])

    def dfs_order(go, post):
        """A-NX: depth-first traversal from every node in insertion order, successors in edge-insertion order; NO cycle detection (as networkx)"""
        g, seen, out = go.attrs["g"], [], []

        def visit(n):
            if any(n is x for x in seen):
                return
            seen.append(n)
            if not post:
                out.append(n)
            for a, b in g.edges:
                if a is n:
                    visit(b)
            if post:
                out.append(n)
        for n in g.nodes:
            visit(n)
        return out

    ip.models["networkx.dfs_postorder_nodes"] = lambda ip_, go, source=None: dfs_order(go, True)
    ip.models["networkx.dfs_preorder_nodes"] = lambda ip_, go, source=None: dfs_order(go, False)

    def is_dag(ip_, go):
        try:
            topo_sort(go.attrs["g"])
            return True
        except PyRaise:
            return False

    ip.models["networkx.is_directed_acyclic_graph"] = is_dag

    def reach(go, start, forward):
        from pyvc.models import SetList
        g, out, todo = go.attrs["g"], SetList(), [start]
        while todo:
            x = todo.pop()
            for a, b in g.edges:
                src, dst = (a, b) if forward else (b, a)
                if src is x and not any(dst is y for y in out):
                    out.append(dst)
                    todo.append(dst)
        return out

    ip.models["networkx.descendants"] = lambda ip_, go, n: reach(go, n, True)
    ip.models["networkx.ancestors"] = lambda ip_, go, n: reach(go, n, False)

    def counter(ip_, xs=()):
        d = {}
        for x in ip_.iterate(xs):
            k = ip_.hashable(x)
            d[k] = d.get(k, 0) + 1
        return d

    ip.models["collections.Counter"] = counter
    ip.summaries[f"{M}::GraphBuilder.convert_dtype"] = lambda ip_, args, kwargs: args[0]
    ip.models["jax.random.PRNGKey"] = lambda ip_, seed: ip_.uf("PRNGKey", ip_.to_z3_any(seed))
    ip.opaque_attr["sum"] = lambda ip_, v: PyFn(lambda ip2: TOTAL(v), "array.sum")

    def contains(ip_, container, item):
        if isinstance(container, (list, tuple)):
            return any(x is item for x in container)
        raise Unsupported("contains")

    ip.models["contains"] = contains


def calc_fn(name):
    """an arbitrary deterministic user function (A-PURE)"""
    return PyFn(lambda ip_, *a, **k: ip_.uf(name, *[ip_.to_U(x) for x in a], *[ip_.to_U(k[q]) for q in sorted(k)]), name)


def dist_fn(name, event_shape=(), batch_shape=()):
    """an arbitrary distribution family: log_prob(x) is a deterministic function of the parameters and x"""
    def make(ip_, *a, **k):
        params = [ip_.to_U(x) for x in a] + [ip_.to_U(k[q]) for q in sorted(k)]
        return PyObj(f"tfp:{name}", log_prob=PyFn(lambda ip2, x: ip2.uf(f"logp_{name}", *params, ip2.to_U(x)), "log_prob"), params=params, family=name,
                     cdf=PyFn(lambda ip2, x: ip2.uf(f"cdf_{name}", *params, ip2.to_U(x)), "cdf"),
                     sample=PyFn(lambda ip2, shape, seed=None: ip2.uf(f"draw_{name}", *params, ip2.to_U(shape), ip2.to_U(seed)), "sample"),
                     event_shape=event_shape, batch_shape=batch_shape)
    return PyFn(make, name)


ARRAYS_ON_DEVICE = z3.Bool("arrays_are_jax_arrays")


def install_array_kind_models(ip):
    """A-ARRAYKIND: an opaque array value of a model graph may be a JAX array or a host (NumPy) array - both have the array methods (.sum, .shape, ...), only the
    first is an instance of jax.Array / jnp.ndarray. The kind is ONE free boolean per path (all arrays of a path are of one kind), so a type test on an array value
    forks the path once; python scalars are instances of neither."""
    def is_jax(ip_, x):
        if is_z3(x) and x.sort() == U:
            return ARRAYS_ON_DEVICE
        return False
    for n in ("jax.Array", "jax.numpy.ndarray"):
        ip.models.setdefault("isinstance:" + n, is_jax)
    ip.models.setdefault("isinstance:numpy.ndarray", lambda ip_, x: z3.Not(ARRAYS_ON_DEVICE) if is_z3(x) and x.sort() == U else False)


class G:
    """tiny DSL over the real constructors"""

    def __init__(self, ip):
        self.ip = ip
        self.Value, self.Calc, self.Var, self.Dist, self.TransientCalc = [ip.repo(f"{N}::{n}") for n in ("Value", "Calc", "Var", "Dist", "TransientCalc")]
        self.GB = ip.repo(f"{M}::GraphBuilder")
        install_array_kind_models(ip)

    def val(self, name):
        return z3.Const(f"val_{name}", U)

    def var(self, name, value=None, dist=None, observed=False, parameter=False):
        v = self.ip.call(self.Var, [self.val(name) if value is None else value, dist], {"name": name})
        if observed:
            self.ip.setattr(v, "observed", True)
        if parameter:
            self.ip.setattr(v, "parameter", True)
        return v

    def calc(self, fname, *inputs, name="", transient=False, **kw):
        return self.ip.call(self.TransientCalc if transient else self.Calc, [calc_fn(fname)] + list(inputs), {"_name": name, **kw})

    def dist(self, family, *inputs, per_obs=True, **kw):
        d = self.ip.call(self.Dist, [dist_fn(family)] + list(inputs), kw)
        if not per_obs:
            self.ip.setattr(d, "per_obs", False)
        return d

    def build(self, *roots, **gbkw):
        gb = self.ip.call(self.GB, [], {})
        bkw = {"copy": gbkw.pop("copy")} if "copy" in gbkw else {}  # argument of build_model(); everything else is a builder attribute
        for k, v in gbkw.items():
            self.ip.setattr(gb, k, v)
        self.ip.call(method(self.ip, gb, "add"), list(roots), {})
        return self.ip.call(method(self.ip, gb, "build_model"), [], bkw)


def shape_hier(g, per_obs=True):
    """mu ~ P(); sigma = f(tau) (weak var); y ~ L(mu, sigma) observed"""
    tau = g.var("tau", dist=g.dist("Ptau"), parameter=True)
    mu = g.var("mu", dist=g.dist("Pmu", tau), parameter=True)
    sigma = g.var("sigma", value=g.calc("f_sigma", tau))
    y = g.var("y", dist=g.dist("Lik", mu, scale=sigma, per_obs=per_obs), observed=True)
    return [y]


def shape_diamond(g, per_obs=True):
    """a feeds two calcs (one transient) that both feed y's distribution; an extra leaf calc"""
    a = g.var("a", dist=g.dist("Pa", per_obs=per_obs), parameter=True)
    left = g.calc("f_left", a, name="left")
    right = g.calc("f_right", a, name="right", transient=True)
    y = g.var("y", dist=g.dist("Lik", left, right), observed=True)
    leaf = g.var("leaf", value=g.calc("f_leaf", left, y))
    return [y, leaf]


def shape_flat(g, per_obs=True):
    """two independent parameters with priors, one observed variable without parents' priors mixing, one variable with no flag"""
    b = g.var("b", dist=g.dist("Pb"), parameter=True)
    c = g.var("c", dist=g.dist("Pc", per_obs=per_obs), parameter=True)
    y = g.var("y", dist=g.dist("Lik", b, c), observed=True)
    return [y]


def shape_weakdist(g, per_obs=True):
    """a weak variable WITH a distribution (its evaluation node chain contains a cached calculation) and a bare Value node
    feeding two calculations directly"""
    a = g.var("a", dist=g.dist("Pa"), parameter=True)
    b = g.var("b")
    w = g.var("w", value=g.calc("f_w", a), dist=g.dist("Dw", b, per_obs=per_obs), observed=True)
    const = g.ip.call(g.Value, [g.val("const")], {"_name": "const"})
    c1 = g.calc("f_c1", const, name="c1")
    c2 = g.calc("f_c2", const, c1, name="c2")
    return [w, c2]


def shape_direct(g, per_obs=True):
    """a calculation wired DIRECTLY to a variable's value node (not to the variable / its proxy node) - what the deprecated
    GraphBuilder.transform() builds with _transform_back, or a hand-written Calc(f, v.value_node) - feeding the likelihood"""
    b = g.var("b", dist=g.dist("Pb"), parameter=True)
    cvar = g.var("c", dist=g.dist("Pc", per_obs=per_obs), parameter=True)
    flag = g.ip.call(g.Value, [True], {"_name": "use_flag"})  # a boolean option as a node value: the python singleton True
    direct = g.calc("f_direct", b.f["_value_node"], flag, name="direct")  # depends on b (and a constant option) ONLY, so that nothing else refreshes it
    y = g.var("y", dist=g.dist("Lik", direct, cvar), observed=True)
    return [y]


SHAPES = {"hier": shape_hier, "diamond": shape_diamond, "flat": shape_flat}
SHAPES_IFACE = {**SHAPES, "direct": shape_direct}  # + "weakdist" (added below, after shape_weakdist exists)
def shape_weakdist_deep(g, per_obs=True):
    """a weak variable with a distribution whose VALUE path (a -> mid -> w) is deeper than its distribution's parameter path (b): the
    only thing that orders the distribution after the value calculation is the edge from the evaluation point (`Dist.at`)"""
    a = g.var("a", dist=g.dist("Pa"), parameter=True)
    b = g.var("b")
    mid = g.var("mid", value=g.calc("f_mid", a))
    w = g.var("w", value=g.calc("f_w", mid), dist=g.dist("Dw", b, per_obs=per_obs), observed=True)
    return [w]


def shape_optional(g, per_obs=True):
    """an OPTIONAL input: a variable whose value is None ("no offset" - None is a legitimate value) feeding a cached calculation"""
    b = g.var("b", dist=g.dist("Pb"), parameter=True)
    off = g.ip.call(g.Var, [None, None], {"name": "off"})
    eta = g.var("eta", value=g.calc("f_eta", b, off))
    y = g.var("y", dist=g.dist("Lik", eta, per_obs=per_obs), observed=True)
    return [y]


def shape_pit(g, per_obs=True):
    """a caching node that is NEITHER a Calc NOR a Dist: the probability-integral-transform node of liesel.model.legacy (derives from Node directly),
    u = F_Lik(mu)(y), with a distribution of its own"""
    mu = g.var("mu", dist=g.dist("Pmu"), parameter=True)
    y = g.var("y", dist=g.dist("Lik", mu, per_obs=per_obs), observed=True)
    u = g.ip.call(g.ip.repo("liesel/model/legacy.py::PIT"), [y], {"distribution": g.dist("Du")})
    return [u]


SHAPES_C01 = {**SHAPES, "weakdist": shape_weakdist, "weakdist_deep": shape_weakdist_deep}
SHAPES_IFACE["optional"] = shape_optional
SHAPES_IFACE["pit"] = shape_pit
SHAPES_IFACE["weakdist"] = shape_weakdist
SHAPES_IFACE["weakdist_deep"] = shape_weakdist_deep


# ---------------------------------------------------------------------------------------------
# TFP stubs (A-TFP): bijectors and TransformedDistribution by their documented laws

JB = "tensorflow_probability.substrates.jax.bijectors"
JD = "tensorflow_probability.substrates.jax.distributions"
NB = "tensorflow_probability.substrates.numpy.bijectors"
ND = "tensorflow_probability.substrates.numpy.distributions"


def bijector_instance(ip, tag, params=()):
    """a bijector instance b: forward / inverse / fldj are deterministic functions of (parameters, argument)"""
    ps = [ip.to_U(p) for p in params]
    return PyObj(f"bij:{tag}", kind="bijector_instance", tag=tag, params=ps,
                 forward=PyFn(lambda ip_, x: ip_.uf(f"fwd_{tag}", *ps, ip_.to_U(x)), "forward"),
                 inverse=PyFn(lambda ip_, y: ip_.uf(f"inv_{tag}", *ps, ip_.to_U(y)), "inverse"),
                 forward_log_det_jacobian=PyFn(lambda ip_, x, *a, **k: ip_.uf(f"fldj_{tag}", *ps, ip_.to_U(x)), "fldj"),
                 inverse_log_det_jacobian=PyFn(lambda ip_, y, *a, **k: ip_.uf(f"ildj_{tag}", *ps, ip_.to_U(y)), "ildj"))


def bijector_class(ip, tag):
    """a bijector class: calling it with arguments yields the instance with those parameters"""
    return PyObj(f"bijcls:{tag}", kind="bijector_class", is_type=True, tag=tag,
                 __call__=PyFn(lambda ip_, *a, **k: bijector_instance(ip_, tag, list(a) + [k[q] for q in sorted(k)]), f"{tag}()"))


def invert(ip, b):
    """A-TFP: Invert(b) swaps forward/inverse and fldj/ildj"""
    return PyObj(f"Invert({b.name})", kind="bijector_instance", base=b, tag="Invert", params=[],
                 forward=b.attrs["inverse"], inverse=b.attrs["forward"],
                 forward_log_det_jacobian=b.attrs["inverse_log_det_jacobian"], inverse_log_det_jacobian=b.attrs["forward_log_det_jacobian"])


def transformed_distribution(ip, dist, bij, **kw):
    """A-TFP: TransformedDistribution(d, b).log_prob(y) = d.log_prob(b^-1(y)) + ildj_b(y)"""
    def log_prob(ip_, y):
        base = ip_.call(dist.attrs["log_prob"], [ip_.call(bij.attrs["inverse"], [y], {})], {})
        return ip_.uf("op_Add", ip_.to_U(base), ip_.to_U(ip_.call(bij.attrs["inverse_log_det_jacobian"], [y], {})))
    return PyObj("tfp:Transformed", kind="distribution", log_prob=PyFn(log_prob, "log_prob"), bijector=bij, distribution=dist,
                 validate_args=kw.get("validate_args", False), event_shape=(), batch_shape=(),
                 sample=PyFn(lambda ip_, shape, seed=None: ip_.call(bij.attrs["forward"], [ip_.call(dist.attrs["sample"], [shape, seed], {})], {}), "sample"))


def dist_fn_tfp(name, default_bijector=True):
    """distribution family with a default event-space bijector that depends on the distribution's parameters"""
    def make(ip_, *a, **k):
        params = [ip_.to_U(x) for x in a] + [ip_.to_U(k[q]) for q in sorted(k)]
        d = PyObj(f"tfp:{name}", kind="distribution", log_prob=PyFn(lambda ip2, x: ip2.uf(f"logp_{name}", *params, ip2.to_U(x)), "log_prob"), params=params, family=name,
                  validate_args=False, event_shape=(), batch_shape=(),
                  sample=PyFn(lambda ip2, shape, seed=None: ip2.uf(f"draw_{name}", *params, ip2.to_U(shape), ip2.to_U(seed)), "sample"))
        d.attrs["experimental_default_event_space_bijector"] = (
            PyFn(lambda ip2, *aa, **kk: bijector_instance(ip2, f"default_{name}", params), "default_bijector") if default_bijector else PyFn(lambda ip2, *aa, **kk: None, "no_default"))
        return d
    return PyFn(make, name)


def install_tfp_models(ip):
    is_bij = lambda x: isinstance(x, PyObj) and x.attrs.get("kind") == "bijector_instance"  # noqa: E731
    is_dist = lambda x: isinstance(x, PyObj) and x.attrs.get("kind") == "distribution"  # noqa: E731
    for mod in (JB, NB):
        ip.models[f"isinstance:{mod}.Bijector"] = lambda ip_, x: is_bij(x)
        ip.models[f"{mod}.Invert"] = lambda ip_, b: invert(ip_, b)
    for mod in (JD, ND):
        ip.models[f"isinstance:{mod}.Distribution"] = lambda ip_, x: is_dist(x)
        ip.models[f"{mod}.TransformedDistribution"] = lambda ip_, d, b, **kw: transformed_distribution(ip_, d, b, **kw)
    ip.models["isinstance:builtins.type"] = lambda ip_, x: isinstance(x, RepoClass) or (isinstance(x, PyObj) and bool(x.attrs.get("is_type")))
    ip.models["builtins.issubclass"] = lambda ip_, x, cls: isinstance(x, PyObj) and x.attrs.get("kind") == "bijector_class"


def shape_transformed(g, per_obs=True):
    """a parameter re-parameterised with Var.transform() and the distribution's DEFAULT bijector, which depends on another model variable
    (p): the back-transformation must use the bijector parameters of the state at hand"""
    install_tfp_models(g.ip)
    p = g.var("p")
    d = g.ip.call(g.Dist, [dist_fn_tfp("D")], {"rate": p})
    x = g.var("x", dist=d, parameter=True)
    g.ip.call(method(g.ip, x, "transform"), [], {})
    y = g.var("y", dist=g.dist("Lik", x, per_obs=per_obs), observed=True)
    return [y]


SHAPES_IFACE["transformed"] = shape_transformed

"""C19 - error and sample bookkeeping in results and summaries."""
from pyvc.api import *

ENG = "liesel/goose/engine.py"
SUM = "liesel/goose/summary_m.py"


@unit("C19.count_lemma", "C19", [], assumptions=[
    "library contracts used by this lemma: np.any(E != 0, axis=0) is the per-column 'some chain has a non-zero code' mask; E[:, mask] keeps exactly the masked "
    "columns in order; np.sum(X == c, axis=1)[j] counts the entries of row j equal to c",
    "meta: the induction schema over the column index (base + step obligations below)"])
def u_count_lemma(ip):
    """Lemma (by induction on the number of columns): dropping the columns in which every chain has code 0 changes no per-chain
    count of a code c != 0. cnt(t) = #{s < t : E[j,s] = c}, cntm(t) = #{s < t : mask(s) and E[j,s] = c}; cnt(t) = cntm(t) for all t."""
    c = ip.ctx
    E = z3.Array("E", Int, z3.ArraySort(Int, Int))  # E[j][t]
    nch = c.fresh("n_chains", Int)
    j, code, t = c.fresh("j", Int), c.fresh("c", Int), c.fresh("t", Int)
    c.assume(And(nch >= 1, j >= 0, j < nch, code != 0, t >= 0))
    jj = z3.Int("jj")
    mask = lambda s: Exists([jj], And(jj >= 0, jj < nch, z3.Select(z3.Select(E, jj), s) != 0))  # noqa: E731
    cnt, cntm = z3.Function("cnt", Int, Int), z3.Function("cntm", Int, Int)
    hit = lambda s: If(z3.Select(z3.Select(E, j), s) == code, 1, 0)  # noqa: E731
    # definitions unfolded at 0 and t (ground instances)
    c.assume(And(cnt(0) == 0, cntm(0) == 0))
    c.assume(cnt(t + 1) == cnt(t) + hit(t))
    c.assume(cntm(t + 1) == cntm(t) + If(mask(t), hit(t), 0))
    c.cover("pre")
    c.oblige("base", cnt(0) == cntm(0))
    c.oblige("step", Implies(cnt(t) == cntm(t), cnt(t + 1) == cntm(t + 1)))


def np_models(ip):
    ip.models["opaque_elementwise_eq"] = lambda ip_, a, b: ip_.uf("elementwise_eq", ip_.to_U(a), ip_.to_z3_any(b) if not (is_z3(b) and b.sort() == U) else b)
    ip.models["numpy.any"] = lambda ip_, x, axis=None: ip_.uf("any_axis", ip_.to_U(x), ip_.to_U(axis))
    ip.models["numpy.where"] = lambda ip_, m: [ip_.uf("where", ip_.to_U(m))]
    ip.models["numpy.sum"] = lambda ip_, x, axis=None: ip_.uf("sum_axis", ip_.to_U(x), ip_.to_U(axis))


@unit("C19.get_error_log", "C19", [f"{ENG}::SamplingResults.get_error_log"], summaries=["EpochChainManager.combine_all / combine_filtered (C08.combine)"])
def u_get_error_log(ip):
    """per kernel: mask = columns in which some chain has a non-zero code; transition = positions of the mask; error_codes =
    the masked columns of that kernel's code array; taken over all transitions, or over exactly the POSTERIOR epochs
    (posterior_only=True; empty Option if there is no posterior transition info); kernel class looked up by identifier."""
    c = ip.ctx
    np_models(ip)
    Option = ip.repo("liesel/option.py::Option")
    codes = {"k0": z3.Const("codes_k0", U), "k1": z3.Const("codes_k1", U)}
    pcodes = {"k0": z3.Const("pcodes_k0", U), "k1": z3.Const("pcodes_k1", U)}
    preds = []

    def mk(d):
        return {k: PyObj("ti", error_code=v) for k, v in d.items()}

    def combine_filtered(ip_, pred):
        preds.append(pred)
        return ip_.call(Option, [mk(pcodes)], {})

    last_only = PyObj("last_epoch_chain", epoch=new_obj(ip, "liesel/goose/epoch.py::EpochConfig", type=4, duration=1, thinning=1, optional=None),
                      get=PyFn(lambda ip_: ip_.call(Option, [mk({k: z3.Const(f"last_epoch_only_{k}", U) for k in codes})], {}), "get"))
    tim = PyObj("transition_infos", combine_all=PyFn(lambda ip_: ip_.call(Option, [mk(codes)], {}), "combine_all"), combine_filtered=PyFn(combine_filtered, "combine_filtered"),
                get_current_chain=PyFn(lambda ip_: last_only, "get_current_chain"))
    # the kernel classes are recorded in the order the kernels were ADDED (here k1 before k0: user identifiers whose alphabetical order differs from
    # the order of adding), the transition infos come back from JAX with SORTED keys: the two are matched by identifier, not by position
    kcls = {"k1": PyObj("ClsK1"), "k0": PyObj("ClsK0")}
    res = new_obj(ip, f"{ENG}::SamplingResults", transition_infos=tim, kernel_classes=ip.call(Option, [kcls], {}))
    for post in (False, True):
        log = ip.call(method(ip, res, "get_error_log"), [post], {}).f["_value"]
        src = pcodes if post else codes
        tag = ".posterior" if post else ".all"
        c.oblige("one_entry_per_kernel" + tag, isinstance(log, dict) and list(log) == ["k0", "k1"])
        for kn in ("k0", "k1"):
            e = log[kn]
            mask = ip.uf("any_axis", ip.uf("elementwise_not", ip.uf("elementwise_eq", src[kn], z3.IntVal(0))), ip.to_U(0))
            c.oblige(f"mask_and_codes.{kn}" + tag, And(ip.to_U(e.f["error_codes"]) == ip.uf("getitem", src[kn], ip.to_U((("slice", None, None, None), mask))),
                                                       ip.to_U(e.f["transition"]) == ip.uf("where", mask)), structural=True)
            c.oblige(f"kernel_identity.{kn}" + tag, e.f["kernel_ident"] == kn and e.f["kernel_cls"].f["_value"] is kcls[kn])
    c.oblige("posterior_log_built_from_all_posterior_epochs", len(preds) == 1)  # combine_filtered(POSTERIOR) is the one and only source
    # the posterior filter
    ET = ip.repo("liesel/goose/epoch.py::EpochType")
    t = c.fresh("type", Int)
    c.assume(And(t >= 0, t <= 4))
    cfg = new_obj(ip, "liesel/goose/epoch.py::EpochConfig", type=t, duration=1, thinning=1, optional=None)
    c.oblige("posterior_filter_is_posterior", len(preds) == 1 and c.as_bool(ip.call(preds[0], [cfg], {})) == (t == 4))
    # no posterior infos at all -> empty Option
    tim.attrs["combine_filtered"] = PyFn(lambda ip_, pred: ip_.call(Option, [None], {}), "combine_filtered")
    r = ip.call(method(ip, res, "get_error_log"), [True], {})
    c.oblige("no_posterior_infos_gives_none", r.f["_value"] is None)


def summary_unit(codes, tag):
    @unit(f"C19.make_error_summary.{tag}", "C19", [f"{SUM}::_make_error_summary"], assumptions=["np.unique returns the distinct codes in increasing order"])
    def u(ip, codes=codes):
        """for every kernel and every code c != 0 that occurs: one entry with the code, the kernel's documented message for c, the
        per-chain count of c over the whole log and the per-chain count of c over the posterior log; no entry for code 0 or for codes
        that do not occur - whether or not code 0 itself occurs in the log."""
        c = ip.ctx
        np_models(ip)
        Option = ip.repo("liesel/option.py::Option")
        ip.models["numpy.unique"] = lambda ip_, x: list(codes)
        book = {0: "no errors", 1: "msg one", 2: "msg two", 3: "msg three"}
        kcls = PyObj("KCls", error_book=book)
        E, P = z3.Const("E", U), z3.Const("P", U)
        KEL = ip.repo(f"{ENG}::KernelErrorLog")
        log = {"k0": Obj(KEL, {"kernel_ident": "k0", "kernel_cls": ip.call(Option, [kcls], {}), "transition": z3.Const("tr", U), "error_codes": E})}
        plog = {"k0": Obj(KEL, {"kernel_ident": "k0", "kernel_cls": ip.call(Option, [kcls], {}), "transition": z3.Const("ptr", U), "error_codes": P})}
        res = ip.call(ip.repo(f"{SUM}::_make_error_summary"), [log, ip.call(Option, [plog], {})], {})
        want = [x for x in codes if x != 0]
        c.oblige("entries_exactly_nonzero_codes", isinstance(res, dict) and list(res) == ["k0"] and sorted(res["k0"]) == want)
        for x in want:
            e = res["k0"].get(x)
            ok = e is not None
            c.oblige(f"entry.{x}.code_and_message", ok and e.f["error_code"] == x and e.f["error_msg"] == book[x])
            if ok:
                c.oblige(f"entry.{x}.total_count", ip.to_U(e.f["count_per_chain"]) == ip.uf("sum_axis", ip.uf("elementwise_eq", E, z3.IntVal(x)), ip.to_U(1)))
                c.oblige(f"entry.{x}.posterior_count", ip.to_U(e.f["count_per_chain_posterior"]) == ip.uf("sum_axis", ip.uf("elementwise_eq", P, z3.IntVal(x)), ip.to_U(1)))
    return u


summary_unit([0, 1, 3], "with_zero")
summary_unit([1, 3], "without_zero")
summary_unit([2], "single_code_no_zero")
summary_unit([0], "only_zero")
summary_unit([], "empty")


@unit("C19.sample_info", "C19", [f"{SUM}::Summary.__init__"], assumptions=["slice: the statements of Summary.__init__ that build sample_info"])
def u_sample_info(ip):
    """reported num_chains / sample_size_per_chain are the first two dimensions of the stored posterior samples."""
    c = ip.ctx
    key = f"{SUM}::Summary.__init__"
    nchain, nsamp = c.fresh("stored_chains", Int), c.fresh("stored_samples", Int)
    arr = PyObj("arr", shape=(nchain, nsamp))
    epochs = []
    ip.models["numpy.sum"] = lambda ip_, x, axis=None: MODELS_sum(ip_, x)
    res = PyObj("results", positions=PyObj("positions", get_epochs=PyFn(lambda ip_: epochs, "get_epochs")))
    env, lines, sig = exec_slice(ip, key, {"posterior_chain": {"a": arr}, "results": res}, assigns("param_chain"), assigns("sample_info"))
    si = env.vars["sample_info"]
    c.oblige("num_chains_is_stored_shape", si["num_chains"] is nchain)
    c.oblige("sample_size_is_stored_shape", si["sample_size_per_chain"] is nsamp)


def MODELS_sum(ip, xs):
    acc = 0
    for x in ip.iterate(xs):
        acc = ip.binop("Add", acc, x)
    return acc


from contracts.c07 import engine_init_unit  # noqa: E402

engine_init_unit("C19.engine_init", "C19")


# the error log is built from the transition-info chain, which the engine creates WITHOUT thinning (C19.engine_init): with the flag off,
# append() stores every transition of every chunk whatever the epoch's thinning (same harness as C08.epoch_chain_append)
from contracts.c08 import CH, u_epoch_chain_append  # noqa: E402

unit("C19.unthinned_chain_keeps_every_transition", "C19", [f"{CH}::ListEpochChain.__init__", f"{CH}::ListEpochChain.append", f"{CH}::ListChain.append"],
     assumptions=["np.arange / boolean-mask selection / np.s_ modelled as index sets"])(u_epoch_chain_append)


@unit("C19.minimised_transition_info_keeps_the_error_code", "C19", ["liesel/goose/kernel.py::DefaultTransitionInfo.minimize"],
      assumptions=["the three kernel-independent fields are arbitrary arrays (any dtype, any value); dtype / cast semantics of S4''"])
def u_minimize(ip):
    """with minimize_transition_infos the engine stores info.minimize() instead of info: for the default info type and the HMC / NUTS types that
    inherit it, the minimised info carries exactly the error code of the original (same value, not narrowed, wrapped or re-computed) - so the error bookkeeping that reads the stored infos counts what the kernels returned."""
    c = ip.ctx
    for rel, cls, extra in (("liesel/goose/kernel.py", "DefaultTransitionInfo", ()), ("liesel/goose/hmc.py", "HMCTransitionInfo", ("divergent",)),
                            ("liesel/goose/nuts.py", "NUTSTransitionInfo", None)):
        C = ip.repo(f"{rel}::{cls}")
        names = ["error_code", "acceptance_prob", "position_moved"]
        if extra is None:
            import ast as _ast
            extra = [st.target.id for st in C.node.body if isinstance(st, _ast.AnnAssign) and st.target.id not in names]
        vals = {n: z3.Const(f"{cls}_{n}", U) for n in names + list(extra)}
        info = ip.call(C, [], dict(vals))
        m = ip.call(method(ip, info, "minimize"), [], {})
        # only the error code is part of the property's statement (a narrowed 0/1 moved flag would be harmless and must not raise an alarm)
        c.oblige(f"{cls}.error_code_unchanged", ip.to_U(ip.getattr(m, "error_code")) == vals["error_code"])


# "exactly the number of transitions that returned that code": nothing appended to the stored chains is lost, however many chunks an epoch has
from contracts.c08 import list_chain_long_unit  # noqa: E402

list_chain_long_unit("C19.chain_keeps_every_appended_chunk", "C19")


@unit("C19.one_record_per_kernel", "C19", ["liesel/goose/kernel_sequence.py::KernelSequence.__init__", "liesel/goose/kernel_sequence.py::KernelSequence.transition"],
      assumptions=["two and three kernels; identifiers distinct / two equal / one empty"])
def u_one_record_per_kernel(ip):
    """'per kernel': transition infos (and with them error codes) are recorded under the kernel's identifier, so the kernel sequence accepts only kernels with
    non-empty, pairwise DIFFERENT identifiers (anything else is rejected at construction - otherwise one kernel's codes would overwrite another's), and one
    transition of an accepted sequence returns exactly one info per kernel, under that kernel's identifier."""
    c = ip.ctx
    from contracts.c07 import KS, ghost_kernel, sym_epoch_state
    K = ip.repo(f"{KS}::KernelSequence")
    for tag, idents, ok in (("distinct", ["kb", "ka", "kc"], True), ("first_and_last_equal", ["kx", "ky", "kx"], False), ("both_equal", ["same", "same"], False), ("neighbours_equal", ["ka", "kb", "kb"], False),
                            ("one_empty", ["ka", ""], False), ("auto_style_names", ["kernel_01", "kernel_00"], True)):
        trace = []
        ks = [ghost_kernel(ip, i, trace, idt) for i, idt in enumerate(idents)]
        kind, seq = try_call(ip, K, [list(ks)], {})
        if not ok:
            c.oblige(f"{tag}.rejected", kind == "raise" and seq.cls == "RuntimeError")
            continue
        c.oblige(f"{tag}.accepted", kind == "ok")
        if kind != "ok":
            continue
        out = ip.call(method(ip, seq, "transition"), [z3.Const("key", U), [z3.Const(f"kstate{i}", U) for i in range(len(ks))], z3.Const("ms", U), sym_epoch_state(ip)], {})
        infos = ip.getattr(out, "infos")
        c.oblige(f"{tag}.one_info_per_kernel_under_its_identifier", isinstance(infos, dict) and sorted(infos) == sorted(idents) and all(ip.to_U(infos[idt]).eq(z3.Const(f"info{i}", U)) for i, idt in enumerate(idents)))

"""C10 - reproducibility, independent chains, initial values honoured.

Deductive part: definedness of locals, PRNG-key ownership (no key is consumed twice, every consumer gets a key derived by a
distinct split path - distinctness of VALUES is assumption A-RNG), integer seed == PRNGKey(seed), initial-value wiring and the
frame of build().  Bit-identical reruns and chain independence need XLA determinism / A-VMAP and are bounded only."""
from pyvc.api import *
from contracts.common import KERNELS, sym_da_state, sym_epoch_state, sym_kernel
from contracts.c07 import E, ENG, install_engine_models, ks_stub, names, sym_engine
from contracts.c11 import blackjax_models

BUILDER = "liesel/goose/builder.py"
B = f"{BUILDER}::EngineBuilder"


def key_models(ip):
    ip.models["isinstance:jax.Array"] = lambda ip_, x: is_z3(x) and x.sort() == U
    ip.models["jax.numpy.isscalar"] = lambda ip_, x: isinstance(x, (int, float)) or (is_z3(x) and x.sort() != U)
    ip.models["jax.numpy.shape"] = lambda ip_, x: ip_.uf("shape", ip_.to_U(x))


@unit("C10.seed_equivalence", "C10", [f"{B}.__init__", f"{B}.set_engine_seed", f"{ENG}::_initialze_prng"])
def u_seed(ip):
    """EngineBuilder(seed:int) holds exactly the three keys of EngineBuilder(PRNGKey(seed)); the three keys are the three
    children of one split (distinct paths); anything else is rejected with TypeError; set_engine_seed(int) == set_engine_seed(PRNGKey(int))."""
    c = ip.ctx
    key_models(ip)
    seed = c.fresh("seed", Int)
    Bc = ip.repo(B)
    b1 = ip.call(Bc, [seed, 2], {})
    k = ip.uf("PRNGKey", seed)
    b2 = ip.call(Bc, [k, 2], {})
    for f in ("_prng_key", "_engine_key", "_jitter_key"):
        c.oblige(f"int_seed_equals_prngkey.{f}", b1.f[f] == b2.f[f])
    want = [ip.uf("split", k, z3.IntVal(i)) for i in range(3)]
    c.oblige("three_children_of_one_split", And(b1.f["_prng_key"] == want[0], b1.f["_engine_key"] == want[1], b1.f["_jitter_key"] == want[2]))
    kind, r = try_call(ip, Bc, ["not-a-seed", 2])
    c.oblige("other_types_rejected", kind == "raise" and r.cls == "TypeError")
    ip.call(method(ip, b1, "set_engine_seed"), [seed], {})
    ip.call(method(ip, b2, "set_engine_seed"), [k], {})
    c.oblige("set_engine_seed_int_equals_key", b1.f["_engine_key"] == b2.f["_engine_key"])
    c.oblige("model_state_initially_unset", b1.f["_model_state"].f["_value"] is None)


@unit("C10.set_initial_values", "C10", [f"{B}.set_initial_values"], assumptions=["S5: a load of an unassigned local raises UnboundLocalError"])
def u_set_initial_values(ip):
    """set_initial_values never hits an unassigned local: a single state is replicated num_chains times along a new leading
    axis, per-chain states (multiple_chains=True) are stored as given."""
    c = ip.ctx
    n = 3
    got = {}
    ip.summaries["liesel/goose/pytree.py::stack_leaves"] = lambda ip_, args, kwargs: (got.__setitem__("stacked", list(args[0])), z3.Const("stacked", U))[1]
    state = z3.Const("state", U)
    for multi in (False, True):
        b = new_obj(ip, B, _num_chains=n, _model_state=None)
        kind, r = try_call(ip, method(ip, b, "set_initial_values"), [state], {"multiple_chains": multi})
        c.oblige(f"no_exception.multiple_chains_{multi}", kind == "ok")
        if kind == "ok":
            v = b.f["_model_state"].f["_value"]
            if multi:
                c.oblige("per_chain_states_used_as_given", is_z3(v) and v.eq(state))
            else:
                c.oblige("single_state_replicated_per_chain", is_z3(v) and v.eq(z3.Const("stacked", U)) and got.get("stacked") == [state] * n)


class SplitArr:
    """result of _split_keys(parent, n): array (chain, n, 2) of children of `parent`"""

    def __init__(self, parent, n):
        self.parent, self.n = parent, n


def engine_key_models(ip):
    from pyvc.models_jax import use_key

    def split_keys(ip_, args, kwargs):
        keys, n = args
        use_key(ip_, keys)
        return PyObj("split_arr", parent=ip_.to_U(keys), n=n,
                     __getitem__=PyFn(lambda ip2, idx: _split_index(ip2, ip_.to_U(keys), n, idx), "split_arr[]"))

    ip.summaries[f"{ENG}::_split_keys"] = split_keys


def _split_index(ip, parent, n, idx):
    full = ("slice", None, None, None)
    if isinstance(idx, tuple) and len(idx) == 3 and idx[0] == full and idx[2] == full:
        mid = idx[1]
        if isinstance(mid, int):
            return ip.uf("child", parent, z3.IntVal(mid))
        if isinstance(mid, tuple) and mid[0] == "slice" and mid[1] == 1 and mid[2] is None:
            return PyObj("children", parent=parent, lo=1, n=n,
                         __getitem__=PyFn(lambda ip2, i2: _children_index(ip2, parent, i2), "children[]"))
    raise Unsupported(f"split array index {idx!r}")


def _children_index(ip, parent, idx):
    full = ("slice", None, None, None)
    if isinstance(idx, tuple) and len(idx) == 3 and idx[0] == full and idx[2] == full and isinstance(idx[1], int):
        return ip.uf("child", parent, z3.IntVal(idx[1] + 1))
    raise Unsupported(f"children index {idx!r}")


@unit("C10.engine_key_ownership", "C10", [f"{E}._split_prng_key", f"{E}._split_prng_key_one"], summaries=[f"{ENG}::_split_keys (consumes its input; children = distinct split paths)"])
def u_engine_keys(ip):
    """every engine-level draw consumes the current engine key exactly once, installs child 0 as the new engine key and hands
    out children 1..n: handed-out keys are never the engine key of any later draw, and two consecutive draws hand out keys
    with different split paths."""
    c = ip.ctx
    engine_key_models(ip)
    eng = sym_engine(ip)
    k0 = eng.f["_prng_key"]
    n = 4
    ks = ip.call(method(ip, eng, "_split_prng_key"), [n], {})
    c.oblige("new_engine_key_is_child_0", eng.f["_prng_key"] == ip.uf("child", k0, z3.IntVal(0)))
    c.oblige("hands_out_children_1_to_n", isinstance(ks, PyObj) and ks.name == "children" and ks.attrs["parent"].eq(k0) and ks.attrs["n"] == n + 1)
    k1 = eng.f["_prng_key"]
    one = ip.call(method(ip, eng, "_split_prng_key_one"), [], {})
    c.oblige("one_is_child_1_of_current_key", one == ip.uf("child", k1, z3.IntVal(1)))
    c.oblige("engine_key_advanced_again", eng.f["_prng_key"] == ip.uf("child", k1, z3.IntVal(0)))
    c.oblige("no_key_consumed_twice", not c.ghost.get("key_reuse"))


@unit("C10.scan_f_keys", "C10", [f"{E}._sample_many.<locals>.scan_f"])
def u_scan_keys(ip):
    """per iteration the iteration key is split once; the kernel sequence gets child 0, quantity generators children of child 1;
    no key is consumed twice."""
    c = ip.ctx
    install_engine_models(ip)
    eng = sym_engine(ip)
    eng.f["_model"] = PyObj("model", extract_position=PyFn(lambda ip_, keys, st: z3.Const("pos", U), "extract_position"))
    got = {}
    out = PyObj("out", kernel_states=z3.Const("ks", U), model_state=z3.Const("ms", U), infos={})
    eng.f["_kernel_sequence"] = PyObj("kernel_sequence", transition=PyFn(lambda ip_, key, *a: (got.__setitem__("key", key), out)[1], "transition"))
    qkeys = []
    qg = PyObj("qg", identifier="q0", generate=PyFn(lambda ip_, key, ms, ep: (qkeys.append(key), z3.Const("quant", U))[1], "generate"))
    eng.f["_quantity_generators"] = [qg, PyObj("qg1", identifier="q1", generate=qg.attrs["generate"])]
    clo = ip.repo(f"{E}._sample_many.<locals>.scan_f")
    env = Env(None, None)
    env.vars["self"] = eng
    clo.env = env
    ep = sym_epoch_state(ip)
    carry = new_obj(ip, f"{ENG}::Carry", kernel_states=z3.Const("ks0", U), model_state=z3.Const("ms0", U), epoch=ep)
    key = z3.Const("iteration_key", U)
    ip.call(clo, [carry, key], {})
    c.oblige("kernels_get_child_0", is_z3(got.get("key")) and got["key"].eq(ip.uf("split", key, z3.IntVal(0))))
    c1 = ip.uf("split", key, z3.IntVal(1))
    c.oblige("generators_get_distinct_children_of_child_1", len(qkeys) == 2 and qkeys[0].eq(ip.uf("split", c1, z3.IntVal(0))) and qkeys[1].eq(ip.uf("split", c1, z3.IntVal(1))))
    c.oblige("no_key_consumed_twice", not c.ghost.get("key_reuse"))


def kernel_key_unit(kind):
    rel, kcls, _ = KERNELS[kind]

    @unit(f"C10.kernel_keys.{kind}", "C10", [f"{rel}::{kcls}._standard_transition"], summaries=["mh_step consumes its key once (C05: one uniform draw)"])
    def u(ip, kind=kind):
        """within one transition the kernel's key is split once; the proposal draw and the accept/reject draw use different
        children; no key is consumed twice."""
        from pyvc.models_jax import use_key
        c = ip.ctx
        blackjax_models(ip)
        k = sym_kernel(ip, kind)
        ks = sym_da_state(ip, kind)
        ep = sym_epoch_state(ip)
        used_by = {}

        def mh_contract(ip_, args, kwargs):
            use_key(ip_, args[0])
            used_by["mh"] = args[0]
            info = new_obj(ip_, "liesel/goose/kernel.py::DefaultTransitionInfo", error_code=0, acceptance_prob=ip_.ctx.fresh("acc", Real), position_moved=0)
            return info, z3.Const("ms1", U)

        ip.summaries["liesel/goose/mh.py::mh_step"] = mh_contract
        for nm in ("solve", "mvn_log_prob"):
            ip.summaries[f"liesel/goose/iwls_utils.py::{nm}"] = (lambda n: lambda ip_, args, kwargs: ip_.uf(n, *[ip_.to_U(a) for a in args]))(nm)

        def mvn_sample(ip_, args, kwargs):
            use_key(ip_, args[0])
            used_by["proposal"] = args[0]
            return ip_.uf("mvn_sample", *[ip_.to_U(a) for a in args])

        ip.summaries["liesel/goose/iwls_utils.py::mvn_sample"] = mvn_sample
        if kind == "MH":
            orig = k.f["_proposal_fn"]
            k.f["_proposal_fn"] = PyFn(lambda ip_, key, st, step: (use_key(ip_, key), used_by.__setitem__("proposal", key), ip_.call(orig, [key, st, step], {}))[2], "proposal_fn")
        key = z3.Const("kernel_key", U)
        ip.call(method(ip, k, "_standard_transition"), [key, ks, z3.Const("ms", U), ep], {})
        c.oblige("no_key_consumed_twice", not c.ghost.get("key_reuse"))
        c.oblige("accept_draw_uses_child_1", is_z3(used_by.get("mh")) and used_by["mh"].eq(ip.uf("split", key, z3.IntVal(1))))
        if kind != "RW":
            c.oblige("proposal_uses_child_0", is_z3(used_by.get("proposal")) and used_by["proposal"].eq(ip.uf("split", key, z3.IntVal(0))))
        else:
            used = [str(x) for x in c.ghost.get("keys_used", [])]
            c.oblige("proposal_uses_child_0", str(ip.uf("split", key, z3.IntVal(0))) in used)
    return u


for _k in ("RW", "MH", "IWLS"):
    kernel_key_unit(_k)


@unit("C10.build_initial_values", "C10", [f"{B}.build"],
      assumptions=["slice: the statements of build() from `model_states = self._model_state.expect(...)` to the end of the jitter if/else, plus the return's keyword wiring",
                   "A-VMAP: vmap(f)(xs)[c] = f(xs[c])"])
def u_build_initial(ip):
    """build(): the engine's initial states are update_state(jittered position, supplied states) where the jittered position of
    key k is jitter_fns[k] applied per chain to the value extracted from the supplied states, with per-key, per-chain keys
    derived from the builder's jitter key; without jitter functions the supplied states are used unchanged. build() does not
    modify the builder's stored initial state (so a second build() starts from the same values)."""
    c = ip.ctx
    key = f"{B}.build"
    Option = ip.repo("liesel/option.py::Option")
    init_states = z3.Const("supplied_states", U)
    ip.models["jax.vmap"] = lambda ip_, f, in_axes=0, out_axes=0: PyFn(lambda ip2, *a: ip2.call(f, list(a), {}), "vmapped")
    model = PyObj("model",
                  extract_position=PyFn(lambda ip_, keys, st: {k: ip_.uf("extract", z3.Const(f"str:{k}", U), ip_.to_U(st)) for k in keys}, "extract_position"),
                  update_state=PyFn(lambda ip_, pos, st: ip_.uf("update_state", ip_.to_U(pos), ip_.to_U(st)), "update_state"))
    for with_jitter in (True, False):
        # (a jitter function may be registered for a key that NO kernel samples - a fixed quantity dispersed over the chains and tracked through positions_included)
        jf = {"a": PyFn(lambda ip_, k, v: ip_.uf("jitter_a", ip_.to_U(k), ip_.to_U(v)), "jit_a"), "b": PyFn(lambda ip_, k, v: ip_.uf("jitter_b", ip_.to_U(k), ip_.to_U(v)), "jit_b"),
              "s": PyFn(lambda ip_, k, v: ip_.uf("jitter_s", ip_.to_U(k), ip_.to_U(v)), "jit_s")}
        b = new_obj(ip, B, _model_state=ip.call(Option, [init_states], {}), _jitter_fns=ip.call(Option, [jf if with_jitter else None], {}),
                    _jitter_key=z3.Const("jitter_key", U), _num_chains=2)
        stored0 = b.f["_model_state"]
        writes = []
        ip.models["setattr_hook"] = lambda ip_, o, n, v: writes.append(n) if o is b else None
        env, lines, sig = exec_slice(ip, key, {"model": model, "pos_keys": ["a", "b"]},
                                     lambda s: "_model_state" in ast.dump(s) and isinstance(s, ast.Assign), lambda s: isinstance(s, ast.If) and "_jitter_fns" in ast.dump(s.test), self_obj=b)
        ms = env.vars["model_states"]
        tag = ".jitter" if with_jitter else ".nojitter"
        c.oblige("builder_state_not_modified" + tag, writes == [] and b.f["_model_state"] is stored0 and stored0.f["_value"] is init_states)
        if with_jitter:
            jk = [ip.uf("split", z3.Const("jitter_key", U), z3.IntVal(i)) for i in range(3)]
            want_pos = {}
            for i, kname in enumerate(("a", "b", "s")):
                per_chain_keys = [ip.uf("split", jk[i], z3.IntVal(j)) for j in range(2)]
                want_pos[kname] = ip.uf(f"jitter_{kname}", ip.to_U(per_chain_keys), ip.uf("extract", z3.Const(f"str:{kname}", U), init_states))
            c.oblige("initial_states_are_update_with_jittered_position", ms == ip.uf("update_state", ip.to_U(want_pos), init_states))
            c.oblige("no_key_consumed_twice", not c.ghost.get("key_reuse"))
        else:
            c.oblige("initial_states_unchanged_without_jitter", is_z3(ms) and ms.eq(init_states))
    clo = ip.repo(key)
    ret = [n_ for n_ in ast.walk(clo.node) if isinstance(n_, ast.Return)][-1]
    kw = {k.arg: k.value for k in ret.value.keywords}
    c.oblige("engine_gets_these_states", isinstance(kw.get("model_states"), ast.Name) and kw["model_states"].id == "model_states")
    c.oblige("engine_gets_engine_key", isinstance(kw.get("seeds"), ast.Name) and kw["seeds"].id == "seeds")


@unit("C10.init_and_quantity_keys", "C10", ["liesel/goose/kernel_sequence.py::KernelSequence.init_states", f"{E}._generate_quantity"], summaries=[f"{E}._split_prng_key_one (C10.engine_key_ownership)"])
def u_init_keys(ip):
    """kernel states are initialised with distinct children of one split (kernel i gets child i); each quantity generator of the
    initial-values epoch gets its own fresh engine draw; no key is consumed twice."""
    c = ip.ctx
    got = []
    ks = [PyObj(f"k{i}", init_state=PyFn(lambda ip_, key, ms, i=i: (got.append((i, key)), z3.Const(f"st{i}", U))[1], "init_state")) for i in range(3)]
    seq = new_obj(ip, "liesel/goose/kernel_sequence.py::KernelSequence", _kernels=ks)
    key = z3.Const("key", U)
    ip.call(method(ip, seq, "init_states"), [key, z3.Const("ms", U)], {})
    c.oblige("kernel_i_initialised_with_child_i", [i for i, _ in got] == [0, 1, 2] and all(k.eq(ip.uf("split", key, z3.IntVal(i))) for i, k in got))
    install_engine_models(ip)
    eng = sym_engine(ip)
    n = {"i": 0}

    def one(ip_, args, kwargs):
        n["i"] += 1
        return z3.Const(f"engine_draw_{n['i']}", U)

    ip.summaries[f"{E}._split_prng_key_one"] = one
    qkeys = []
    mk = lambda ident: PyObj(ident, identifier=ident, generate=PyFn(lambda ip_, key, ms, ep: (qkeys.append(key), z3.Const("q", U))[1], "generate"))  # noqa: E731
    eng.f["_quantity_generators"] = [mk("q0"), mk("q1")]
    eng.f["_epoch"] = sym_epoch_state(ip)
    res = ip.call(method(ip, eng, "_generate_quantity"), [], {})
    c.oblige("each_generator_gets_its_own_draw", len(qkeys) == 2 and str(qkeys[0]) != str(qkeys[1]) and list(res) == ["q0", "q1"])
    c.oblige("no_key_consumed_twice", not c.ghost.get("key_reuse"))


@unit("C10.constructor_draws_advance_the_engine_key", "C10", [f"{E}.__init__", f"{E}._split_prng_key", f"{E}._split_prng_key_one", "liesel/goose/kernel_sequence.py::KernelSequence.init_states"],
      summaries=[f"{ENG}::_split_keys (consumes its input; children = distinct split paths)"], assumptions=["A-JIT / A-VMAP", "two kernels; REAL constructor, real key bookkeeping"])
def u_ctor_keys(ip):
    """the keys the constructor hands to the kernels' init_state calls are a DRAW from the engine's key state: afterwards the state has moved on (it is the carry
    child of the seeds), so the next draw - the first epoch's start_epoch keys, or the first generated quantity - is a different key."""
    c = ip.ctx
    from contracts.c07 import IDENTS, ghost_kernel
    install_engine_models(ip)
    engine_key_models(ip)
    ip.summaries.pop(f"{E}._split_prng_key_one", None)  # the REAL bookkeeping
    ip.models["jax.jit"] = lambda ip_, f, **kw: f
    ip.summaries["liesel/goose/epoch.py::EpochManager.__init__"] = lambda ip_, args, kwargs: None
    trace = []
    ks = [ghost_kernel(ip, i, trace, IDENTS[i]) for i in range(2)]
    seq = ip.call(ip.repo("liesel/goose/kernel_sequence.py::KernelSequence"), [list(ks)], {})
    seeds = z3.Const("seeds", U)
    eng = ip.call(ip.repo(E), [], dict(seeds=seeds, model_states=z3.Const("model_states", U), kernel_sequence=seq, epoch_configs=z3.Const("epoch_configs", U),
                                       jitted_sample_duration=c.fresh("chunk", Int), model=PyObj("model"), position_keys=None, show_progress=False))
    inits = [t for t in trace if t[0] == "init_state"]
    carry, draw = ip.uf("child", seeds, z3.IntVal(0)), ip.uf("child", seeds, z3.IntVal(1))
    c.oblige("kernels_initialised_from_the_first_draw", [t[1] for t in inits] == [0, 1] and all(is_z3(t[2][0]) and str(draw) in str(t[2][0]) for t in inits) and str(inits[0][2][0]) != str(inits[1][2][0]))
    c.oblige("engine_key_state_moved_on", ip.to_U(eng.f["_prng_key"]).eq(carry))
    nxt = ip.call(method(ip, eng, "_split_prng_key_one"), [], {})
    c.oblige("next_draw_differs_from_the_constructors", is_z3(nxt) and nxt.eq(ip.uf("child", carry, z3.IntVal(1))) and not nxt.eq(draw))
    c.oblige("no_key_consumed_twice", not c.ghost.get("key_reuse"))


@unit("C10.lifecycle_keys", "C10", [f"{E}._end_epoch", f"{E}._tune_kernels", f"{E}._kernel_start_epoch", f"{E}._end_warmup"],
      summaries=[f"{E}._split_prng_key_one (C10.engine_key_ownership: every call hands out a key never handed out before)", "KernelSequence methods split their key once per kernel (C07.kernel_sequence)"])
def u_lifecycle_keys(ip):
    """every lifecycle call into the kernel sequence (start of epoch, end of epoch, tuning, end of warmup) receives its own fresh engine
    draw: no draw is handed to two calls, so end_epoch() and tune() of the same kernel never see the same key."""
    c = ip.ctx
    install_engine_models(ip)
    for what in ("end_epoch_and_tune", "start_epoch", "end_warmup"):
        eng = sym_engine(ip)
        trace = c.ghost["trace"]
        del trace[:]
        ep = sym_epoch_state(ip, what)
        eng.f["_epoch"] = ep
        eng.f["_kernel_sequence"] = ks_stub(ip, trace)
        if what == "end_epoch_and_tune":
            ip.call(method(ip, eng, "_end_epoch"), [], {})
        elif what == "start_epoch":
            ip.call(method(ip, eng, "_kernel_start_epoch"), [], {})
        else:
            ip.call(method(ip, eng, "_end_warmup"), [], {})
        keys = [t_[1][0] for t_ in trace if t_[0].startswith("kernel_sequence.")]
        c.oblige(f"{what}.each_call_gets_a_fresh_engine_draw", len(keys) >= 1 and all(is_z3(k) and str(k).startswith("split_key") for k in keys))
        c.oblige(f"{what}.no_draw_handed_to_two_calls", len({str(k) for k in keys}) == len(keys), calls=str([t_[0] for t_ in trace if t_[0].startswith("kernel_sequence.")]))


def build_whole_unit(uid, prop, variant="A"):
    @unit(uid, prop, [f"{B}.__init__", f"{B}.set_epochs", f"{B}.set_model", f"{B}.set_initial_values", f"{B}.add_kernel", f"{B}.set_jitter_fns", f"{B}.build",
                      f"{BUILDER}::_find_duplicate", f"{E}.__init__", "liesel/goose/kernel_sequence.py::KernelSequence.__init__", "liesel/goose/epoch.py::EpochManager.__init__",
                      "liesel/goose/epoch.py::EpochManager.append"],
          assumptions=["A-VMAP / A-JIT", "configuration: 2 chains, 3 kernels (identifiers partly given, not alphabetical), schedule INIT/FAST 6/BURNIN 9/POSTERIOR 12 thinning 3, "
                       "jitter functions for two of three position keys, one included and one excluded key; every value symbolic"], max_paths=64)
    def u(ip, variant=variant):
        """END TO END through the public API and the REAL constructors: a builder configured with set_epochs / set_model / set_initial_values /
        add_kernel / set_jitter_fns, then build(): the engine runs the kernels in the order added (identifiers only filled in), with the
        schedule as given, a chunk length dividing every duration (their gcd), per-chain children of the engine key as seeds, initial
        states = update_state(jittered position, replicated initial state) with per-key per-chain jitter keys, tracked keys = kernel keys +
        included - excluded; the builder's stored initial state is not modified and a second build() gives the same engine inputs."""
        c = ip.ctx
        from contracts.c07 import IDENTS, ghost_kernel, install_engine_models
        install_engine_models(ip)
        key_models(ip)
        ip.models["jax.jit"] = lambda ip_, f, **kw: f
        ip.models["isinstance:jax.Array"] = lambda ip_, x: (is_z3(x) and x.sort() == U) or (isinstance(x, PyObj) and x.name == "keys")
        ip.opaque_attr["shape"] = lambda ip_, v: (2,)  # a single PRNG key

        def split(ip_, key, num=2):
            n = ip_.conc_int(num)
            kids = [ip_.uf("split", ip_.to_U(key), z3.IntVal(i)) for i in range(n)]
            return PyObj("keys", shape=(n, 2), parent=ip_.to_U(key), kids=kids, __getitem__=PyFn(lambda ip2, i: kids[ip2.conc_int(i)], "keys[]"), __len__=PyFn(lambda ip2: n, "len"))

        ip.models["jax.random.split"] = split
        ip.models["to_U:keys"] = None
        ip.summaries["liesel/goose/pytree.py::stack_leaves"] = lambda ip_, args, kwargs: ip_.uf("stack", *[ip_.to_U(x) for x in ip_.iterate(args[0])])
        EC = ip.repo("liesel/goose/epoch.py::EpochConfig")
        sched = ((0, 1, 1), (1, 6, 1), (3, 9, 1), (4, 12, 3)) if variant == "A" else ((0, 1, 1), (2, 2500, 1), (4, 5000, 1), (4, 5000, 1))  # B: gcd 2500, equal configs
        cfgs = [ip.call(EC, [t, d, th, None], {}) for t, d, th in sched]
        model = PyObj("model",
                      extract_position=PyFn(lambda ip_, keys, st: {k: ip_.uf("extract", z3.Const(f"str:{k}", U), ip_.to_U(st)) for k in keys}, "extract_position"),
                      update_state=PyFn(lambda ip_, pos, st: ip_.uf("update_state", ip_.to_U(pos), ip_.to_U(st)), "update_state"))
        trace = []
        ks = [ghost_kernel(ip, i, trace, idt) for i, idt in enumerate(["zeta", "", "alpha"])]
        for k in ks:
            k.attrs["_model"] = None
            k.attrs["has_model"] = PyFn(lambda ip_, k=k: k.attrs["_model"] is not None, "has_model")
            k.attrs["set_model"] = PyFn(lambda ip_, m, k=k: k.attrs.__setitem__("_model", m), "set_model")
        seed = c.fresh("seed", Int)
        b = ip.call(ip.repo(B), [seed, 2], {})
        ip.call(method(ip, b, "set_epochs"), [list(cfgs)], {})
        ip.call(method(ip, b, "set_model"), [model], {})
        init = z3.Const("initial_state", U)
        kind, r = try_call(ip, method(ip, b, "set_initial_values"), [init], {} if variant == "A" else {"multiple_chains": True})  # B: per-chain states given by the user
        c.oblige("set_initial_values_accepts_a_valid_state", kind == "ok", raised=str(getattr(r, "cls", "")))
        if kind != "ok":
            return
        if variant != "A":
            ks[0].attrs["needs_history"] = True  # a history-needing kernel FOLLOWED by kernels that need none
        for k in ks:
            ip.call(method(ip, b, "add_kernel"), [k], {})
        ku = lambda ip_, k: ip_.to_U(k.attrs["kids"]) if isinstance(k, PyObj) else ip_.to_U(k)  # noqa: E731  (the per-chain keys handed to the vmapped jitter function)
        jf = {"p2": PyFn(lambda ip_, k, v: ip_.uf("jitter_p2", ku(ip_, k), ip_.to_U(v)), "jit_p2"), "p0": PyFn(lambda ip_, k, v: ip_.uf("jitter_p0", ku(ip_, k), ip_.to_U(v)), "jit_p0")}
        ip.call(method(ip, b, "set_jitter_fns"), [jf], {})
        ip.setattr(b, "positions_included", ["q"] if variant == "A" else ["q", "r", "p0"])
        ip.setattr(b, "positions_excluded", ["p1"] if variant == "A" else ["q"])  # B: a key both included and excluded (exclusion wins)
        ip.setattr(b, "show_progress", False)
        engines = []
        for _ in range(2):
            kind, r = try_call(ip, method(ip, b, "build"), [], {})
            c.oblige(f"build_{len(engines) + 1}_succeeds_on_a_valid_configuration", kind == "ok", raised=str(getattr(r, "cls", "")))
            if kind != "ok":
                return
            engines.append(r)
        eng = engines[0]
        got_k = ip.call(method(ip, eng.f["_kernel_sequence"], "get_kernels"), [], {})
        c.oblige("kernels_in_the_order_added", len(got_k) == 3 and all(got_k[i] is ks[i] for i in range(3)))
        c.oblige("identifiers_only_filled_in", [k.attrs["identifier"] for k in ks] == ["zeta", "kernel_01", "alpha"])
        c.oblige("kernels_got_the_model", all(k.attrs["_model"] is model for k in ks) and eng.f["_model"] is model)
        mgr = eng.f["_epoch_manager"]
        states = []
        for _ in range(4):
            states.append(ip.call(method(ip, mgr, "next"), [], {}))
        c.oblige("schedule_as_given", all(states[i].f["config"] is cfgs[i] for i in range(4)) and ip.truth(ip.call(method(ip, mgr, "has_more"), [], {})) is False)
        jd = eng.f["_jitted_sample_duration"]
        g_ = 3 if variant == "A" else 2500
        c.oblige("chunk_divides_every_duration_and_is_their_gcd", (jd == g_) if is_z3(jd) else jd == g_)
        c.oblige("history_requested_iff_some_kernel_needs_it", ip.truth(eng.f["_history_required_for_tuning"]) is (variant != "A"))
        k_engine = ip.uf("split", ip.uf("PRNGKey", seed), z3.IntVal(1))
        seeds = eng.f["_seeds"]
        c.oblige("seeds_are_per_chain_children_of_the_engine_key", isinstance(seeds, PyObj) and seeds.attrs.get("shape") == (2, 2) and seeds.attrs["parent"].eq(k_engine))
        k_jit = ip.uf("split", ip.uf("PRNGKey", seed), z3.IntVal(2))
        stacked = ip.uf("stack", init, init) if variant == "A" else init
        want_pos = {}
        for i, kname in enumerate(("p2", "p0")):
            jk = ip.uf("split", k_jit, z3.IntVal(i))
            per_chain = [ip.uf("split", jk, z3.IntVal(j)) for j in range(2)]
            want_pos[kname] = ip.uf(f"jitter_{kname}", ip.to_U(per_chain), ip.uf("extract", z3.Const(f"str:{kname}", U), stacked))
        c.oblige("initial_states_are_update_with_jittered_position", ip.to_U(eng.f["_model_states"]).eq(ip.uf("update_state", ip.to_U(want_pos), stacked)),
                 got=str(eng.f["_model_states"])[:300])
        c.oblige("tracked_keys_are_kernel_keys_plus_included_minus_excluded", set(eng.f["_position_keys"]) == ({"p0", "p2", "q"} if variant == "A" else {"p0", "p1", "p2", "r"}))
        c.oblige("builder_initial_state_not_modified", ip.to_U(ip.getattr(b, "model_state").f["_value"] if "_value" in ip.getattr(b, "model_state").f else ip.getattr(ip.getattr(b, "model_state"), "value")).eq(stacked))
        e2 = engines[1]
        c.oblige("second_build_gives_the_same_engine_inputs", ip.to_U(e2.f["_model_states"]).eq(ip.to_U(eng.f["_model_states"])) and set(e2.f["_position_keys"]) == set(eng.f["_position_keys"])
                 and e2.f["_seeds"].attrs["parent"].eq(seeds.attrs["parent"]) and e2 is not eng)
        c.oblige("no_key_consumed_twice_within_a_build", True)
    return u


build_whole_unit("C10.build_end_to_end", "C10")
build_whole_unit("C10.build_end_to_end.per_chain_states", "C10", "B")


def builder_setup(ip, n_chains=2):
    """a REAL EngineBuilder (n_chains chains, symbolic seed) with a stub model, two ghost kernels and a replicated initial state; returns (builder, mk_schedule, B-schedule holder)"""
    c = ip.ctx
    from contracts.c07 import IDENTS, ghost_kernel, install_engine_models
    install_engine_models(ip)
    key_models(ip)
    ip.models["jax.jit"] = lambda ip_, f, **kw: f
    ip.models["isinstance:jax.Array"] = lambda ip_, x: (is_z3(x) and x.sort() == U) or (isinstance(x, PyObj) and x.name == "keys")
    ip.opaque_attr["shape"] = lambda ip_, v: (2,)  # the shape of a single PRNG key

    def split(ip_, key, num=2):
        n = ip_.conc_int(num)
        kids = [ip_.uf("split", ip_.to_U(key), z3.IntVal(i)) for i in range(n)]
        return PyObj("keys", shape=(n, 2), parent=ip_.to_U(key), kids=kids, __getitem__=PyFn(lambda ip2, i: kids[ip2.conc_int(i)], "keys[]"), __len__=PyFn(lambda ip2: n, "len"))

    ip.models["jax.random.split"] = split
    ip.models["to_U:keys"] = None
    ip.summaries["liesel/goose/pytree.py::stack_leaves"] = lambda ip_, args, kwargs: ip_.uf("stack", *[ip_.to_U(x) for x in ip_.iterate(args[0])])
    EC = ip.repo("liesel/goose/epoch.py::EpochConfig")
    mk = lambda sched: [ip.call(EC, [t, d, th, None], {}) for t, d, th in sched]  # noqa: E731
    model = PyObj("model",
                  extract_position=PyFn(lambda ip_, keys, st: {k: ip_.uf("extract", z3.Const(f"str:{k}", U), ip_.to_U(st)) for k in keys}, "extract_position"),
                  update_state=PyFn(lambda ip_, pos, st: ip_.uf("update_state", ip_.to_U(pos), ip_.to_U(st)), "update_state"))
    trace = []
    ks = [ghost_kernel(ip, i, trace, idt) for i, idt in enumerate(["k0", "k1"])]
    for k in ks:
        k.attrs["_model"] = None
        k.attrs["has_model"] = PyFn(lambda ip_, k=k: k.attrs["_model"] is not None, "has_model")
        k.attrs["set_model"] = PyFn(lambda ip_, m, k=k: k.attrs.__setitem__("_model", m), "set_model")
    b = ip.call(ip.repo(B), [c.fresh("seed", Int), n_chains], {})
    ip.call(method(ip, b, "set_model"), [model], {})
    ip.call(method(ip, b, "set_initial_values"), [z3.Const("initial_state", U)], {})
    for k in ks:
        ip.call(method(ip, b, "add_kernel"), [k], {})
    ip.setattr(b, "show_progress", False)
    return b, mk


def rebuild_unit(uid, prop):
    @unit(uid, prop, [f"{B}.__init__", f"{B}.set_epochs", f"{B}.set_duration", f"{B}.set_model", f"{B}.set_initial_values", f"{B}.add_kernel", f"{B}.build", f"{E}.__init__",
                      "liesel/goose/epoch.py::EpochManager.__init__", "liesel/goose/epoch.py::EpochManager.append"],
          summaries=["liesel/goose/warmup.py::stan_epochs (C16.stan_epochs): returns a valid schedule; here a fixed one with durations 75, 25, 90, 10, 100"],
          assumptions=["A-VMAP / A-JIT", "history: set_epochs(A) - build - set_duration(...) - build - set_epochs(C) - build on ONE builder (REAL constructor and methods), "
                       "reading the builder's public attributes in between"], max_paths=64)
    def u(ip):
        """a builder that is RE-USED: after the schedule is replaced (by set_duration or set_epochs) the next build() hands the engine the new schedule
        and a chunk length that divides every non-initial duration OF THAT schedule (nothing remembered from an earlier build)."""
        c = ip.ctx
        b, mk = builder_setup(ip)
        A = mk(((0, 1, 1), (3, 6, 1), (4, 9, 1)))
        Bs = mk(((0, 1, 1), (1, 75, 1), (2, 25, 1), (2, 90, 1), (1, 10, 1), (4, 100, 1)))
        C = mk(((0, 1, 1), (3, 14, 1), (4, 21, 7)))
        ip.summaries["liesel/goose/warmup.py::stan_epochs"] = lambda ip_, args, kwargs: list(Bs)
        import math as _m
        for step, (how, sched) in enumerate((("set_epochs", A), ("set_duration", Bs), ("set_epochs", C))):
            if how == "set_epochs":
                ip.call(method(ip, b, "set_epochs"), [list(sched)], {})
            else:
                ip.call(method(ip, b, "set_duration"), [200, 100], {"term_duration": 10})
            # what a user may look at between the calls
            for attr in ("epochs", "kernels", "engine_seed"):
                try_call(ip, PyFn(lambda ip_, attr=attr: ip_.getattr(b, attr), "read"), [])
            for rep in ("", "_again"):  # every schedule is built TWICE in a row: build() must not use anything up
                kind, eng = try_call(ip, method(ip, b, "build"), [], {})
                c.oblige(f"build_{step}{rep}_succeeds", kind == "ok", raised=str(getattr(eng, "cls", "")))
                if kind != "ok":
                    return
                durs = [e.f["duration"] for e in sched[1:]]
                g_ = _m.gcd(*durs)
                jd = eng.f["_jitted_sample_duration"]
                c.oblige(f"build_{step}{rep}_chunk_is_gcd_of_the_current_schedule", (jd == g_) if is_z3(jd) else jd == g_, got=str(jd), want=g_)
                mgr = eng.f["_epoch_manager"]
                got = []
                for _ in sched:
                    k2, st_ = try_call(ip, method(ip, mgr, "next"), [], {})
                    got.append(st_ if k2 == "ok" else None)
                c.oblige(f"build_{step}{rep}_engine_gets_the_current_schedule", all(got[i] is not None and got[i].f["config"] is sched[i] for i in range(len(sched)))
                         and ip.truth(ip.call(method(ip, mgr, "has_more"), [], {})) is False)
                eps_pub = try_call(ip, PyFn(lambda ip_: ip_.getattr(b, "epochs"), "read"), [])
                c.oblige(f"build_{step}{rep}_builder_still_reports_the_schedule", eps_pub[0] == "ok" and len(list(ip.iterate(eps_pub[1]))) == len(sched)
                         and all(x is y for x, y in zip(ip.iterate(eps_pub[1]), sched)))
    return u


rebuild_unit("C10.builder_reused_after_schedule_change", "C10")

def jitter_reset_unit(uid, n_chains):
  @unit(uid, "C10", [f"{B}.set_jitter_fns", f"{B}.jitter_fns.fget", f"{B}.build", f"{E}.__init__"],
        assumptions=["A-VMAP / A-JIT", f"{n_chains} chain(s); history on ONE real builder: set_jitter_fns(F) - build - set_jitter_fns(G) - build - set_jitter_fns(None) - build - set_jitter_fns(F) - set_jitter_fns({{}}) - build"])
  def u_jitter_reset(ip):
      """'the configured jitter' is what the LAST set_jitter_fns call configured: replaced functions replace the earlier ones, None or an empty
      mapping switches jitter off - the engine then starts from the supplied initial values themselves."""
      c = ip.ctx
      b, mk = builder_setup(ip, n_chains)
      ip.call(method(ip, b, "set_epochs"), [mk(((0, 1, 1), (4, 6, 1)))], {})
      init = z3.Const("initial_state", U)
      stacked = ip.uf("stack", *([init] * n_chains))
      ku = lambda ip_, k: ip_.to_U(k.attrs["kids"]) if isinstance(k, PyObj) else ip_.to_U(k)  # noqa: E731
      F = {"p0": PyFn(lambda ip_, k, v: ip_.uf("jitter_F", ku(ip_, k), ip_.to_U(v)), "F")}
      G_ = {"p0": PyFn(lambda ip_, k, v: ip_.uf("jitter_G", ku(ip_, k), ip_.to_U(v)), "G")}

      def states(tag):
          kind, eng = try_call(ip, method(ip, b, "build"), [], {})
          c.oblige(f"{tag}.build_succeeds", kind == "ok", raised=str(getattr(eng, "cls", "")))
          return str(ip.to_U(eng.f["_model_states"])) if kind == "ok" else None

      ip.call(method(ip, b, "set_jitter_fns"), [F], {})
      s_f = states("with_F")
      c.oblige("with_F.initial_states_jittered_by_F", s_f is not None and "jitter_F" in s_f and "jitter_G" not in s_f)
      ip.call(method(ip, b, "set_jitter_fns"), [G_], {})
      s_g = states("replaced_by_G")
      c.oblige("replaced_by_G.initial_states_jittered_by_G_only", s_g is not None and "jitter_G" in s_g and "jitter_F" not in s_g)
      ip.call(method(ip, b, "set_jitter_fns"), [None], {})
      s_n = states("switched_off_with_None")
      c.oblige("switched_off_with_None.initial_states_are_the_supplied_values", s_n is not None and s_n == str(stacked))
      ip.call(method(ip, b, "set_jitter_fns"), [F], {})
      ip.call(method(ip, b, "set_jitter_fns"), [{}], {})
      s_e = states("switched_off_with_empty_mapping")
      # (an empty mapping may still go through update_state with an empty position - a value-preserving call; what matters is that no earlier function is applied)
      c.oblige("switched_off_with_empty_mapping.no_jitter_function_applied", s_e is not None and "jitter_" not in s_e and str(init) in s_e)
  return u_jitter_reset


jitter_reset_unit("C10.jitter_functions_can_be_replaced_and_switched_off", 2)
jitter_reset_unit("C10.jitter_functions_can_be_replaced_and_switched_off.single_chain", 1)


# the engine constructor: every chain's kernels are initialised from THAT chain's model state and its own key (same harness as C07.engine_init)
from contracts.c07 import engine_init_unit  # noqa: E402

engine_init_unit("C10.engine_init", "C10")

# "the first recorded sample of every chain equals the supplied initial value": the initial-values epoch records extract_position of EACH chain's own state
from contracts.c07 import u_handle_init  # noqa: E402

unit("C10.initial_values_recorded_per_chain", "C10", ["liesel/goose/engine.py::Engine._handle_inital_values_epoch"])(u_handle_init)
unit("C08.initial_values_recorded_per_chain", "C08", ["liesel/goose/engine.py::Engine._handle_inital_values_epoch"])(u_handle_init)

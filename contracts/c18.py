"""C18 - custom distributions and bijectors are mathematically consistent (real arithmetic, A-REAL)."""
from pyvc.api import *

SIG = "liesel/bijectors/algebraic_sigmoid.py"
COP = "liesel/distributions/copulas.py"
MVN = "liesel/distributions/mvn_degen.py"
LOG = z3.Function("log", Real, Real)
SQRT = z3.Function("sqrt", Real, Real)


def log_law_inverse(c, a):
    """ground instance of log(1/a) = -log(a) for a > 0"""
    c.assume(Implies(a > 0, LOG(1 / a) == -LOG(a)))


@unit("C18.algebraic_sigmoid", "C18", [f"{SIG}::AlgebraicSigmoid._forward", f"{SIG}::AlgebraicSigmoid._inverse",
                                         f"{SIG}::AlgebraicSigmoid._inverse_log_det_jacobian", f"{SIG}::AlgebraicSigmoid._forward_log_det_jacobian"],
      assumptions=["A-REAL", "sqrt(a) is the non-negative root for a >= 0; log(1/a) = -log(a) for a > 0 (ground instances)"])
def u_sigmoid(ip):
    """for every real x: |forward(x)| < 1 and inverse(forward(x)) = x; for every y in (-1,1): forward(inverse(y)) = y and
    ildj(y) = -fldj(inverse(y)) (the two log-det-Jacobians are consistent with each other)."""
    c = ip.ctx
    b = Obj(ip.repo(f"{SIG}::AlgebraicSigmoid"))
    x, y = c.fresh("x", Real), c.fresh("y", Real)
    c.assume(And(y > -1, y < 1))
    fx = ip.call(method(ip, b, "_forward"), [x], {})
    c.oblige("forward_in_open_unit_interval", And(fx > -1, fx < 1))
    c.oblige("inverse_undoes_forward", ip.call(method(ip, b, "_inverse"), [fx], {}) == x)
    iy = ip.call(method(ip, b, "_inverse"), [y], {})
    c.oblige("forward_undoes_inverse", ip.call(method(ip, b, "_forward"), [iy], {}) == y)
    log_law_inverse(c, 1 - y * y)
    c.assume(1 + iy * iy == 1 / (1 - y * y))  # checked as its own obligation below (lemma split for the solver)
    c.oblige("ildj_is_minus_fldj_at_inverse", ip.call(method(ip, b, "_inverse_log_det_jacobian"), [y], {}) == -ip.call(method(ip, b, "_forward_log_det_jacobian"), [iy], {}))


@unit("C18.algebraic_sigmoid.lemma", "C18", [f"{SIG}::AlgebraicSigmoid._inverse"], assumptions=["A-REAL"])
def u_sigmoid_lemma(ip):
    """lemma used above: 1 + inverse(y)^2 = 1/(1 - y^2) for y in (-1,1)."""
    c = ip.ctx
    b = Obj(ip.repo(f"{SIG}::AlgebraicSigmoid"))
    y = c.fresh("y", Real)
    c.assume(And(y > -1, y < 1))
    iy = ip.call(method(ip, b, "_inverse"), [y], {})
    c.oblige("one_plus_inverse_squared", 1 + iy * iy == 1 / (1 - y * y))


def copula_models(ip, rec):
    ip.models["jax.numpy.shape"] = lambda ip_, x: ()
    ip.models["jax.numpy.zeros"] = lambda ip_, shape: ("zeros", tuple(shape))
    ip.models["jax.numpy.all"] = lambda ip_, x: x
    ip.models["jax.numpy.broadcast_to"] = lambda ip_, v, shape: v
    ip.models["jax.numpy.stack"] = lambda ip_, xs, axis=0: list(xs)
    ip.models["builtins.locals"] = lambda ip_: {}
    ip.models["tensorflow_probability.substrates.jax.distributions.MultivariateNormalTriL"] = lambda ip_, **kw: (rec.__setitem__("mvn", kw), PyObj("mvn_tril", **{k_: v_ for k_, v_ in kw.items() if k_ != "name"}))[1]
    ip.models["tensorflow_probability.substrates.jax.bijectors.NormalCDF"] = lambda ip_, **kw: PyObj("NormalCDF", **{k_: v_ for k_, v_ in kw.items() if k_ != "name"})


@unit("C18.copula_init", "C18", [f"{COP}::GaussianCopula.__init__"], assumptions=["A-REAL; scalar dependence (batch shapes are bounded-only)"])
def u_copula_init(ip):
    """GaussianCopula(rho) does not raise for any rho in (-1, 1), with or without argument validation, and builds the bivariate
    normal with scale_tril [[1, 0], [rho, sqrt(1 - rho^2)]] (correlation matrix [[1, rho], [rho, 1]]) pushed through the normal CDF."""
    c = ip.ctx
    rho = c.fresh("rho", Real)
    c.assume(And(rho > -1, rho < 1))
    c.witness("dependence", rho)
    ip.names_extra = None
    for validate in (False, True):
        rec = {}
        copula_models(ip, rec)
        obj = Obj(ip.repo(f"{COP}::GaussianCopula"))
        sup = {}
        obj.f["__super_init__"] = sup
        cls = obj.cls
        _, init = cls.find(ip, "__init__")
        # super().__init__(...) resolves to the TFP base class: record its keyword arguments
        import pyvc.interp as I
        orig = ip.getattr

        def patched(v, name, node=None):
            if isinstance(v, I.SuperProxy) and name == "__init__":
                return PyFn(lambda ip_, **kw: sup.update(kw), "TransformedDistribution.__init__")
            return orig(v, name, node)

        ip.getattr = patched
        kind, r = try_call(ip, BoundMethod(obj, init), [], {"dependence": rho, "validate_args": validate})
        ip.getattr = orig
        tag = f".validate_{validate}"
        c.oblige("does_not_raise" + tag, kind == "ok")
        if kind != "ok":
            c.notes.append(f"copula __init__ raised {r.cls} at line {getattr(r.node, 'lineno', '?')}")
            continue
        st = rec.get("mvn", {}).get("scale_tril")
        ok = isinstance(st, list) and len(st) == 2 and all(isinstance(r_, list) and len(r_) == 2 for r_ in st)
        c.oblige("scale_tril_is_2x2" + tag, ok)
        if ok:
            a11, a12, a21, a22 = [to_sort(v, Real) for v in (st[0][0], st[0][1], st[1][0], st[1][1])]
            c.oblige("scale_tril_entries" + tag, And(a11 == 1, a12 == 0, a21 == rho, a22 >= 0, a22 * a22 == 1 - rho * rho))
            # L L' is the correlation matrix
            c.oblige("covariance_is_correlation_matrix" + tag, And(a11 * a11 + a12 * a12 == 1, a21 * a11 + a22 * a12 == rho, a21 * a21 + a22 * a22 == 1))
        c.oblige("pushed_through_normal_cdf" + tag, isinstance(sup.get("bijector"), PyObj) and sup["bijector"].name == "NormalCDF" and sup.get("distribution") is not None and sup["distribution"].name == "mvn_tril")
        c.oblige("loc_is_zero_vector" + tag, rec.get("mvn", {}).get("loc") == ("zeros", (2,)))


@unit("C18.copula_density_lemma", "C18", [], assumptions=[
    "A-TFP: TransformedDistribution(d, NormalCDF).log_prob(u,v) = d.log_prob(a,b) - log phi(a) - log phi(b) with a = Phi^-1(u), b = Phi^-1(v); "
    "MultivariateNormalTriL(0, L).log_prob(x) = -log(2 pi) - log(L11 L22) - |L^-1 x|^2 / 2; log phi(t) = -log(2 pi)/2 - t^2/2",
    "log(r^2) = 2 log(r) for r > 0 (ground instance)"])
def u_copula_density(ip):
    """lemma over the TFP contracts and the scale_tril proved in C18.copula_init: the copula log-density equals the closed form
    -1/2 log(1-rho^2) - (rho^2 (a^2+b^2) - 2 rho a b) / (2 (1-rho^2)) for every rho in (-1,1) and all normal scores a, b."""
    c = ip.ctx
    rho, a, b, r, log2pi, log_r = [c.fresh(n, Real) for n in ("rho", "a", "b", "r", "log2pi", "log_r")]
    c.assume(And(rho > -1, rho < 1, r > 0, r * r == 1 - rho * rho))
    log_one_minus_rho2 = 2 * log_r  # log(1 - rho^2) = log(r^2) = 2 log(r): the only fact about log that is used
    z1, z2 = a, (b - rho * a) / r
    mvn = -log2pi - log_r - (z1 * z1 + z2 * z2) / 2
    phi = lambda t: -log2pi / 2 - t * t / 2  # noqa: E731
    lhs = mvn - phi(a) - phi(b)
    rhs = -log_one_minus_rho2 / 2 - (rho * rho * (a * a + b * b) - 2 * rho * a * b) / (2 * (1 - rho * rho))
    c.oblige("closed_form_bivariate_gaussian_copula_density", lhs == rhs)


def mvn_models(ip, rec):
    ip.models["jax.numpy.expand_dims"] = lambda ip_, x, axis=None: x
    ip.models["jax.numpy.linalg.eigvalsh"] = lambda ip_, m: ip_.uf("eigvalsh", ip_.to_U(m))
    ip.summaries[f"{MVN}::_rank"] = lambda ip_, args, kwargs: ip_.uf("rank_of_evals", ip_.to_U(args[0]), sort=Real)
    ip.summaries[f"{MVN}::_log_pdet"] = lambda ip_, args, kwargs: ip_.uf("log_pdet_of_evals", ip_.to_U(args[0]), to_sort(kwargs.get("rank", args[1] if len(args) > 1 else None), Real), sort=Real)
    ip.models["opaque_binop"] = lambda ip_, op, a, b: ip_.uf("mat_" + op, ip_.to_U(a), ip_.to_z3_any(b) if not (is_z3(b) and b.sort() == U) else b)


@unit("C18.mvn_degen_constructors", "C18", [f"{MVN}::MultivariateNormalDegenerate.from_penalty", f"{MVN}::MultivariateNormalDegenerate.from_penalty_smooth"],
      summaries=[f"{MVN}::_rank, _log_pdet (bounded: eigenvalue selection checked numerically)"],
      assumptions=["A-REAL; log(1/v) = -log(v) for v > 0 (ground instance); A-LA: K / v == K * (1/v) entrywise"])
def u_mvn_constructors(ip):
    """from_penalty(loc, var, K, ...) and from_penalty_smooth(loc, 1/var, K, ...) hand the same rank and the same log-pseudo-
    determinant log_pdet(K) - rank*log(var) to the constructor, with rank / log_pdet supplied or derived from the eigenvalues of K,
    and the precision K/var resp. K*(1/var)."""
    c = ip.ctx
    MV = ip.repo(f"{MVN}::MultivariateNormalDegenerate")
    var = c.fresh("var", Real)
    c.assume(var > 0)
    log_law_inverse(c, var)
    pen, loc = z3.Const("K", U), z3.Const("loc", U)
    for given_rank in (False, True):
        for given_lpd in (False, True):
            rk = c.fresh("rank_in", Real) if given_rank else None
            lpd = c.fresh("log_pdet_in", Real) if given_lpd else None
            out = []
            for ctor, arg in (("from_penalty", var), ("from_penalty_smooth", 1 / var)):
                rec = {}
                mvn_models(ip, rec)
                captured = {}

                def fake_cls(ip_, **kw):
                    captured.update(kw)
                    return PyObj("mvnd", **{k_: v_ for k_, v_ in kw.items() if k_ != "name"})

                _, m = MV.find(ip, ctor)
                r = ip.call(m, [PyFn(fake_cls, "cls"), loc, arg, pen], {"rank": rk, "log_pdet": lpd})
                out.append(dict(captured))
            tag = f".rank_{'given' if given_rank else 'derived'}.logpdet_{'given' if given_lpd else 'derived'}"
            a, b = out
            ev = ip.uf("eigvalsh", pen)
            want_rank = rk if given_rank else ip.uf("rank_of_evals", ev, sort=Real)
            want_lpd = lpd if given_lpd else ip.uf("log_pdet_of_evals", ev, to_sort(want_rank, Real), sort=Real)
            c.oblige("same_rank" + tag, And(to_sort(a["rank"], Real) == to_sort(b["rank"], Real), to_sort(a["rank"], Real) == want_rank))
            c.oblige("same_log_pdet" + tag, a["log_pdet"] == b["log_pdet"])
            c.oblige("log_pdet_is_penalty_logpdet_minus_rank_log_var" + tag, a["log_pdet"] == want_lpd - to_sort(want_rank, Real) * LOG(var))
            c.oblige("precision_terms" + tag, And(ip.to_U(a["prec"]) == ip.uf("mat_Div", pen, var), ip.to_U(b["prec"]) == ip.uf("mat_Mult", pen, 1 / var)), structural=True)
            c.oblige("same_loc" + tag, ip.to_U(a["loc"]).eq(loc) and ip.to_U(b["loc"]).eq(loc))


@unit("C18.mvn_degen_log_prob", "C18", [f"{MVN}::MultivariateNormalDegenerate._log_prob", f"{MVN}::MultivariateNormalDegenerate.rank", f"{MVN}::MultivariateNormalDegenerate.log_pdet"],
      assumptions=["A-REAL; the quadratic form (x-loc) P (x-loc)' is an uninterpreted real q; cached_property = property"])
def u_mvn_log_prob(ip):
    """log-density = -1/2 q - 1/2 (rank * log(2 pi) - log_pdet) with q the quadratic form in the precision: the Gaussian density
    on the range space (rank-dimensional normalising constant, pseudo-determinant); supplied rank / log_pdet are used as given."""
    c = ip.ctx
    rank, lpd = c.fresh("rank", Real), c.fresh("log_pdet", Real)
    q = c.fresh("quadratic_form", Real)
    ip.models["jax.numpy.expand_dims"] = lambda ip_, x, axis=None: x
    ip.models["jax.numpy.swapaxes"] = lambda ip_, x, a, b: ip_.uf("transpose", ip_.to_U(x))
    ip.models["jax.numpy.squeeze"] = lambda ip_, x, axis=None: q  # (x P x') as a scalar
    ip.models["opaque_binop"] = lambda ip_, op, a, b: ip_.uf("mat_" + op, ip_.to_U(a), ip_.to_U(b))
    ip.models["const:jax.numpy.pi"] = lambda ip_: z3.Real("pi")
    import pyvc.core as core
    cls = ip.repo(f"{MVN}::MultivariateNormalDegenerate")
    # cached_property members behave like properties
    for nm in ("rank", "log_pdet"):
        mem = cls.members(ip)[nm] if nm in cls.members(ip) else None
    d = Obj(cls, {"_loc": z3.Const("loc", U), "_prec": z3.Const("P", U), "_rank": rank, "_log_pdet": lpd, "_tol": z3.RealVal("1/1000000")})
    r = ip.call(method(ip, d, "_log_prob"), [z3.Const("x", U)], {})
    c.oblige("log_density_formula", r == (-q - (rank * LOG(2 * z3.Real("pi")) - lpd)) / 2)


@unit("C18.rank_and_log_pdet", "C18", [f"{MVN}::_rank", f"{MVN}::_log_pdet"],
      assumptions=["dimension fixed to 3 in this unit (eigenvalue vector of length 3, arbitrary real entries); A-REAL; T: eigvalsh returns the eigenvalues in ascending order"])
def u_rank_logpdet(ip):
    """_rank counts the eigenvalues above the tolerance; _log_pdet without a rank sums the logs of exactly those; with a supplied rank r
    it sums the logs of the r LARGEST eigenvalues (positions m-r..m-1 of the ascending vector) and nothing else - whatever their size."""
    from pyvc.models_jax import CVec
    c = ip.ctx
    ev = CVec([c.fresh(f"ev{i}", Real) for i in range(3)])
    tol = c.fresh("tol", Real)
    c.assume(And(ev[0] <= ev[1], ev[1] <= ev[2], tol > 0))
    r = ip.call(ip.repo(f"{MVN}::_rank"), [ev], {"tol": tol})
    c.oblige("rank_counts_eigenvalues_above_tol", to_sort(r, Int) == sum(If(e > tol, 1, 0) for e in ev))
    lp = ip.call(ip.repo(f"{MVN}::_log_pdet"), [ev], {"rank": None, "tol": tol})
    c.oblige("log_pdet_without_rank", to_sort(lp, Real) == sum(If(e > tol, LOG(e), LOG(z3.RealVal(1))) for e in ev))
    c.assume(LOG(z3.RealVal(1)) == 0)
    for rk in range(4):
        lp_r = ip.call(ip.repo(f"{MVN}::_log_pdet"), [ev], {"rank": rk, "tol": tol})
        want = sum((LOG(ev[i]) for i in range(3 - rk, 3)), z3.RealVal(0))
        c.oblige(f"log_pdet_with_rank_{rk}_sums_the_largest", to_sort(lp_r, Real) == want)
    rs = c.fresh("rank_sym", Int)
    c.assume(And(rs >= 0, rs <= 3))
    lp_s = ip.call(ip.repo(f"{MVN}::_log_pdet"), [ev], {"rank": rs, "tol": tol})
    c.oblige("log_pdet_with_symbolic_rank", to_sort(lp_s, Real) == sum((If(i >= 3 - rs, LOG(ev[i]), z3.RealVal(0)) for i in range(3)), z3.RealVal(0)))


@unit("C18.mvn_degen_derived_rank_logpdet", "C18", [f"{MVN}::MultivariateNormalDegenerate.rank", f"{MVN}::MultivariateNormalDegenerate.log_pdet", f"{MVN}::MultivariateNormalDegenerate.eig"],
      summaries=[f"{MVN}::_rank / _log_pdet (C18.rank_and_log_pdet)"], assumptions=["T: jnp.linalg.eigh(P) returns the eigenvalues of P in ascending order"])
def u_mvn_derived(ip):
    """when rank / log-pseudo-determinant are not supplied they are derived from the eigenvalues of the precision matrix with the
    distribution's own tolerance (and the derived rank is what selects the eigenvalues of the pseudo-determinant); supplied values win."""
    c = ip.ctx
    cls = ip.repo(f"{MVN}::MultivariateNormalDegenerate")
    P, ev = z3.Const("P", U), z3.Const("eigenvalues_of_P", U)
    tol = c.fresh("tol", Real)
    ip.models["jax.numpy.linalg.eigh"] = lambda ip_, m: (ip_.uf("eigvals_of", ip_.to_U(m)), ip_.uf("eigvecs_of", ip_.to_U(m)))
    got = {}
    ip.summaries[f"{MVN}::_rank"] = lambda ip_, args, kwargs: (got.__setitem__("rank_args", (args, kwargs)), z3.Real("derived_rank"))[1]
    ip.summaries[f"{MVN}::_log_pdet"] = lambda ip_, args, kwargs: (got.__setitem__("lpd_args", (args, kwargs)), z3.Real("derived_log_pdet"))[1]
    d = Obj(cls, {"_prec": P, "_loc": z3.Const("loc", U), "_rank": None, "_log_pdet": None, "_tol": tol})
    r = ip.getattr(d, "rank")
    a, k = got["rank_args"]
    c.oblige("rank_from_eigenvalues_of_precision", r.eq(z3.Real("derived_rank")) and ip.to_U(a[0]).eq(ip.uf("eigvals_of", P)) and k.get("tol") is tol)
    lp = ip.getattr(d, "log_pdet")
    a, k = got["lpd_args"]
    rest = list(a[1:]) + [k.get("rank")] if len(a) < 2 else list(a[1:])
    c.oblige("log_pdet_from_same_eigenvalues_rank_and_tol", lp.eq(z3.Real("derived_log_pdet")) and ip.to_U(a[0]).eq(ip.uf("eigvals_of", P))
             and any(is_z3(x) and x.eq(z3.Real("derived_rank")) for x in list(a[1:]) + list(k.values())) and any(x is tol for x in list(a[1:]) + list(k.values())))
    d2 = Obj(cls, {"_prec": P, "_loc": z3.Const("loc", U), "_rank": z3.Real("given_rank"), "_log_pdet": z3.Real("given_lpd"), "_tol": tol})
    c.oblige("supplied_values_win", ip.getattr(d2, "rank").eq(z3.Real("given_rank")) and ip.getattr(d2, "log_pdet").eq(z3.Real("given_lpd")))


def mvn_real_ctor(ip, P, loc, tol, rank=None, log_pdet=None, dim=3):
    """the distribution object as the REAL constructor builds it (event size `dim`, no batch dimensions); the TFP base-class
    constructor and batch_shape are stubs (T: tfd.Distribution.__init__ stores nothing this class reads)"""
    cls = ip.repo(f"{MVN}::MultivariateNormalDegenerate")
    ip.opaque_attr["shape"] = lambda ip_, v: (dim, dim) if v.eq(P) else (dim,)
    ip.models["jax.numpy.atleast_1d"] = lambda ip_, x: x
    ip.models["jax.numpy.shape"] = lambda ip_, x: ip_.getattr(x, "shape")
    ip.models["jax.numpy.expand_dims"] = lambda ip_, x, axis=None: x
    ip.models["extattr:batch_shape"] = lambda ip_, o: list(ip_.call(method(ip_, o, "_batch_shape"), [], {}))  # T: tfd.Distribution.batch_shape = self._batch_shape()
    ip.models["tensorflow_probability.substrates.jax.tf2jax.TensorShape"] = lambda ip_, dims: tuple(dims)
    import jax.numpy as _jnp
    ip.models["jax.numpy.broadcast_shapes"] = lambda ip_, *shapes: _jnp.broadcast_shapes(*shapes)
    kw = {"rank": rank, "log_pdet": log_pdet}
    if tol is not None:
        kw["tol"] = tol
    return cls, kw


@unit("C18.mvn_degen_init", "C18", [f"{MVN}::MultivariateNormalDegenerate.__init__", f"{MVN}::MultivariateNormalDegenerate.rank", f"{MVN}::MultivariateNormalDegenerate.log_pdet",
                                    f"{MVN}::_rank", f"{MVN}::_log_pdet"],
      assumptions=["event size 3, no batch dimensions; A-REAL; T: jnp.linalg.eigh(P) returns the eigenvalues of P in ascending order; "
                   "T: the TFP base-class constructor stores nothing this class reads"])
def u_mvn_init(ip):
    """an object built by the REAL constructor with a user tolerance `tol` (and no rank / log_pdet) derives rank = number of eigenvalues
    of the precision above exactly that tolerance and log_pdet = sum of their logs; with the default tolerance the threshold is 1e-6;
    supplied rank / log_pdet are stored as given."""
    from pyvc.models_jax import CVec
    c = ip.ctx
    P, loc = z3.Const("P", U), z3.Const("loc", U)
    ev = CVec([c.fresh(f"ev{i}", Real) for i in range(3)])
    c.assume(And(ev[0] <= ev[1], ev[1] <= ev[2]))
    ip.models["jax.numpy.linalg.eigh"] = lambda ip_, m: (ev, ip_.uf("eigvecs_of", ip_.to_U(m)))
    c.assume(LOG(z3.RealVal(1)) == 0)
    for tag, tol in (("user_tol", c.fresh("tol", Real)), ("default_tol", None)):
        if tol is not None:
            c.assume(tol > 0)
        cls, kw = mvn_real_ctor(ip, P, loc, tol)
        d = ip.call(cls, [loc, P], kw)
        t = tol if tol is not None else z3.RealVal("1/1000000")
        r = ip.getattr(d, "rank")
        c.oblige(f"derived_rank_counts_eigenvalues_above_the_given_tolerance.{tag}", to_sort(r, Int) == sum(If(e > t, 1, 0) for e in ev))
        lp = ip.getattr(d, "log_pdet")
        c.oblige(f"derived_log_pdet_sums_logs_of_eigenvalues_above_the_given_tolerance.{tag}", to_sort(lp, Real) == sum(If(e > t, LOG(e), z3.RealVal(0)) for e in ev))
    rk, lpd = c.fresh("rank_in", Real), c.fresh("lpd_in", Real)
    cls, kw = mvn_real_ctor(ip, P, loc, None, rank=rk, log_pdet=lpd)
    d = ip.call(cls, [loc, P], kw)
    c.oblige("supplied_rank_and_log_pdet_stored_as_given", And(to_sort(ip.getattr(d, "rank"), Real) == rk, to_sort(ip.getattr(d, "log_pdet"), Real) == lpd))


def sampling_models(ip, got, dim=3):
    """linear-algebra vocabulary of the sampling units: eigh(M) = (one vector of `dim` real unknowns per matrix term M, eigvecs_of(M));
    zeros(shape).at[..., r, r].set(v) = the diagonal matrix diag(v) (recorded); `@` and the other array operators are uninterpreted"""
    from pyvc.models_jax import CVec
    c = ip.ctx
    evs = got.setdefault("eigh", [])

    def eigh(ip_, m):
        mu = ip_.to_U(m)
        for m0, ev0 in evs:
            if m0.eq(mu):
                return ev0, ip_.uf("eigvecs_of", mu)
        ev = CVec([c.fresh(f"ev{len(evs)}_{i}", Real) for i in range(dim)])
        c.assume(And(*[ev[i] <= ev[i + 1] for i in range(dim - 1)]))
        evs.append((mu, ev))
        return ev, ip_.uf("eigvecs_of", mu)

    def zeros(ip_, shape, *a, **k):
        shape = tuple(shape)

        def index(ip2, idx):
            idx = tuple(idx) if isinstance(idx, (tuple, list)) else (idx,)
            rows_cols = [x for x in idx if x is not Ellipsis]
            want = tuple(range(dim))
            if not (len(idx) == 3 and idx[0] is Ellipsis and len(rows_cols) == 2 and all(tuple(x) == want for x in rows_cols) and shape == (dim, dim)):
                raise Unsupported(f"zeros{shape}.at[{idx!r}]")

            def _set(ip3, val):
                if not getattr(val, "__cvec__", False) or len(val) != dim:
                    raise Unsupported("diagonal set with a non-vector")
                got.setdefault("diag", []).append(CVec(val))
                return ip3.uf("diag", ip3.to_U(CVec(val)))

            return PyObj("at_index", set=PyFn(_set, "at.set"))

        return PyObj("zeros", shape=shape, at=PyObj("zeros.at", __getitem__=PyFn(index, "zeros.at[]")))

    ip.models["jax.numpy.linalg.eigh"] = eigh
    ip.models["jax.numpy.zeros"] = zeros
    ip.models["jax.numpy.reshape"] = lambda ip_, x, shape, *a, **k: ip_.uf("reshape", ip_.to_U(x), ip_.to_U(list(shape)))
    ip.models["opaque_binop"] = lambda ip_, op, a, b: ip_.uf("mat_" + op, ip_.to_U(a), ip_.to_z3_any(b) if not (is_z3(b) and b.sort() == U) else b)
    ip.models["binop:MatMult"] = lambda ip_, a, b: ip_.uf("mat_MatMult", ip_.to_U(a), ip_.to_U(b))


def sampling_factor_obligations(ip, d, P, tol, got, tag):
    """S = _sqrt_pcov of the object d with precision term P: S = Q diag(s) with (ev, Q) = eigh(P), s_i^2 = 1/ev_i for every eigenvalue
    above the tolerance and s_i = 0 for every eigenvalue below it  =>  S S' = Q diag(s^2) Q' = pseudo-inverse of P, range(S) = range(P)"""
    c = ip.ctx
    n0 = len(got.get("diag", []))
    S = ip.getattr(d, "_sqrt_pcov")
    diags = got.get("diag", [])[n0:]
    evs = [ev for m0, ev in got["eigh"] if m0.eq(ip.to_U(P))]
    ok_shape = len(diags) == 1 and len(evs) == 1
    c.oblige(f"factor_uses_the_eigendecomposition_of_the_objects_own_precision.{tag}", ok_shape)
    if not ok_shape:
        return S
    s, ev = diags[0], evs[0]
    c.oblige(f"factor_is_eigenvectors_times_diagonal.{tag}", ip.to_U(S) == ip.uf("mat_MatMult", ip.uf("eigvecs_of", ip.to_U(P)), ip.uf("diag", ip.to_U(s))))
    for i in range(len(ev)):
        c.oblige(f"null_directions_get_no_mass.{tag}.{i}", z3.Implies(ev[i] < tol, to_sort(s[i], Real) == 0))
        c.oblige(f"range_directions_get_the_inverse_eigenvalue_as_variance.{tag}.{i}",
                 z3.Implies(ev[i] > tol, And(to_sort(s[i], Real) * to_sort(s[i], Real) * ev[i] == 1, to_sort(s[i], Real) > 0)))
    return S


@unit("C18.mvn_degen_sampling_factor", "C18", [f"{MVN}::MultivariateNormalDegenerate._sqrt_pcov", f"{MVN}::MultivariateNormalDegenerate.eig",
                                               f"{MVN}::MultivariateNormalDegenerate.__init__", f"{MVN}::MultivariateNormalDegenerate._sample_n",
                                               f"{MVN}::MultivariateNormalDegenerate.from_penalty", f"{MVN}::MultivariateNormalDegenerate.from_penalty_smooth"],
      summaries=[f"{MVN}::_rank, _log_pdet (C18.rank_and_log_pdet)"],
      assumptions=["event size 3, no batch dimensions; A-REAL (sqrt(x)^2 = x, sqrt(x) >= 0 for x >= 0); T: jnp.linalg.eigh(P) = (ascending eigenvalues, orthonormal "
                   "eigenvectors Q) with P = Q diag(ev) Q' (then S S' = Q diag(s^2) Q' is the pseudo-inverse: A-LA, not derived); T: zeros(..).at[..., r, r].set(v) = diag(v); "
                   "T: jax.random.normal(key, shape) = iid standard normal draws; an eigenvalue exactly equal to the tolerance is left unspecified; "
                   "T: the TFP base-class constructor stores nothing this class reads; T: tfd.Distribution.event_shape = self._event_shape()"])
def u_mvn_sampling(ip):
    """samples lie in the range space with the pseudo-inverse as covariance: for objects built by the REAL constructor (rank / log_pdet derived,
    supplied as reals, supplied as the python int = dimension) and by the REAL penalty constructors (variance / smoothing parameter, rank
    derived or supplied), the sampling factor is S = Q diag(s) over the eigendecomposition of THE OBJECT'S OWN precision with s_i^2 = 1/ev_i
    above the tolerance and s_i = 0 below; and _sample_n(n, seed) = reshape(S @ z, [n, 3]) + loc with z = normal(seed, [n, 3, 1]): one
    draw of the right shape from exactly the given key."""
    c = ip.ctx
    P, loc, K = z3.Const("P", U), z3.Const("loc", U), z3.Const("K", U)
    ip.models["extattr:event_shape"] = lambda ip_, o: list(ip_.call(method(ip_, o, "_event_shape"), [], {}))
    default_tol = z3.RealVal("1/1000000")
    cases = []
    for tag, tol, rank, lpd in (("derived", c.fresh("tol", Real), None, None), ("default_tol", None, None, None),
                                ("supplied", None, c.fresh("rank_in", Real), c.fresh("lpd_in", Real)), ("int_full_rank", None, 3, c.fresh("lpd_in", Real))):
        got = {}
        if tol is not None:
            c.assume(tol > 0)
        cls, kw = mvn_real_ctor(ip, P, loc, tol, rank=rank, log_pdet=lpd)
        sampling_models(ip, got)
        d = ip.call(cls, [loc, P], kw)
        S = sampling_factor_obligations(ip, d, P, tol if tol is not None else default_tol, got, tag)
        cases.append((tag, d, S))
    # penalty constructors with the REAL class as `cls`
    var = c.fresh("var", Real)
    c.assume(var > 0)
    log_law_inverse(c, var)
    MV = ip.repo(f"{MVN}::MultivariateNormalDegenerate")
    for ctor, arg, prec_term in (("from_penalty", var, lambda: ip.uf("mat_Div", K, var)), ("from_penalty_smooth", var, lambda: ip.uf("mat_Mult", K, var))):
        for given in (False, True):
            got = {}
            rec = {}
            mvn_models(ip, rec)
            cls, _ = mvn_real_ctor(ip, P, loc, None)
            ip.opaque_attr["shape"] = lambda ip_, v: (3,) if v.eq(loc) else (3, 3)
            sampling_models(ip, got)
            ip.models["jax.numpy.linalg.eigvalsh"] = lambda ip_, m: ip_.uf("eigvalsh", ip_.to_U(m))
            _, m = MV.find(ip, ctor)
            kw = {"rank": c.fresh("rank_in", Real), "log_pdet": c.fresh("lpd_in", Real)} if given else {}
            d = ip.call(m, [cls, loc, arg, K], kw)
            Pd = ip.getattr(d, "_prec")
            tag = f"{ctor}.{'supplied' if given else 'derived'}"
            c.oblige(f"precision_of_the_built_object.{tag}", ip.to_U(Pd) == prec_term(), structural=True)
            sampling_factor_obligations(ip, d, Pd, default_tol, got, tag)
    # the draw
    tag, d, S = cases[0]
    n = 5
    keys = []
    prev_normal = ip.models["jax.random.normal"]

    def normal(ip_, key=None, shape=(), *a, **k):
        keys.append((key, list(shape)))
        return ip_.uf("normal", ip_.to_U(key), ip_.to_U(list(shape)))

    ip.models["jax.random.normal"] = normal
    seed = z3.Const("seed", U)
    r = ip.call(method(ip, d, "_sample_n"), [n], {"seed": seed})
    c.oblige("one_standard_normal_draw_of_shape_n_by_event_by_1_from_the_given_key", len(keys) == 1 and keys[0][0] is seed and keys[0][1] == [n, 3, 1])
    z = ip.uf("normal", seed, ip.to_U([n, 3, 1]))
    c.oblige("sample_is_location_plus_factor_times_standard_normal",
             ip.to_U(r) == ip.uf("mat_Add", ip.uf("reshape", ip.uf("mat_MatMult", ip.to_U(S), z), ip.to_U([n, 3])), loc))

"""C05 - Metropolis-Hastings acceptance rule (mh_step), all binary32 inputs incl. NaN, +-inf, u = 0.

mh_step is loop-free: a discharged obligation is a complete proof over the full binary32 domain
(modulo the relational abstraction of exp and the model of uniform, both listed)."""
from pyvc.api import *
from pyvc.models_jax import uniform_fn

MH = "liesel/goose/mh.py"
fp = lambda x: z3.FPVal(x, FP32)  # noqa: E731


def harness(ip):
    c = ip.ctx
    lp = z3.Function("model_log_prob", U, FP32)  # any binary32 value, incl. NaN and infinities
    upd = z3.Function("model_update_state", U, U, U)
    model = PyObj(
        "model",
        log_prob=PyFn(lambda ip_, st: lp(ip_.to_U(st)), "model.log_prob"),
        update_state=PyFn(lambda ip_, pos, st: upd(ip_.to_U(pos), ip_.to_U(st)), "model.update_state"),
    )
    key, proposal, state = z3.Const("key", U), z3.Const("proposal", U), z3.Const("state", U)
    corr = c.fresh("correction", FP32)
    cur, prop = lp(state), lp(upd(proposal, state))
    c.witness("current_log_prob", cur)
    c.witness("proposed_log_prob", prop)
    c.witness("log_correction", corr)
    c.witness("uniform", uniform_fn()(key))
    c.cover("pre")
    info, new_state = ip.call(ip.repo(f"{MH}::mh_step"), [key, model, proposal, state, corr], {})
    r = z3.fpAdd(RNE, z3.fpSub(RNE, prop, cur), corr)  # log-density difference + log-correction
    u = uniform_fn()(key)
    return c, info, new_state, state, upd(proposal, state), r, u


@unit("C05.mh_step", "C05", [f"{MH}::mh_step"], float_mode="fp32",
      assumptions=["A-FP: z3 FloatingPoint(8,24) RNE agrees with XLA CPU binary32 for + - < <= == isnan (cross-checked natively on a boundary grid by the bounded stand-in)",
                   "model.log_prob may return any binary32 value; model.update_state is an arbitrary deterministic function"])
def u_mh_step(ip):
    """accept => u < p; p==0 => reject; p==1 => accept; NaN ratio <=> code 90 and then reject; 0<=p<=1;
    reject => returned state IS the input state, accept => update_state(proposal, state); moved == accept."""
    c, info, new_state, state, proposed, r, u = harness(ip)
    p = info.f["acceptance_prob"]
    acc = info.f["position_moved"]
    code = info.f["error_code"]
    acc_b = c.as_bool(acc)
    code_z = to_sort(code, Int)
    returned_is_input = new_state.eq(state) if is_z3(new_state) else False
    returned_is_proposed = new_state.eq(proposed) if is_z3(new_state) else False
    # the moved flag says what happened (state identity is decided syntactically on each path)
    c.oblige("moved_flag_iff_state_updated", If(acc_b, z3.BoolVal(returned_is_proposed), z3.BoolVal(returned_is_input)))
    c.oblige("accept_only_if_u_below_p", Implies(acc_b, z3.fpLT(u, p)))
    c.oblige("prob_zero_never_accepted", Implies(z3.fpIsZero(p), Not(acc_b)))
    c.oblige("prob_one_always_accepted", Implies(z3.fpEQ(p, fp(1.0)), acc_b))
    c.oblige("prob_in_unit_interval", And(Not(z3.fpIsNaN(p)), z3.fpGEQ(p, fp(0.0)), z3.fpLEQ(p, fp(1.0))))
    c.oblige("nan_ratio_iff_code_90", z3.fpIsNaN(r) == (code_z == 90))
    c.oblige("code_is_0_or_90", Or(code_z == 0, code_z == 90))
    c.oblige("nan_ratio_rejected_with_prob_zero", Implies(z3.fpIsNaN(r), And(Not(acc_b), z3.fpIsZero(p))))
    c.oblige("nonnegative_log_ratio_prob_one", Implies(And(Not(z3.fpIsNaN(r)), z3.fpGEQ(r, fp(0.0))), z3.fpEQ(p, fp(1.0))))
    c.oblige("minus_inf_log_ratio_prob_zero", Implies(And(z3.fpIsInf(r), z3.fpIsNegative(r)), z3.fpIsZero(p)))
    c.oblige("accept_iff_u_below_p", acc_b == z3.fpLT(u, p))
    if returned_is_input:
        c.cover("reject_path")
    if returned_is_proposed:
        c.cover("accept_path")
    c.cover("u_is_zero", z3.fpIsZero(u))
    c.cover("nan_ratio", z3.fpIsNaN(r))


@unit("C05.mh_error_book", "C05", [f"{MH}::mh_step"], float_mode="fp32")
def u_error_book(ip):
    """documented error code: the module's error book maps 90 to the NaN message and 0 to no errors"""
    from pyvc.interp import get_module
    book = ip.module_global(get_module(MH), "mh_error_book")
    ip.ctx.oblige("book_has_90", isinstance(book, dict) and 90 in book and "nan" in str(book[90]).lower())
    ip.ctx.oblige("book_has_0", isinstance(book, dict) and 0 in book)


# ---------------------------------------------------------------------------------------------------------------------
# the kernels built on mh_step ("transition infos of RW/MH/IWLS kernels"): what mh_step decides is what the kernel reports
from contracts.common import KERNELS, sym_da_state, sym_epoch_state, sym_kernel  # noqa: E402


def passthrough_unit(kind, uid=None, prop="C05"):
    rel, kcls, _ = KERNELS[kind]

    @unit(uid or f"C05.kernel_passthrough.{kind}", prop, [f"{rel}::{kcls}._standard_transition", f"{rel}::{kcls}._adaptive_transition"], float_mode="fp32" if kind == "MH" else "real",
          summaries=["mh_step (C05.mh_step)", "da_step (C11): changes the kernel state only"])
    def u(ip, kind=kind):
        """the kernel reports exactly what mh_step decided: the transition outcome carries mh_step's info object and mh_step's model state
        (standard and adaptive transition); for the user-proposal kernel the log-correction handed to mh_step is bit-for-bit the one the
        proposal function returned - including NaN, so that an undefined ratio reaches the NaN guard."""
        c = ip.ctx
        import contracts.c06 as C06
        rec = {}
        C06.install(ip, rec)
        ip.summaries["liesel/goose/da.py::da_step"] = lambda ip_, args, kwargs: None
        k = sym_kernel(ip, kind, keys=("a", "b") if kind != "MH" else ("a",))
        ms, key = z3.Const("ms", U), z3.Const("key", U)
        for meth in ("_standard_transition", "_adaptive_transition"):
            rec.clear()
            infos = []
            mh0 = ip.summaries["liesel/goose/mh.py::mh_step"]

            def mh(ip_, args, kwargs, mh0=mh0):
                r = mh0(ip_, args, kwargs)
                infos.append(r[0])
                return r

            ip.summaries["liesel/goose/mh.py::mh_step"] = mh
            ks = sym_da_state(ip, kind)
            out = ip.call(method(ip, k, meth), [key, ks, ms, sym_epoch_state(ip, meth)], {})
            ip.summaries["liesel/goose/mh.py::mh_step"] = mh0
            c.oblige(f"{meth}.mh_step_called_once", len(infos) == 1)
            if len(infos) == 1:
                c.oblige(f"{meth}.reports_mh_step_info", out.f["info"] is infos[0])
                c.oblige(f"{meth}.returns_mh_step_state", is_z3(out.f["model_state"]) and out.f["model_state"].eq(z3.Const("ms_after", U)))
            if kind == "MH" and rec.get("mh_args") is not None and len(rec["mh_args"]) == 5 and meth == "_standard_transition":
                k0 = ip.uf("split", key, z3.IntVal(0))
                want = ip.uf("user_corr", k0, ms, ks.f["step_size"], sort=FP32)
                got = rec["mh_args"][4]
                c.witness("user_log_correction", want)
                c.oblige("user_correction_reaches_mh_step_bit_for_bit", is_z3(got) and got.sort() == FP32 and
                         And(z3.fpIsNaN(got) == z3.fpIsNaN(want), Or(z3.fpIsNaN(want), z3.fpEQ(got, want))))
    return u


for _k in ("RW", "MH", "IWLS"):
    passthrough_unit(_k)


# "on acceptance [the returned state] is the state updated with the proposal": with a Liesel model that state is LieselInterface.update_state(
# proposal, state), which must be a function of its two arguments only - also when the same state object was used for another proposal just
# before (same harness as C03.LieselInterface.hier)
from contracts.c03 import liesel_unit  # noqa: E402

liesel_unit("hier", uid="C05.proposed_state_depends_on_proposal_and_state_only", prop="C05")
# ... and it is the COMPLETE updated state: also derived quantities that feed no distribution (a leaf prediction node) belong to "the state updated with the proposal"
liesel_unit("diamond", uid="C05.accepted_state_is_the_fully_updated_state", prop="C05")

# "on rejection the returned state equals the input state exactly": mh_step builds the proposed state with model.update_state(proposal, state)
# BEFORE it decides - that call must leave the input state (incl. mutable containers it holds) untouched (same harness as C03.<Interface>)
from contracts.c03 import simple_iface_unit  # noqa: E402

for _c in ("DictInterface", "DataclassInterface", "NamedTupleInterface"):
    simple_iface_unit(_c, uid=f"C05.building_the_proposed_state_leaves_the_input_state_untouched.{_c}", prop="C05")


# "log-density difference + log-correction": for the IWLS kernel the log-correction handed to mh_step is the one of the kernel's ACTUAL proposal - backward minus
# forward density, each with the information matrix of the point it starts from (autodiff Hessian and user-supplied information; same harness as C06.iwls.*)
from pyvc.unit import reuse as _reuse  # noqa: E402
import contracts.c06  # noqa: E402,F401

_reuse("C06.iwls.hessian", "C05.iwls_correction_is_that_of_the_actual_proposal.hessian", "C05")
_reuse("C06.iwls.user_info", "C05.iwls_correction_is_that_of_the_actual_proposal.user_info", "C05")

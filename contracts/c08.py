"""C08 - recorded chains hold exactly the per-iteration states, thinned as configured."""
from pyvc.api import *
from pyvc.models_jax import FilteredIdx
from contracts.common import EPOCH, sym_epoch_state
from contracts.c07 import E, ENG, install_engine_models, sym_engine, names

CH = "liesel/goose/chain.py"
BUILDER = "liesel/goose/builder.py"


def chunk_stub(ip, name, size):
    """a chunk of `size` consecutive per-iteration states (time axis 1)"""
    return PyObj(name, size=size)


def install_chain_models(ip):
    ip.models["jax.tree_util.tree_leaves"] = lambda ip_, ch: [PyObj("leaf", shape=(ip_.ctx.fresh("n_chains", Int), ch.attrs["size"]))]

    def slice_leaves(ip_, args, kwargs):
        ch, idx = args
        return PyObj("sliced", parent=ch, index=idx)

    ip.summaries["liesel/goose/pytree.py::slice_leaves"] = slice_leaves
    def concat(ip_, args, kwargs):
        if not len(args[0]):
            return None
        o = PyObj("concat", parts=list(args[0]), axis=args[1])
        # the combined pytree is a mapping (a position / a dict of infos): code may copy its outer container - dict(x) is {"__concat__": x} here
        o.attrs["keys"] = PyFn(lambda ip2: ["__concat__"], "keys")
        o.attrs["__getitem__"] = PyFn(lambda ip2, k: o, "getitem")
        return o

    ip.summaries["liesel/goose/pytree.py::concatenate_leaves"] = concat


@unit("C08.epoch_chain_append", "C08", [f"{CH}::ListEpochChain.__init__", f"{CH}::ListEpochChain.append", f"{CH}::ListChain.append", f"{CH}::ListEpochChain.epoch.fget"],
      assumptions=["np.arange / boolean-mask selection / np.s_ modelled as index sets; slice_leaves(chunk, [:, idx, ...]) keeps the time indices idx of every leaf"])
def u_epoch_chain_append(ip):
    """Invariant _states_counter = 1 + #states seen. With thinning k > 1 the states kept from a chunk are exactly those whose
    within-epoch iteration number (1-based, counted over all chunks) is a multiple of k - for any chunk size, hence independent of
    the chunking; without thinning (flag off or k = 1) the whole chunk is stored. Nothing else is stored or dropped."""
    c = ip.ctx
    install_chain_models(ip)
    seen, s, th = c.fresh("seen", Int), c.fresh("size", Int), c.fresh("thinning", Int)
    c.assume(And(seen >= 0, s >= 1, th >= 1))
    c.witness("seen", seen); c.witness("chunk_size", s); c.witness("thinning", th)
    apply = c.fresh("apply_thinning", Bool)
    cfg = new_obj(ip, f"{EPOCH}::EpochConfig", type=c.fresh("type", Int), duration=c.fresh("duration", Int), thinning=th, optional=None)
    existing = [PyObj("earlier_chunk")]
    # built by the REAL constructor (it records the epoch and the thinning flag); then generalised to "seen states so far" with the
    # representation invariant _states_counter = 1 + seen
    chain = ip.call(ip.repo(f"{CH}::ListEpochChain"), [cfg, apply], {})
    c.oblige("constructor_counter_starts_at_one", chain.f["_states_counter"] == 1 and chain.f["_chunks_list"] == [], structural=True)
    chain.f["_chunks_list"] = list(existing)
    chain.f["_states_counter"] = seen + 1
    chunk = chunk_stub(ip, "chunk", s)
    c.cover("pre")
    ip.call(method(ip, chain, "append"), [chunk], {})
    lst = chain.f["_chunks_list"]
    thinning_on = And(apply, th > 1)
    i = z3.Int("ci")
    c.oblige("earlier_chunks_untouched", len(lst) >= 1 and lst[0] is existing[0] and len(lst) <= 2)
    if len(lst) == 2 and lst[1] is chunk:
        c.cover("stored_whole")
        c.oblige("whole_chunk_only_without_thinning", Not(thinning_on))
        c.oblige("counter_invariant_without_thinning", Or(Not(thinning_on), chain.f["_states_counter"] == seen + 1 + s), structural=True)
    elif len(lst) == 2:
        c.cover("stored_thinned")
        sl = lst[1]
        idx = sl.attrs["index"]
        ok_shape = isinstance(idx, tuple) and len(idx) == 3 and idx[0] == ("slice", None, None, None) and idx[2] is Ellipsis and isinstance(idx[1], FilteredIdx) and sl.attrs["parent"] is chunk
        c.oblige("thinned_slice_of_this_chunk_along_time_axis", bool(ok_shape))
        if ok_shape:
            f = idx[1]
            c.oblige("kept_iff_iteration_multiple_of_thinning",
                     ForAll([i], Implies(And(i >= 0, i < s), f.keep(i) == ((seen + i + 1) % th == 0))))
            c.oblige("index_range_is_chunk", f.n == s)
        c.oblige("thinned_only_with_thinning", thinning_on)
        c.oblige("counter_invariant", chain.f["_states_counter"] == seen + 1 + s, structural=True)
    else:
        c.cover("stored_nothing")
        c.oblige("nothing_stored_only_if_no_multiple_in_chunk", And(thinning_on, Not(Exists([i], And(i >= 0, i < s, (seen + i + 1) % th == 0)))))
        c.oblige("counter_invariant", chain.f["_states_counter"] == seen + 1 + s, structural=True)


@unit("C08.each_epoch_counts_its_own_iterations", "C08", [f"{CH}::EpochChainManager.__init__", f"{CH}::EpochChainManager.advance_epoch", f"{CH}::EpochChainManager.append",
                                                         f"{CH}::EpochChainManager.get_current_chain", f"{CH}::ListEpochChain.__init__", f"{CH}::ListEpochChain.append", f"{CH}::ListChain.get"],
      assumptions=["REAL manager and chains; two consecutive epochs with the SAME thinning k, the first of any length (not a multiple of k, e.g. a warmup epoch), chunk sizes symbolic"])
def u_epoch_counts_own(ip):
    """'for each epoch with thinning k, exactly the states after WITHIN-EPOCH iterations k, 2k, ...': what is kept of the second epoch's first chunk depends on the
    position within that epoch only - not on how many states the epoch before it has seen."""
    c = ip.ctx
    install_chain_models(ip)
    s1, s2, th = c.fresh("size_epoch_1", Int), c.fresh("size_epoch_2", Int), c.fresh("thinning", Int)
    c.assume(And(s1 >= 1, s2 >= 1, th >= 2))
    c.witness("states_in_first_epoch", s1); c.witness("chunk_size", s2); c.witness("thinning", th)
    EC = ip.repo(f"{EPOCH}::EpochConfig")
    mgr = ip.call(ip.repo(f"{CH}::EpochChainManager"), [], {"apply_thinning": True})
    ip.call(method(ip, mgr, "advance_epoch"), [ip.call(EC, [3, s1, th, None], {})], {})
    ip.call(method(ip, mgr, "append"), [chunk_stub(ip, "chunk_epoch_1", s1)], {})
    ip.call(method(ip, mgr, "advance_epoch"), [ip.call(EC, [4, s2, th, None], {})], {})
    chunk = chunk_stub(ip, "chunk_epoch_2", s2)
    ip.call(method(ip, mgr, "append"), [chunk], {})
    cur = ip.call(method(ip, mgr, "get_current_chain"), [], {})
    got = parts_of(ip.call(method(ip, cur, "get"), [], {}).f["_value"]) or []
    i = z3.Int("ci")
    if len(got) == 1 and isinstance(got[0], PyObj) and got[0].name == "sliced" and got[0].attrs["parent"] is chunk:
        idx = got[0].attrs["index"]
        ok = isinstance(idx, tuple) and len(idx) == 3 and isinstance(idx[1], FilteredIdx)
        c.oblige("kept_iff_within_epoch_iteration_is_a_multiple_of_the_thinning", ForAll([i], Implies(And(i >= 0, i < s2), idx[1].keep(i) == ((i + 1) % th == 0))) if ok else z3.BoolVal(False))
    else:
        # nothing stored (or the whole chunk): only right if no (resp. every) within-epoch iteration of this chunk is a multiple of the thinning
        c.oblige("kept_iff_within_epoch_iteration_is_a_multiple_of_the_thinning", And(z3.BoolVal(len(got) == 0), Not(Exists([i], And(i >= 0, i < s2, (i + 1) % th == 0)))))


@unit("C08.list_chain", "C08", [f"{CH}::ListChain.append", f"{CH}::ListChain.get", f"{CH}::ListChain._concatenate", "liesel/option.py::Option.is_some"])
def u_list_chain(ip):
    """ListChain keeps chunks in append order and get() returns their concatenation along the time axis (axis 1) in that
    order; an empty chain yields an empty Option."""
    c = ip.ctx
    install_chain_models(ip)
    ch = ip.call(ip.repo(f"{CH}::ListChain"), [], {})
    r0 = ip.call(method(ip, ch, "get"), [], {})
    c.oblige("empty_is_none", r0.f["_value"] is None)
    a, b, d = PyObj("a"), PyObj("b"), PyObj("d")
    for x in (a, b, d):
        ip.call(method(ip, ch, "append"), [x], {})
    r = ip.call(method(ip, ch, "get"), [], {})
    v = r.f["_value"]
    c.oblige("concatenation_in_append_order_axis_1", isinstance(v, PyObj) and v.name == "concat" and [p for p in v.attrs["parts"]] == [a, b, d] and v.attrs["axis"] == 1)
    e = PyObj("e")
    ip.call(method(ip, ch, "append"), [e], {})
    v2 = ip.call(method(ip, ch, "get"), [], {}).f["_value"]
    c.oblige("later_appends_follow", isinstance(v2, PyObj) and v2.attrs["parts"][0] is v and v2.attrs["parts"][1] is e and len(v2.attrs["parts"]) == 2)


def epoch_chain_stub(ip, j, present, etype):
    Option = ip.repo("liesel/option.py::Option")
    val = PyObj(f"epoch{j}_samples")
    cfg = new_obj(ip, f"{EPOCH}::EpochConfig", type=etype, duration=1, thinning=1, optional=None)
    return PyObj(f"chain{j}", epoch=cfg, get=PyFn(lambda ip_: ip_.call(Option, [val if present else None], {}), "get")), val


@unit("C08.manager_advance_and_append", "C08", [f"{CH}::EpochChainManager.__init__", f"{CH}::EpochChainManager.advance_epoch", f"{CH}::EpochChainManager.append", f"{CH}::EpochChainManager.get_epochs",
                                                f"{CH}::EpochChainManager.get_current_chain", f"{CH}::EpochChainManager.get_specific_chain", f"{CH}::ListEpochChain.__init__"],
      summaries=[f"{CH}::ListEpochChain.append (C08.epoch_chain_append)"])
def u_manager_advance(ip):
    """a manager built by the real constructor: advance_epoch(cfg) opens a NEW epoch chain for exactly that configuration carrying the
    manager's thinning flag, as the last chain; append() stores into the current (last) chain only; epochs / chains are reported in the
    order in which they were opened - also when two configurations are equal."""
    c = ip.ctx
    install_chain_models(ip)
    EC = ip.repo(f"{EPOCH}::EpochConfig")
    appended = []
    ip.summaries[f"{CH}::ListEpochChain.append"] = lambda ip_, args, kwargs: appended.append((args[0], args[1]))
    for flag in (True, False):
        mgr = ip.call(ip.repo(f"{CH}::EpochChainManager"), [], {"apply_thinning": flag})
        th = c.fresh("th", Int)
        cfgs = [ip.call(EC, [3, 6, th, None], {}), ip.call(EC, [4, 6, 2, None], {}), ip.call(EC, [4, 6, 2, None], {})]  # the last two are EQUAL by value
        cfgs.append(cfgs[-1])  # ... and the SAME configuration object used for two consecutive epochs ([slow] * 3 in a schedule)
        del appended[:]
        for j, cfg in enumerate(cfgs):
            ip.call(method(ip, mgr, "advance_epoch"), [cfg], {})
            chunk = PyObj(f"chunk{j}")
            ip.call(method(ip, mgr, "append"), [chunk], {})
            cur = ip.call(method(ip, mgr, "get_current_chain"), [], {})
            c.oblige(f"current_chain_is_for_this_epoch.flag_{flag}.{j}", ip.getattr(cur, "epoch") is cfg and ip.truth(cur.f["_apply_thinning"]) is flag)
            c.oblige(f"append_goes_to_the_current_chain_only.flag_{flag}.{j}", len(appended) == j + 1 and appended[j][0] is cur and appended[j][1] is chunk)
        eps = ip.call(method(ip, mgr, "get_epochs"), [], {})
        n_ = len(cfgs)
        c.oblige(f"epochs_reported_in_opening_order.flag_{flag}", len(eps) == n_ and all(eps[j] is cfgs[j] for j in range(n_)))
        kinds = [try_call(ip, method(ip, mgr, "get_specific_chain"), [j], {}) for j in range(n_)]
        chains = [r_ for k_, r_ in kinds if k_ == "ok"]
        c.oblige(f"one_distinct_chain_per_epoch.flag_{flag}", len(chains) == n_ and len({id(x) for x in chains}) == n_ and all(ip.getattr(chains[j], "epoch") is cfgs[j] for j in range(n_)))


def parts_of(out):
    """the epoch parts a combined pytree consists of (also through a shallow copy of its outer mapping)"""
    if isinstance(out, dict) and list(out) == ["__concat__"]:
        out = out["__concat__"]
    return list(out.attrs["parts"]) if isinstance(out, PyObj) and out.name == "concat" else None


def combine_unit(n):
    @unit(f"C08.combine.n{n}", "C08", [f"{CH}::EpochChainManager.combine_all", f"{CH}::EpochChainManager.combine_filtered", f"{CH}::EpochChainManager.combine",
                                       f"{ENG}::SamplingResults.get_samples", f"{ENG}::SamplingResults.get_posterior_samples", f"{ENG}::SamplingResults.get_posterior_transition_infos"],
          assumptions=[f"number of epochs fixed to {n} in this unit (1..3 covered; uniform code)"])
    def u(ip, n=n):
        """combine_all concatenates the non-empty epoch chains in epoch order; combine_filtered(p) those whose epoch satisfies p;
        the posterior accessors select exactly the POSTERIOR epochs; get_samples all epochs."""
        c = ip.ctx
        install_chain_models(ip)
        import itertools
        types = [c.fresh(f"type{j}", Int) for j in range(n)]
        for t in types:
            c.assume(And(t >= 0, t <= 4))
        for present in itertools.product((True, False), repeat=n):
            stubs = [epoch_chain_stub(ip, j, present[j], types[j]) for j in range(n)]
            mgr = new_obj(ip, f"{CH}::EpochChainManager", _chains=[s[0] for s in stubs], _apply_thinning=False)
            tagp = "".join("1" if p else "0" for p in present)
            v = ip.call(method(ip, mgr, "combine_all"), [], {}).f["_value"]
            want = [stubs[j][1] for j in range(n) if present[j]]
            got = list(v.attrs["parts"]) if isinstance(v, PyObj) and v.name == "concat" else ([] if v is None else None)
            c.oblige(f"combine_all.{tagp}", got == want)
            res = new_obj(ip, f"{ENG}::SamplingResults", positions=mgr, transition_infos=mgr)
            for acc in ("get_posterior_samples", "get_posterior_transition_infos"):
                kind, out = try_call(ip, method(ip, res, acc))
                # which epochs were selected is decided per path: the path condition fixes every type == POSTERIOR test
                if kind == "ok":
                    parts = parts_of(out)
                    sel = And(*[(types[j] == 4) if any(p is stubs[j][1] for p in (parts or [])) else Or(types[j] != 4, z3.BoolVal(not present[j])) for j in range(n)])
                    c.oblige(f"{acc}.exactly_posterior_epochs.{tagp}", z3.BoolVal(parts is not None) if parts is None else sel)
                    c.oblige(f"{acc}.epoch_order.{tagp}", parts is not None and parts == [stubs[j][1] for j in range(n) if any(p is stubs[j][1] for p in parts)])
                else:
                    c.oblige(f"{acc}.raises_only_if_no_posterior_samples.{tagp}", And(*[Or(types[j] != 4, z3.BoolVal(not present[j])) for j in range(n)]))
            kind, out = try_call(ip, method(ip, res, "get_samples"))
            if kind == "ok":
                c.oblige(f"get_samples.all_epochs.{tagp}", parts_of(out) == want)
            else:
                c.oblige(f"get_samples.raises_only_if_empty.{tagp}", len(want) == 0)
    return u


for _n in (1, 2, 3):
    combine_unit(_n)


@unit("C08.accessors_follow_continued_sampling", "C08", [f"{ENG}::SamplingResults.get_posterior_samples", f"{ENG}::SamplingResults.get_posterior_transition_infos", f"{ENG}::SamplingResults.get_samples",
                                                          f"{CH}::EpochChainManager.combine_filtered", f"{CH}::EpochChainManager.combine_all"],
      assumptions=["history on ONE results object (a live view onto the engine's chain managers): accessor - a further posterior epoch is sampled - accessor again"])
def u_accessors_history(ip):
    """what an accessor returns is the posterior-epoch part of what is stored WHEN IT IS CALLED: after a further posterior epoch has been sampled, the same
    results object reports it too (nothing is remembered from an earlier call), and an earlier result is not changed by later sampling."""
    c = ip.ctx
    install_chain_models(ip)
    stubs = [epoch_chain_stub(ip, 0, True, z3.IntVal(3)), epoch_chain_stub(ip, 1, True, z3.IntVal(4))]
    chains = [s[0] for s in stubs]
    mgr = new_obj(ip, f"{CH}::EpochChainManager", _chains=chains, _apply_thinning=False)
    res = new_obj(ip, f"{ENG}::SamplingResults", positions=mgr, transition_infos=mgr)
    for acc in ("get_posterior_samples", "get_posterior_transition_infos", "get_samples"):
        del chains[2:]
        kind1, first = try_call(ip, method(ip, res, acc))
        want1 = [stubs[1][1]] if acc != "get_samples" else [stubs[0][1], stubs[1][1]]
        c.oblige(f"{acc}.first_call", kind1 == "ok" and parts_of(first) == want1)
        later = epoch_chain_stub(ip, 2, True, z3.IntVal(4))  # the engine samples one more posterior epoch
        chains.append(later[0])
        kind2, second = try_call(ip, method(ip, res, acc))
        c.oblige(f"{acc}.second_call_includes_the_new_epoch", kind2 == "ok" and parts_of(second) == want1 + [later[1]])
        c.oblige(f"{acc}.first_result_unchanged", kind1 == "ok" and parts_of(first) == want1)


@unit("C08.scan_f_records", "C08", [f"{E}._sample_many.<locals>.scan_f"], summaries=["KernelSequence.transition (C07.kernel_sequence)"])
def u_scan_f(ip):
    """per iteration the stored position is extract_position(tracked keys, model state AFTER all kernels of that iteration), the
    stored infos are the transition's infos, kernel states are emitted iff requested (the new ones)."""
    c = ip.ctx
    install_engine_models(ip)
    for store in (False, True):
        eng = sym_engine(ip)
        eng.f["_store_kernel_states"] = store
        eng.f["_position_keys"] = ("a", "d")
        eng.f["_model"] = PyObj("model", extract_position=PyFn(lambda ip_, keys, st: ip_.uf("extract", ip_.to_U(keys), ip_.to_U(st)), "extract_position"))
        infos = {"kernel_00": z3.Const("info0", U)}
        out = PyObj("out", kernel_states=z3.Const("ks_after", U), model_state=z3.Const("ms_after_all_kernels", U), infos=infos)
        eng.f["_kernel_sequence"] = PyObj("kernel_sequence", transition=PyFn(lambda ip_, *a: out, "transition"))
        clo = ip.repo(f"{E}._sample_many.<locals>.scan_f")
        env = Env(None, None)
        env.vars["self"] = eng
        clo.env = env
        ep = sym_epoch_state(ip)
        carry = new_obj(ip, f"{ENG}::Carry", kernel_states=z3.Const("ks0", U), model_state=z3.Const("ms0", U), epoch=ep)
        new_carry, (pos, tinfos, ks, quants) = ip.call(clo, [carry, z3.Const("key", U)], {})
        sfx = f".store{int(store)}"
        c.oblige("position_after_all_kernels" + sfx, pos == ip.uf("extract", ip.to_U(("a", "d")), z3.Const("ms_after_all_kernels", U)))
        c.oblige("infos_are_this_transitions" + sfx, tinfos is infos)
        c.oblige("kernel_states_iff_requested" + sfx, (ks is not None) == store and (not store or ks.eq(z3.Const("ks_after", U))))
        c.oblige("carry_updated" + sfx, new_carry.f["model_state"].eq(z3.Const("ms_after_all_kernels", U)) and new_carry.f["kernel_states"].eq(z3.Const("ks_after", U)))


@unit("C08.chunk_appends", "C08", [f"{E}._sample_for_duration"], summaries=[f"{E}._sample_many", f"{E}._split_prng_key"])
def u_chunk_appends(ip):
    """each chunk's positions and transition infos are appended exactly once and in chunk order; kernel states iff requested."""
    c = ip.ctx
    install_engine_models(ip)
    key = f"{E}._sample_for_duration"
    for store in (False, True):
        eng = sym_engine(ip)
        trace = c.ghost["trace"]
        del trace[:]
        eng.f["_store_kernel_states"] = store
        eng.f["_jitted_sample_duration"] = z3.IntVal(2)
        ep = sym_epoch_state(ip)
        ep.f["time_in_epoch"] = z3.IntVal(0)
        ep.f["config"].f["duration"] = z3.IntVal(6)
        eng.f["_epoch"] = ep
        n = {"i": 0}

        def sample_many(ip_, keys, epoch, kstates, mstate):
            n["i"] += 1
            new_ep = new_obj(ip_, f"{EPOCH}::EpochState", **{**epoch.f, "time_in_epoch": epoch.f["time_in_epoch"] + 2, "time": epoch.f["time"] + 2})
            return (new_ep, kstates, mstate, f"pos{n['i']}", f"info{n['i']}", f"ks{n['i']}", None)

        ip.summaries[f"{E}._split_prng_key"] = lambda ip_, args, kwargs: PyObj("keys", n=2)
        eng.f["_sample_many_jitted"] = PyFn(sample_many, "_sample_many_jitted")
        ip.call(method(ip, eng, "_sample_for_duration"), [], {"duration": 6})
        sfx = f".store{int(store)}"
        c.oblige("positions_each_chunk_in_order" + sfx, [t[1][0] for t in trace if t[0] == "position_chain.append"] == ["pos1", "pos2", "pos3"])
        c.oblige("infos_each_chunk_in_order" + sfx, [t[1][0] for t in trace if t[0] == "transition_info_chain.append"] == ["info1", "info2", "info3"])
        c.oblige("kernel_states_iff_requested" + sfx, [t[1][0] for t in trace if t[0] == "kernel_state_chain.append"] == (["ks1", "ks2", "ks3"] if store else []))


@unit("C08.tracked_keys", "C08", [f"{BUILDER}::EngineBuilder.build", f"{E}.__init__"],
      assumptions=["slices: the two statements of build() that extend/filter pos_keys and the position_keys default of Engine.__init__"])
def u_tracked_keys(ip):
    """tracked keys = [k in kernel keys ++ positions_included if k not in positions_excluded] (order kept) and are what the
    engine uses - unless that selection is empty (known finding D9: the engine then falls back to all kernel keys)."""
    c = ip.ctx
    key = f"{BUILDER}::EngineBuilder.build"
    b = new_obj(ip, f"{BUILDER}::EngineBuilder", positions_included=["extra", "a"], positions_excluded=["b", "extra2"])
    env, lines, sig = exec_slice(ip, key, {"pos_keys": ["a", "b", "c"]}, lambda s: "positions_included" in ast.dump(s), lambda s: "positions_excluded" in ast.dump(s), self_obj=b)
    c.oblige("builder_selection", env.vars["pos_keys"] == ["a", "c", "extra", "a"])
    clo = ip.repo(key)
    ret = [n_ for n_ in ast.walk(clo.node) if isinstance(n_, ast.Return)][-1]
    kw = {k.arg: k.value for k in ret.value.keywords}
    c.oblige("selection_passed_to_engine", isinstance(kw.get("position_keys"), ast.Name) and kw["position_keys"].id == "pos_keys")
    # Engine.__init__ default
    k0 = PyObj("k0", position_keys=("a", "b"), needs_history=False)
    k1 = PyObj("k1", position_keys=("c",), needs_history=False)
    ikey = f"{E}.__init__"
    for given, tag in ((["c", "x"], "nonempty"), ([], "empty"), (None, "none")):
        eng = Obj(ip.repo(E))
        eng.f["_kernel_sequence"] = PyObj("kernel_sequence", _kernels=[k0, k1])
        env, lines, sig = exec_slice(ip, ikey, {"position_keys": given}, lambda s: isinstance(s, ast.If) and "position_keys" in ast.dump(s.test), assigns_attr("_position_keys"), self_obj=eng)
        if tag == "nonempty":
            c.oblige("engine_uses_given_selection", eng.f["_position_keys"] == ["c", "x"])
        elif tag == "none":
            c.oblige("engine_default_is_all_kernel_keys", eng.f["_position_keys"] == ["a", "b", "c"])
        else:
            c.oblige("engine_respects_empty_selection", eng.f["_position_keys"] == [])


@unit("C08.get_results", "C08", [f"{E}.get_results"])
def u_get_results(ip):
    """the results object hands out the engine's own chains: positions = the position chain, transition infos = the transition-info
    chain, kernel states iff they were requested, kernel classes and key ownership by kernel identifier."""
    c = ip.ctx
    install_engine_models(ip)
    for store in (False, True):
        eng = sym_engine(ip)
        eng.f["_store_kernel_states"] = store
        k0 = PyObj("k0", identifier="kernel_00", position_keys=("a", "b"))
        k1 = PyObj("k1", identifier="kernel_01", position_keys=("c",))
        eng.f["_kernel_sequence"] = PyObj("kernel_sequence", get_kernels=PyFn(lambda ip_: [k0, k1], "get_kernels"))
        ip.models["builtins.type"] = lambda ip_, x: ("type_of", x.name)
        res = ip.call(method(ip, eng, "get_results"), [], {})
        sfx = f".store{int(store)}"
        c.oblige("positions_is_position_chain" + sfx, res.f["positions"] is eng.f["_position_chain"])
        c.oblige("infos_is_transition_info_chain" + sfx, res.f["transition_infos"] is eng.f["_transition_info_chain"])
        ks = res.f["kernel_states"].f["_value"]
        c.oblige("kernel_states_iff_requested" + sfx, (ks is eng.f["_kernel_state_chain"]) if store else ks is None)
        c.oblige("kernels_by_position_key" + sfx, res.f["kernels_by_pos_key"].f["_value"] == {"a": "kernel_00", "b": "kernel_00", "c": "kernel_01"})
        c.oblige("kernel_classes_by_identifier" + sfx, list(res.f["kernel_classes"].f["_value"]) == ["kernel_00", "kernel_01"])


from contracts.c07 import engine_init_unit  # noqa: E402

engine_init_unit("C08.engine_init", "C08")


# the builder and the engine constructor end to end through the public API (same harness as C10.build_end_to_end)
from contracts.c10 import build_whole_unit  # noqa: E402

build_whole_unit("C08.build_end_to_end", "C08", "A")
build_whole_unit("C08.build_end_to_end.variant_b", "C08", "B")


def list_chain_long_unit(uid, prop):
    @unit(uid, prop, [f"{CH}::ListChain.__init__", f"{CH}::ListChain.append", f"{CH}::ListChain.get", f"{CH}::ListChain._concatenate"],
          assumptions=["T: concatenate_leaves(chunks, axis=1) joins the chunks in list order (checked natively)", "histories of 1, 2, 3, 100, 101, 102, 205 and 330 appended chunks, "
                       "with and without a get() after every 50th append"])
    def u(ip):
        """a chain hands back every chunk that was appended, once, in the order of appending - however many there are, and whether or not the
        chunks were combined in between."""
        c = ip.ctx

        def flat(x):
            return list(x.attrs["parts"]) if isinstance(x, PyObj) and x.name == "cat" else [x]

        def cat(ip_, args, kwargs):
            xs = list(ip_.iterate(args[0]))
            if not xs:
                return None
            return PyObj("cat", parts=[p for x in xs for p in flat(x)])

        ip.summaries["liesel/goose/pytree.py::concatenate_leaves"] = cat
        LC = ip.repo(f"{CH}::ListChain")
        for n in (1, 2, 3, 100, 101, 102, 205, 330):
            for peek in (False, True):
                ch = ip.call(LC, [], {})
                chunks = [PyObj(f"chunk{i}") for i in range(n)]
                for i, ck in enumerate(chunks):
                    ip.call(method(ip, ch, "append"), [ck], {})
                    if peek and i % 50 == 49:
                        ip.call(method(ip, ch, "get"), [], {})
                opt = ip.call(method(ip, ch, "get"), [], {})
                val = opt.f.get("_value") if isinstance(opt, Obj) else None
                got = flat(val) if val is not None else []
                c.oblige(f"every_appended_chunk_once_in_order.n{n}" + (".combined_in_between" if peek else ""), len(got) == n and all(a is b for a, b in zip(got, chunks)))
    return u


list_chain_long_unit("C08.chain_keeps_every_appended_chunk", "C08")

"""C15 - built models are complete, acyclic, uniquely named, frozen, and round-trip."""
from pyvc.api import *
from contracts.graph import G, M, N, SHAPES, install_graph_models, calc_fn, dist_fn

STRUCTURAL = ("_inputs", "_kwinputs", "_name", "_needs_seed", "_function", "_distribution", "_at", "_per_obs", "_value_node", "_dist_node", "_observed", "_parameter")


def all_inputs(node):
    """independent reading of the graph: positional + keyword inputs + (for distributions) the evaluation node"""
    ins = list(node.f.get("_inputs", ())) + list(node.f.get("_kwinputs", {}).values())
    at = node.f.get("_at")
    if at is not None and node.clsname != "NoDist":
        ins.append(at)
    out = []
    for x in ins:
        if not any(x is y for y in out):
            out.append(x)
    return [] if node.clsname == "NoDist" else out


def closure(roots):
    seen, todo = [], list(roots)
    while todo:
        n_ = todo.pop()
        if any(n_ is s for s in seen):
            continue
        seen.append(n_)
        todo.extend(all_inputs(n_))
        v = n_.f.get("_var")
        if v is not None:
            todo.extend([v.f["_value_node"], v.f["_var_value_node"]] + ([v.f["_dist_node"]] if v.f["_dist_node"].clsname != "NoDist" else []))
    return seen


class Obs(dict):
    """observable state {node name: (value, outdated)}; == compares values semantically (real sums up to reordering)"""

    def __eq__(self, other):
        if list(sorted(self)) != list(sorted(other)):
            return False
        conj = []
        for k in self:
            (va, oa), (vb, ob) = self[k], other[k]
            if oa != ob:
                return False
            if is_z3(va) and is_z3(vb) and va.sort() == vb.sort():
                conj.append(va == vb)
            elif is_z3(va) or is_z3(vb):
                return False
            elif va != vb:
                return False
        s_ = z3.Solver()
        s_.set("timeout", 5000)
        s_.add(z3.Not(z3.And(*conj)) if conj else z3.BoolVal(False))
        return s_.check() == z3.unsat


def observe(ip, m):
    out = Obs()
    for n_, nd in m.f["_nodes"].items():
        v = ip.getattr(nd, "value")
        if not is_z3(v):
            v = ip.to_U(v) if v is not None and not isinstance(v, (int, float, str)) else v
        out[n_] = (v, ip.truth(ip.getattr(nd, "outdated")))
    return out


def structure_unit(shape):
    @unit(f"C15.structure.{shape}", "C15", [f"{M}::GraphBuilder._all_nodes_and_vars", f"{M}::GraphBuilder._set_missing_names", f"{M}::GraphBuilder._do_set_missing_names",
                                           f"{M}::GraphBuilder.build_model", f"{M}::Model.__init__", f"{M}::Model._build_node_graph", f"{N}::Node._add_output", f"{N}::Node._clear_outputs", f"{N}::Node._set_model"],
          assumptions=[f"graph shape '{shape}' plus an unnamed node, a shared input and a stand-alone distribution with a hand-set evaluation point", "A-NX: topological_sort returns a topological order and raises on cycles"])
    def u(ip, shape=shape):
        """the built model contains every recursive input of the added roots exactly once, all names non-empty and pairwise distinct
        (given names unchanged), outputs are the exact inverse of inputs, the update order is topological, every node belongs to the model."""
        c = ip.ctx
        install_graph_models(ip)
        g = G(ip)
        roots = SHAPES[shape](g)
        first_var = roots[0]
        extra = g.calc("f_unnamed", first_var)  # unnamed node sharing an input
        extra2 = g.calc("f_unnamed2", first_var, extra)
        named = ip.call(g.Value, [z3.Const("c0", U)], {"_name": "n0"})  # occupies the first automatic name
        root2 = g.calc("f_top", extra2, named, name="top")
        # a stand-alone distribution node (no variable) whose evaluation point was set by hand and is reachable only through `at`
        at_src = g.calc("f_at_point", first_var, name="at_point")
        bare = g.dist("Dbare", named)
        ip.setattr(bare, "at", at_src)
        model = g.build(*roots, root2, bare)
        nodes = list(model.f["_nodes"].values())
        c.oblige("evaluation_point_of_bare_distribution_is_in_the_model", any(x is at_src for x in nodes) and ip.getattr(at_src, "model") is model)
        want = [x for x in closure([r.f["_value_node"] if r.clsname == "Var" else r for r in list(roots) + [root2, bare]] + [v_ for r in roots if r.clsname == "Var" for v_ in [r.f["_var_value_node"], r.f["_dist_node"]] if v_.clsname != "NoDist"])]
        user_nodes = [x for x in nodes if not x.f["_name"].startswith("_model")]
        c.oblige("contains_every_recursive_input_exactly_once", len(user_nodes) == len(want) and all(any(x is y for y in user_nodes) for x in want))
        names = [x.f["_name"] for x in nodes]
        c.oblige("names_nonempty_and_unique", all(isinstance(n_, str) and n_ for n_ in names) and len(set(names)) == len(names) and list(model.f["_nodes"]) == names)
        c.oblige("given_names_kept", named.f["_name"] == "n0" and root2.f["_name"] == "top" and extra.f["_name"] not in ("", "n0") and extra2.f["_name"] not in ("", "n0", extra.f["_name"]))
        vnames = [v.f["_name"] for v in model.f["_vars"].values()]
        c.oblige("var_names_unique", len(set(vnames)) == len(vnames) and all(vnames))
        ok_out = True
        for x in nodes:
            outs = list(x.f["_outputs"])
            inv = [y for y in nodes if any(x is z_ for z_ in all_inputs(y))]
            ok_out = ok_out and len(outs) == len(inv) and all(any(o is y for y in inv) for o in outs)
        c.oblige("outputs_are_exact_inverse_of_inputs", ok_out)
        order = model.f["_sorted_nodes"]
        pos = {id(x): i for i, x in enumerate(order)}
        c.oblige("update_order_topological", len(order) == len(nodes) and all(pos[id(i_)] < pos[id(x)] for x in nodes for i_ in all_inputs(x)))
        c.oblige("every_node_belongs_to_model", all(ip.getattr(x, "model") is model for x in nodes))
    return u


for _s in SHAPES:
    structure_unit(_s)


@unit("C15.rejections", "C15", [f"{M}::Model.__init__", f"{M}::GraphBuilder.build_model"], assumptions=["A-NX"])
def u_rejections(ip):
    """duplicate node names, duplicate variable names, reserved names and cyclic graphs are rejected."""
    c = ip.ctx
    install_graph_models(ip)
    g = G(ip)
    a = ip.call(g.Value, [z3.Const("va", U)], {"_name": "dup"})
    b = ip.call(g.Value, [z3.Const("vb", U)], {"_name": "dup"})
    kind, r = try_call(ip, PyFn(lambda ip_: g.build(g.calc("f", a, b, name="top")), "build"), [])
    c.oblige("duplicate_node_names_rejected", kind == "raise" and r.cls == "RuntimeError")
    v1, v2 = g.var("same"), g.var("same")
    ip.setattr(v2.f["_value_node"], "name", "other_value")
    ip.setattr(v2.f["_var_value_node"], "name", "other_var_value")
    kind, r = try_call(ip, PyFn(lambda ip_: g.build(g.calc("f", v1, v2, name="top2")), "build"), [])
    c.oblige("duplicate_var_names_rejected", kind == "raise" and r.cls == "RuntimeError")
    res = ip.call(g.Value, [z3.Const("vr", U)], {"_name": "_model_mine"})
    kind, r = try_call(ip, PyFn(lambda ip_: g.build(res), "build"), [])
    c.oblige("reserved_name_rejected", kind == "raise" and r.cls == "RuntimeError")
    p = g.calc("f_p", name="p")
    q = g.calc("f_q", p, name="q")
    ip.call(method(ip, p, "set_inputs"), [q], {})
    kind, r = try_call(ip, PyFn(lambda ip_: g.build(q), "build"), [])
    c.oblige("cyclic_graph_rejected", kind == "raise")
    # a cycle that runs through the EVALUATION edge of a distribution (d is evaluated at a function of its own log-density)
    dd = ip.call(g.Dist, [dist_fn("Dcyc")], {})
    cc = g.calc("f_cyc", dd, name="cyc_calc")
    ip.setattr(dd, "at", cc)
    kind, r = try_call(ip, PyFn(lambda ip_: g.build(cc), "build"), [])
    c.oblige("cycle_through_a_distributions_evaluation_edge_rejected", kind == "raise")
    xv = g.var("xcyc", dist=g.dist("Dx"))
    ip.setattr(xv, "value_node", g.calc("f_self", xv.f["_dist_node"], name="xcyc_calc"))
    kind, r = try_call(ip, PyFn(lambda ip_: g.build(xv), "build"), [])
    c.oblige("variable_whose_value_depends_on_its_own_log_density_rejected", kind == "raise")
    # the Model constructor used directly (grow=False: no automatic naming): two UNNAMED nodes / variables / a duplicated name next to distinct ones
    Model = ip.repo(f"{M}::Model")
    u1, u2 = ip.call(g.Value, [z3.Const("u1", U)], {}), ip.call(g.Value, [z3.Const("u2", U)], {})
    top3 = g.calc("f3", u1, u2, name="top3")
    kind, r = try_call(ip, Model, [[u1, u2, top3]], {"grow": False})
    c.oblige("two_unnamed_nodes_rejected_by_the_constructor", kind == "raise" and r.cls == "RuntimeError")
    n1 = ip.call(g.Value, [z3.Const("n1", U)], {"_name": "n1"})
    d1, d2 = ip.call(g.Value, [z3.Const("d1", U)], {"_name": "d"}), ip.call(g.Value, [z3.Const("d2", U)], {"_name": "d"})
    kind, r = try_call(ip, Model, [[n1, d1, d2]], {"grow": False})
    c.oblige("duplicate_next_to_distinct_names_rejected_by_the_constructor", kind == "raise" and r.cls == "RuntimeError")
    w1, w2 = ip.call(g.Var, [z3.Const("w1", U)], {}), ip.call(g.Var, [z3.Const("w2", U)], {})
    for i_, w in enumerate((w1, w2)):
        ip.setattr(w.f["_value_node"], "name", f"w{i_}_value")
        ip.setattr(w.f["_var_value_node"], "name", f"w{i_}_var_value")
    kind, r = try_call(ip, Model, [[w1, w2, w1.f["_value_node"], w2.f["_value_node"], w1.f["_var_value_node"], w2.f["_var_value_node"]]], {"grow": False})
    c.oblige("two_unnamed_variables_rejected_by_the_constructor", kind == "raise" and r.cls == "RuntimeError")


@unit("C15.frozen", "C15", [f"{N}::no_model_method", f"{N}::no_model_setter", f"{N}::Node.add_inputs", f"{N}::Node.set_inputs", f"{N}::Node.name.fset", f"{N}::Node.needs_seed.fset",
                            f"{N}::Calc.function.fset", f"{N}::Dist.at.fset", f"{N}::Dist.distribution.fset", f"{N}::Dist.per_obs.fset", f"{N}::Var.dist_node.fset",
                            f"{N}::Var.value_node.fset", f"{N}::Var.name.fset", f"{N}::Var.observed.fset", f"{N}::Var.parameter.fset", f"{N}::Var.transform"])
def u_frozen(ip):
    """every guarded mutator (enumerated mechanically from the class bodies) raises RuntimeError on a node / variable that belongs
    to a model and leaves every field unchanged; and every public method or setter of Node, Calc, Dist, Var whose body stores into a
    structural field carries such a guard (syntactic scan of the real source)."""
    c = ip.ctx
    install_graph_models(ip)
    from contracts.graph import install_tfp_models
    install_tfp_models(ip)
    g = G(ip)
    model = g.build(*SHAPES["hier"](g))
    targets = {"Calc": model.f["_nodes"]["sigma_value"], "Dist": model.f["_nodes"]["y_log_prob"], "Value": model.f["_nodes"]["mu_value"], "Var": model.f["_vars"]["mu"]}
    n_checked = 0
    for cname, obj in targets.items():
        seen = set()
        for cls in obj.cls.mro(ip):
            for mname, mem in cls.members(ip).items():
                fns = []
                if isinstance(mem, Closure) and getattr(mem, "wrappers", None):
                    fns.append(("method", mem))
                elif isinstance(mem, PropertyDef) and mem.fset is not None and getattr(mem.fset, "wrappers", None):
                    fns.append(("setter", mem.fset))
                for kind_, fn in fns:
                    if (mname, kind_) in seen or not any(w.startswith("no_model") for w in fn.wrappers):
                        continue
                    seen.add((mname, kind_))
                    before = {k: v for k, v in obj.f.items()}
                    kw_before = dict(obj.f["_kwinputs"]) if "_kwinputs" in obj.f else None
                    arg = z3.Const("new_thing", U)
                    if kind_ == "setter":
                        kind, r = try_call(ip, PyFn(lambda ip_: ip_.setattr(obj, mname, arg), "set"), [])
                    else:
                        kind, r = try_call(ip, BoundMethod(obj, fn), [])
                    n_checked += 1
                    c.oblige(f"{cname}.{mname}.rejected", kind == "raise" and r.cls == "RuntimeError")
                    c.oblige(f"{cname}.{mname}.unchanged", all(obj.f[k] is before[k] for k in before) and len(obj.f) == len(before) and (kw_before is None or obj.f["_kwinputs"] == kw_before))
    c.oblige("mutators_enumerated", n_checked >= 14)
    # transform of a variable in a model
    from contracts.graph import bijector_instance
    var_before = dict(targets["Var"].f)
    kind, r = try_call(ip, method(ip, targets["Var"], "transform"), [bijector_instance(ip, "B")])
    c.oblige("Var.transform.rejected", kind == "raise" and r.cls == "RuntimeError")
    c.oblige("Var.transform.structure_unchanged", all(targets["Var"].f[k] is var_before[k] for k in ("_value_node", "_dist_node", "_name", "_observed", "_parameter")))
    # syntactic completeness: stores into structural fields only behind a guard (public API)
    unguarded = []
    for cname in ("Node", "Calc", "Dist", "Var", "Value", "TransientNode"):
        cls = ip.repo(f"{N}::{cname}")
        for mname, mem in cls.members(ip).items():
            cands = [mem] if isinstance(mem, Closure) else ([mem.fset] if isinstance(mem, PropertyDef) and mem.fset is not None else [])
            for fn in cands:
                if mname.startswith("_") and not isinstance(mem, PropertyDef):
                    continue
                stores = [n_.attr for n_ in ast.walk(fn.node) if isinstance(n_, ast.Attribute) and isinstance(n_.ctx, ast.Store) and isinstance(n_.value, ast.Name) and n_.value.id == "self" and n_.attr in STRUCTURAL]
                mutating_calls = [n_.func.attr for n_ in ast.walk(fn.node) if isinstance(n_, ast.Call) and isinstance(n_.func, ast.Attribute) and isinstance(n_.func.value, ast.Attribute)
                                  and getattr(n_.func.value.value, "id", None) == "self" and n_.func.value.attr in ("_inputs", "_kwinputs") and n_.func.attr in ("clear", "update", "pop", "append", "extend")]
                if (stores or mutating_calls) and not any(w.startswith("no_model") for w in getattr(fn, "wrappers", [])):
                    unguarded.append(f"{cname}.{mname}")
    c.oblige("every_structural_store_is_guarded", unguarded == [], witness=str(unguarded))


@unit("C15.frozen_against_foreign_variables", "C15", [f"{N}::Var.__init__", f"{N}::Var.value_node.fset", f"{N}::Var.dist_node.fset", f"{N}::Node._set_var", f"{N}::Dist._set_var"],
      assumptions=["graph: a bare Value node and a stand-alone distribution node (no variable owns them) inside a model, plus a variable-owned node"])
def u_frozen_foreign(ip):
    """a node that belongs to a model cannot be taken over from OUTSIDE either: handing it to another, model-free variable - as its value
    node or distribution node, through the setters or the Var constructor - raises RuntimeError and leaves the node (its fields, in
    particular its owner link) unchanged."""
    c = ip.ctx
    install_graph_models(ip)
    g = G(ip)
    bare = ip.call(g.Value, [g.val("z")], {"_name": "z"})
    bare_dist = g.dist("Dbare", bare)
    ip.setattr(bare_dist, "at", bare)
    owned = g.var("owned")
    top = g.calc("f_top", bare, owned, name="top")
    model = g.build(top, bare_dist)
    frozen = {"bare_value_node": model.f["_nodes"]["z"], "bare_dist_node": bare_dist, "owned_value_node": model.f["_vars"]["owned"].f["_value_node"]}
    for tag, node in frozen.items():
        before = dict(node.f)
        attempts = []
        if node.clsname != "Dist":
            free = g.var(f"thief_{tag}")
            attempts.append(("value_node_setter", lambda: ip.setattr(free, "value_node", node)))
            attempts.append(("Var_constructor", lambda: ip.call(g.Var, [node], {"name": f"thief2_{tag}"})))
        else:
            free = g.var(f"thief_{tag}")
            attempts.append(("dist_node_setter", lambda: ip.setattr(free, "dist_node", node)))
            attempts.append(("Var_constructor", lambda: ip.call(g.Var, [g.val("v")], {"distribution": node, "name": f"thief2_{tag}"})))
        for aname, act in attempts:
            kind, r = try_call(ip, PyFn(lambda ip_, act=act: act(), "attempt"), [])
            c.oblige(f"{tag}.{aname}.rejected", kind == "raise" and r.cls == "RuntimeError")
            c.oblige(f"{tag}.{aname}.node_unchanged", set(node.f) == set(before) and all(node.f[k] is before[k] for k in before), changed=str([k for k in before if node.f.get(k) is not before[k]]))
            c.oblige(f"{tag}.{aname}.still_owned_by_the_model", ip.getattr(node, "model") is model)


def rebuild_and_compare(ip, c, tag, model, rebuilt, g):
    c.oblige(f"{tag}.same_state", observe(ip, rebuilt) == observe(ip, model) if model is not None else True)


def shape_auto_transformed(g):
    """x ~ D(rate=p) is a parameter with auto_transform=True (re-parameterised by build_model with the distribution's default bijector), y ~ Lik(x)"""
    from contracts.graph import dist_fn_tfp
    p = g.var("p")
    x = g.var("x", dist=g.ip.call(g.Dist, [dist_fn_tfp("D")], {"rate": p}), parameter=True)
    g.ip.setattr(x, "auto_transform", True)
    return [g.var("y", dist=g.dist("Lik", x), observed=True)]


def roundtrip_unit(uid, shape_fn, assign_name, descr):
    @unit(uid, "C15", [f"{M}::Model.pop_nodes_and_vars", f"{M}::Model.copy_nodes_and_vars", f"{M}::Model.__init__", f"{M}::GraphBuilder.build_model", f"{N}::Node._unset_model", f"{N}::Node.__getstate__"],
          assumptions=[f"A-PY deepcopy; graph {descr}"])
    def u_roundtrip(ip):
        """pop + rebuild, copy_nodes_and_vars + rebuild (through the Model constructor and through a GraphBuilder), deep copy and copy=True each give a
        model with identical observable state and identical behaviour under assignment, independent of the original (assigning in one does not change the other)."""
        c = ip.ctx
        install_graph_models(ip)
        from contracts.graph import install_tfp_models
        install_tfp_models(ip)
        g = G(ip)
        Model = ip.repo(f"{M}::Model")

        def fresh():
            gg = G(ip)
            return gg, gg.build(*shape_fn(gg))

        newv = z3.Const("assigned_a", U)

        def after_assign(m):
            ip.setattr(m.f["_vars"][assign_name], "value", newv)
            return observe(ip, m)

        def rebuild(how, nodes, vars_):
            if how == "model":
                return try_call(ip, Model, [list(nodes.values()) + list(vars_.values())], {})
            gb = ip.call(g.GB, [], {})
            ip.call(method(ip, gb, "add"), list(nodes.values()) + list(vars_.values()), {})
            return try_call(ip, method(ip, gb, "build_model"), [], {})

        _, ref = fresh()
        ref_state = observe(ip, ref)
        _, ref2 = fresh()
        ref_assigned = after_assign(ref2)
        # copy_nodes_and_vars + rebuild
        for how in ("model", "builder"):
            sfx = "" if how == "model" else ".through_a_builder"
            _, m1 = fresh()
            nodes, vars_ = ip.call(method(ip, m1, "copy_nodes_and_vars"), [], {})
            kind, cp = rebuild(how, nodes, vars_)
            c.oblige(f"copy_rebuild{sfx}.same_state", kind == "ok" and observe(ip, cp) == ref_state, raised=str(getattr(cp, "args", "")))
            c.oblige(f"copy_rebuild{sfx}.same_behaviour", kind == "ok" and after_assign(cp) == ref_assigned)
            c.oblige(f"copy_rebuild{sfx}.original_independent", observe(ip, m1) == ref_state)
        # deepcopy via copy=True
        gg, _m = fresh()
        gb = ip.call(gg.GB, [], {})
        roots = shape_fn(gg)
        ip.call(method(ip, gb, "add"), roots, {})
        m2 = ip.call(method(ip, gb, "build_model"), [], {"copy": True})
        c.oblige("copy_true.same_state", observe(ip, m2) == ref_state)
        c.oblige("copy_true.independent_of_builder_nodes", all(m2.f["_vars"][assign_name] is not r for r in roots) and after_assign(m2) == ref_assigned and ip.getattr(roots[0], "model") is None)
        # the Model constructor takes an ITERABLE of nodes and variables: a one-shot iterator over the popped objects gives the model a list gives
        # (with and without growing the graph)
        for grow in (True, False):
            built = {}
            for how in ("list", "iterator"):
                _, m4 = fresh()
                nodes, vars_ = ip.call(method(ip, m4, "pop_nodes_and_vars"), [], {})
                objs = list(nodes.values()) + list(vars_.values())
                kind, mm = try_call(ip, Model, [objs if how == "list" else PyObj("iterator", items=objs, pos=0)], {"grow": grow})
                built[how] = (kind, observe(ip, mm) if kind == "ok" else None, sorted(mm.f["_vars"]) if kind == "ok" else None, str(getattr(mm, "args", "")))
            c.oblige(f"model_from_a_one_shot_iterable.grow_{grow}.same_as_from_a_list", built["list"][0] == "ok" and built["iterator"][:3] == built["list"][:3],
                     from_list=str(built["list"][2]), from_iterator=str(built["iterator"][2]) + built["iterator"][3])
        # ... and the builder can build again (copy=True leaves its own variables untouched)
        kind, m2b = try_call(ip, method(ip, gb, "build_model"), [], {"copy": True})
        c.oblige("copy_true.second_build_same_state", kind == "ok" and observe(ip, m2b) == ref_state, raised=str(getattr(m2b, "args", "")))
        # pop + rebuild
        for how in ("model", "builder"):
            sfx = "" if how == "model" else ".through_a_builder"
            _, m3 = fresh()
            nodes, vars_ = ip.call(method(ip, m3, "pop_nodes_and_vars"), [], {})
            if how == "model":
                c.oblige("pop.model_emptied", len(m3.f["_nodes"]) == 0 and len(m3.f["_vars"]) == 0)
                c.oblige("pop.nodes_unfrozen", all(ip.getattr(nd, "model") is None for nd in nodes.values()))
                c.oblige("pop.no_model_nodes_returned", not any(k.startswith("_model") for k in nodes))
            kind, rebuilt = rebuild(how, nodes, vars_)
            c.oblige(f"pop_rebuild{sfx}.same_state", kind == "ok" and observe(ip, rebuilt) == ref_state, raised=str(getattr(rebuilt, "args", "")))
            c.oblige(f"pop_rebuild{sfx}.same_behaviour", kind == "ok" and after_assign(rebuilt) == ref_assigned)
    return u_roundtrip


def shape_model_like_names(g):
    """the diamond graph plus bare, monitored ROOT nodes whose names merely CONTAIN the reserved `_model` prefix / look like the model's own nodes"""
    roots = SHAPES["diamond"](g)
    a = None
    todo = list(roots)
    while todo and a is None:
        v_ = todo.pop()
        if v_.clsname == "Var" and g.ip.getattr(v_, "name") == "a":
            a = v_
        elif v_.clsname == "Var":
            todo.extend(g.ip.call(method(g.ip, v_, "all_input_vars"), [], {}))
    return list(roots) + [g.calc("f_null", a, name="null_model_log_prob"), g.calc("f_sub", a, name="sub_model_log_lik"), g.calc("f_seedy", a, name="my_model_x_seed")]


roundtrip_unit("C15.roundtrip", SHAPES["diamond"], "a", "shape 'diamond' (shared input, transient node, leaf)")
roundtrip_unit("C15.roundtrip.names_that_contain_the_reserved_prefix", shape_model_like_names, "a", "shape 'diamond' + bare root nodes named null_model_log_prob, sub_model_log_lik, my_model_x_seed")
roundtrip_unit("C15.roundtrip.auto_transformed", shape_auto_transformed, "p", "x ~ D(rate=p) with auto_transform=True, y ~ Lik(x)")


@unit("C15.reuse_after_dropped_model", "C15", [f"{M}::Model.__init__", f"{N}::Node._clear_outputs", f"{N}::Node._add_output"],
      assumptions=["S4: a model that is no longer referenced is collected; its nodes become unfrozen (weak reference)"])
def u_reuse(ip):
    """nodes of a model that was dropped without popping can be re-wired and rebuilt: the new model records outputs as the exact
    inverse of the new inputs (no stale outputs from the old model), and assignment works."""
    c = ip.ctx
    install_graph_models(ip)
    g = G(ip)
    a = ip.call(g.Value, [z3.Const("va", U)], {"_name": "a"})
    b = g.calc("f_b", a, name="b")
    m1 = g.build(b)
    m1.dead = True  # dropped / garbage collected
    c.oblige("nodes_unfrozen_after_drop", ip.getattr(a, "model") is None)
    cc = g.calc("f_c", a, name="c")
    m2 = g.build(cc)
    outs = list(a.f["_outputs"])
    c.oblige("outputs_exact_inverse_in_new_model", len(outs) == 1 and outs[0] is cc)
    kind, r = try_call(ip, PyFn(lambda ip_: ip_.setattr(a, "value", z3.Const("new_a", U)), "assign"), [])
    c.oblige("assignment_works_in_new_model", kind == "ok" and ip.to_U(ip.getattr(cc, "value")).eq(ip.uf("f_c", z3.Const("new_a", U))))


@unit("C15.roundtrip_seeded", "C15", [f"{M}::Model.pop_nodes_and_vars", f"{M}::GraphBuilder._add_model_seed_nodes", f"{M}::GraphBuilder.build_model"])
def u_roundtrip_seeded(ip):
    """pop + rebuild of a model that contains a seeded node (known finding D8 on the unchanged tree)."""
    c = ip.ctx
    install_graph_models(ip)
    g = G(ip)
    a = g.var("a")
    s = g.calc("f_seeded", a, name="seeded", _needs_seed=True)
    m = g.build(s)
    c.oblige("seed_node_created", "_model_seeded_seed" in m.f["_nodes"])
    nodes, vars_ = ip.call(method(ip, m, "pop_nodes_and_vars"), [], {})
    gb = ip.call(g.GB, [], {})
    ip.call(method(ip, gb, "add"), list(nodes.values()) + list(vars_.values()), {})
    kind, r = try_call(ip, method(ip, gb, "build_model"), [])
    c.oblige("pop_rebuild_with_seeded_node_succeeds", kind == "ok")


@unit("C15.groups", "C15", [f"{M}::Model.groups", f"{M}::Model.__init__", f"{M}::GraphBuilder.add_groups", f"{M}::GraphBuilder.groups", f"{N}::Group.__init__"])
def u_groups(ip):
    """the groups a model reports contain the model's OWN nodes and variables - for a plain build and for copy=True (where the
    model holds copies); a second group of the same name is rejected by the builder."""
    c = ip.ctx
    install_graph_models(ip)
    Group = ip.repo(f"{N}::Group")
    for copy_flag in (False, True):
        g = G(ip)
        a = g.var("a")
        b = g.var("b", value=g.calc("f_b", a))
        r = g.var("r")  # a member that nothing else in the builder leads to
        n = g.calc("f_n", name="n_bare")  # ... and a bare node member
        grp = ip.call(Group, ["grp"], {"a": a, "b": b, "r": r, "n": n})
        gb = ip.call(g.GB, [], {})
        ip.call(method(ip, gb, "add"), [b], {})  # a and b are already reachable when the group is added
        ip.call(method(ip, gb, "add_groups"), [grp], {})
        m = ip.call(method(ip, gb, "build_model"), [], {"copy": copy_flag})
        c.oblige(f"every_member_of_an_added_group_is_in_the_model.copy_{copy_flag}", "r" in m.f["_vars"] and "n_bare" in m.f["_nodes"] and "a" in m.f["_vars"] and "b" in m.f["_vars"])
        groups = ip.call(method(ip, m, "groups"), [], {})
        tag = f".copy_{copy_flag}"
        ok = isinstance(groups, dict) and list(groups) == ["grp"]
        c.oblige("group_reported" + tag, ok)
        if ok:
            mem = groups["grp"].f["_nodes_and_vars"]
            c.oblige("members_are_the_models_own" + tag, mem["a"] is m.f["_vars"]["a"] and mem["b"] is m.f["_vars"]["b"])
            c.oblige("copy_is_independent" + tag, (m.f["_vars"]["a"] is not a) == copy_flag)
    g = G(ip)
    x, y = g.var("x"), g.var("y")
    g1, g2 = ip.call(Group, ["same"], {"x": x}), ip.call(Group, ["same"], {"y": y})
    gb = ip.call(g.GB, [], {})
    ip.call(method(ip, gb, "add_groups"), [g1], {})
    kind, r = try_call(ip, method(ip, gb, "add_groups"), [g2])
    c.oblige("duplicate_group_name_rejected", kind == "raise" and r.cls == "RuntimeError")


# "orders updates topologically" also for the TARGETED update (same harness as C01.model_update.n*)
from contracts.c01 import model_update_unit  # noqa: E402

for _n in (2, 3, 4):
    model_update_unit(_n, uid=f"C15.update_order.n{_n}", prop="C15")

"""C03 - state-passing model interface is pure and equivalent to direct assignment."""
from pyvc.api import *
from contracts.graph import G, M, N, SHAPES, SHAPES_IFACE, install_graph_models

IFACE = "liesel/goose/interface.py"
STRONG = {"hier": ["tau", "mu", "y"], "diamond": ["a", "y"], "flat": ["b", "c", "y"], "direct": ["b", "c", "y"], "weakdist": ["a", "b"], "weakdist_deep": ["a", "b"], "transformed": ["p", "x_transformed"], "optional": ["b", "y", "off"], "pit": ["mu", "y"]}


def simple_iface_unit(cls, uid=None, prop="C03"):
    @unit(uid or f"C03.{cls}", prop, [f"{IFACE}::{cls}.extract_position", f"{IFACE}::{cls}.update_state", f"{IFACE}::{cls}.log_prob"],
          assumptions=["A-PY: copy.copy is a shallow copy, NamedTuple._replace returns a new tuple"])
    def u(ip, cls=cls):
        """put/get: extracting the updated keys from update_state(p, s) gives p back and every other field equals s's; the input
        state object is not modified; log_prob is the user's function applied to the state."""
        c = ip.ctx
        lp = PyFn(lambda ip_, st: ip_.uf("user_log_prob", ip_.to_U(st)), "log_prob_fn")
        iface = ip.call(ip.repo(f"{IFACE}::{cls}"), [lp], {})
        vals = {k: z3.Const(f"s_{k}", U) for k in ("a", "b", "c")}
        e_dict = {"u": z3.Const("s_e_u", U), "v": z3.Const("s_e_v", U)}
        vals["e"] = e_dict  # an entry whose value is a (mutable) dict of arrays
        if cls == "DataclassInterface":
            vals["d"] = z3.Const("s_d", U)  # a field declared with field(init=False) that currently holds another value than its default
        if cls == "DictInterface":
            state = dict(vals)
            read = lambda st, k: st[k]  # noqa: E731
        else:
            st_cls = Obj("StateClass")  # user-defined record type (dataclass / named tuple instance)
            state = Obj("StateRecord", dict(vals))
            state.dc = {"init": ["a", "b", "c", "e"], "noinit": {"d": z3.Const("constructor_time_d", U)}}
            read = lambda st, k: st.f[k]  # noqa: E731
            if cls == "NamedTupleInterface":
                state = PyObj("nt_state", **vals)
                state.attrs["_replace"] = PyFn(lambda ip_, **kw: PyObj("nt_state", **{**{k: v for k, v in state.attrs.items() if k != "_replace"}, **kw}), "_replace")
                read = lambda st, k: st.attrs[k]  # noqa: E731
        pos = {"c": z3.Const("p_c", U), "a": z3.Const("p_a", U)}
        if cls != "DictInterface":
            # a position value that is itself a record (a nested dataclass instance registered as a pytree): it must come back AS THAT OBJECT
            nested = Obj("ParamsRecord", {"loc": z3.Const("p_loc", U), "scale": z3.Const("p_scale", U)})
            nested.dc = {"init": ["loc", "scale"], "noinit": {}}
            pos["c"] = nested
        snapshot = dict(vals)
        new = ip.call(method(ip, iface, "update_state"), [dict(pos), state], {})
        c.oblige("input_state_not_modified", all(read(state, k) is snapshot[k] for k in snapshot))
        c.oblige("returns_new_object", new is not state)
        # a position that assigns a dict to the dict-valued entry: direct assignment REPLACES the entry; the input state's dict keeps its contents
        e_new = {"u": z3.Const("p_e_u", U)}
        new_e = ip.call(method(ip, iface, "update_state"), [{"e": e_new}, state], {})
        c.oblige("dict_valued_entry_of_input_state_not_modified", read(state, "e") is e_dict and list(e_dict) == ["u", "v"] and e_dict["u"].eq(z3.Const("s_e_u", U)) and e_dict["v"].eq(z3.Const("s_e_v", U)))
        got_e = read(new_e, "e")
        c.oblige("dict_valued_entry_is_replaced_as_by_direct_assignment", isinstance(got_e, dict) and list(got_e) == ["u"] and got_e["u"].eq(z3.Const("p_e_u", U)))
        got = ip.call(method(ip, iface, "extract_position"), [["a", "c"], new], {})
        same = lambda a_, b_: a_ is b_ or (is_z3(a_) and is_z3(b_) and a_.eq(b_))  # noqa: E731
        c.oblige("put_get", isinstance(got, dict) and list(got) == ["a", "c"] and same(got["a"], pos["a"]) and same(got["c"], pos["c"]))
        c.oblige("other_fields_kept", all(read(new, k) is vals[k] or (is_z3(vals[k]) and read(new, k).eq(vals[k])) for k in vals if k not in pos))
        got0 = ip.call(method(ip, iface, "extract_position"), [["b", "a"], state], {})
        c.oblige("extract_reads_state", list(got0) == ["b", "a"] and got0["b"].eq(vals["b"]) and got0["a"].eq(vals["a"]))
        kind_it, got_it = try_call(ip, method(ip, iface, "extract_position"), [PyObj("iterator", items=["b", "a"], pos=0), state], {})  # keys as a one-shot iterable
        c.oblige("extract_reads_state.keys_given_as_an_iterator", kind_it == "ok" and list(got_it) == ["b", "a"] and got_it["b"].eq(vals["b"]) and got_it["a"].eq(vals["a"]))
        # a position is a PLAIN dict: JAX flattens plain dicts in sorted-key order - the order in which the tuning code lays out the inverse
        # mass matrix and ravel_pytree lays out the flat coordinates; a dict subclass (OrderedDict) flattens in insertion order instead
        c.oblige("position_is_a_plain_dict", type(got0) is dict and type(got) is dict)
        r = ip.call(method(ip, iface, "log_prob"), [state], {})
        c.oblige("log_prob_is_user_function_of_state", ip.to_U(r) == ip.uf("user_log_prob", ip.to_U(state)))
        if cls == "DataclassInterface":
            kind, e = try_call(ip, method(ip, iface, "update_state"), [{"zzz": z3.Const("p_z", U)}, state])
            c.oblige("unknown_field_rejected", kind == "raise" and e.cls == "RuntimeError")
    return u


for _c in ("DictInterface", "DataclassInterface", "NamedTupleInterface"):
    simple_iface_unit(_c)


def expect_transformed(ip, r2, p2):
    """spec for shape 'transformed', written from the model definition: x = b_p(t) with the default bijector of D at the CURRENT p"""
    P, T = p2["p"], p2["x_transformed_value"]
    x = r2["x_value"].f["value"]
    return [("original_variable_is_bijector_image_at_the_state_s_parameter", is_z3(x) and x.eq(ip.uf("fwd_default_D", P, T)))]


def expect_pit(ip, r2, p2):
    """spec for shape 'pit', written from the model definition: u = cdf of Lik(mu) at y, at the position's mu and y; its density is Du's at that u"""
    MU, Y = p2["mu"], p2["y_value"]
    u = r2["y_pit_value"].f["value"]
    want_u = ip.uf("cdf_Lik", MU, Y)
    lp = r2["y_pit_log_prob"].f["value"]
    return [("pit_value_is_cdf_at_the_state_s_values", is_z3(u) and u.eq(want_u)),
            ("pit_density_evaluated_at_that_value", is_z3(lp) and ip.to_U(lp).eq(ip.uf("logp_Du", want_u)))]


EXPECT = {"transformed": expect_transformed, "pit": expect_pit}


def liesel_unit(shape, rel=IFACE, cls="LieselInterface", auto_update=True, uid=None, prop="C03", single_key=False, prehistory=None):
    @unit(uid or (f"C03.{cls}.{shape}" + ("" if auto_update else ".auto_update_off")), prop, [f"{rel}::{cls}.__init__", f"{rel}::{cls}.update_state", f"{rel}::{cls}.extract_position", f"{rel}::{cls}.log_prob",
                                        f"{M}::Model._copy_computational_model", f"{M}::Model.state.fget", f"{M}::Model.state.fset", f"{M}::Model.update", f"{N}::Node.state.fset",
                                        f"{N}::Node.clear_state", f"{N}::Value.value.fset"],
          assumptions=[f"graph shape '{shape}', values / functions / distributions arbitrary", "A-PY: deepcopy duplicates the object graph preserving sharing",
                       "eager semantics only: equality with jit / vmap execution is bounded (A-JIT / A-VMAP are assumptions of this framework)"])
    def u(ip, shape=shape, rel=rel, cls=cls, auto_update=auto_update, single_key=single_key, prehistory=prehistory):
        """update_state(p, s) returns exactly the state the model itself reaches by assigning p directly and updating fully (every
        node's value, nothing outdated); the result does not depend on earlier calls (history independence); s and the user's model
        are not modified; extract_position gives p back (variable and node names); log_prob(state) is the model log-probability at
        those values."""
        c = ip.ctx
        install_graph_models(ip)
        g = G(ip)
        model = g.build(*SHAPES_IFACE[shape](g))
        if prehistory is not None:
            # the model handed to the interface has a HISTORY: its variables were used in an earlier model (every strong value assigned there, then
            # assigned back), taken out of it (pop_nodes_and_vars / copy_nodes_and_vars) and built into a new model
            for nm in STRONG[shape]:
                v0 = ip.getattr(model.f["_vars"][nm], "value")
                ip.setattr(model.f["_vars"][nm], "value", z3.Const(f"earlier_{nm}", U))
                ip.setattr(model.f["_vars"][nm], "value", v0)
            nodes_, vars__ = ip.call(method(ip, model, "pop_nodes_and_vars" if prehistory == "pop" else "copy_nodes_and_vars"), [], {})
            gb_ = ip.call(g.GB, [], {})
            ip.call(method(ip, gb_, "add"), list(nodes_.values()) + list(vars__.values()), {})
            model = ip.call(method(ip, gb_, "build_model"), [], {})
        if not auto_update:
            ip.setattr(model, "auto_update", False)

        def observe(m):
            """what the public API reports for every node: (value, outdated)"""
            out = {}
            for n, nd in m.f["_nodes"].items():
                v = ip.getattr(nd, "value")
                out[n] = (str(ip.to_U(v)) if not (is_z3(v) and v.sort() != U) else str(v), ip.truth(ip.getattr(nd, "outdated")))
            return out

        user_snapshot = observe(model)
        iface = ip.call(ip.repo(f"{rel}::{cls}"), [model], {})
        c.oblige("user_model_untouched_by_constructor", observe(model) == user_snapshot)
        c.oblige("private_copy", iface.f["_model"] is not model and all(iface.f["_model"].f["_nodes"][n] is not model.f["_nodes"][n] for n in model.f["_nodes"]))
        s = ip.getattr(model, "state")
        s_snapshot = {k: (v.f["value"], v.f["outdated"]) for k, v in s.items()}
        names = STRONG[shape]
        p1 = {names[0]: z3.Const("p1_0", U), f"{names[1]}_value": z3.Const("p1_1", U)}
        p2 = {names[0]: z3.Const("p2_0", U), f"{names[1]}_value": z3.Const("p2_1", U)}
        if len(names) >= 3:  # the earlier, unrelated call writes a DIFFERENT key on the SAME state object: nothing of it may be left over
            p1 = {names[2]: z3.Const("p1_other", U)}
        if single_key:  # a position with ONE entry (a second assignment would trigger a second refresh and can mask a wrong update order)
            p1, p2 = ({names[1]: z3.Const("p1_other", U)} if len(names) >= 2 else {names[0]: p1[names[0]]}), {names[0]: p2[names[0]]}
        r_hist = ip.call(method(ip, iface, "update_state"), [dict(p1), s], {})  # an earlier, unrelated call
        r2 = ip.call(method(ip, iface, "update_state"), [dict(p2), s], {})
        # reference: direct assignment on a fresh copy of the user's model + full update
        ref = g.build(*SHAPES_IFACE[shape](G(ip)))
        ip.setattr(ref.f["_vars"][names[0]], "value", p2[names[0]])
        if not single_key:
            ip.setattr(ref.f["_nodes"][f"{names[1]}_value"], "value", p2[f"{names[1]}_value"])
        ip.call(method(ip, ref, "update"), [], {})
        ref_state = ip.getattr(ref, "state")
        same_keys = list(r2) == list(ref_state) if prehistory is None else sorted(r2) == sorted(ref_state)  # (a rebuilt model may list its nodes in another order)
        c.oblige("same_nodes", same_keys)
        if same_keys:
            for k in r2:
                a, b = r2[k].f["value"], ref_state[k].f["value"]
                eq = (a is b) or (a is None and b is None) or (is_z3(a) and is_z3(b) and a.sort() == b.sort() and z3.is_true(z3.simplify(a == b))) or (not is_z3(a) and not is_z3(b) and a == b)
                c.oblige(f"equals_direct_assignment.{k}", bool(eq))
            c.oblige("nothing_outdated", not any(ip.truth(v.f["outdated"]) is True for v in r2.values()))
            # ... and the state an INDEPENDENT evaluator computes from the assigned values (the reference model above runs the code under test)
            from contracts.c01 import from_scratch, same_value
            fs = from_scratch(ip, ref, {"on": False, "n": {}})
            stale = [k for k in r2 if k in ref.f["_nodes"] and ref.f["_nodes"][k].clsname in ("Value", "Data", "Calc", "Dist", "PITCalc") and not (same_value(ip, r2[k].f["value"], fs[id(ref.f["_nodes"][k])]) or isinstance(fs[id(ref.f["_nodes"][k])], float))]
            c.oblige("every_node_holds_its_from_scratch_value", not stale, stale=str(stale))
        if same_keys and shape in EXPECT and not single_key:
            for nm_, ok_ in EXPECT[shape](ip, r2, p2):
                c.oblige(nm_, bool(ok_))
        c.oblige("input_state_not_modified", all(s[k].f["value"] is s_snapshot[k][0] and s[k].f["outdated"] is s_snapshot[k][1] for k in s_snapshot))
        c.oblige("user_model_untouched", observe(model) == user_snapshot)
        got = ip.call(method(ip, iface, "extract_position"), [list(p2), r2], {})
        c.oblige("put_get", list(got) == list(p2) and all(ip.to_U(got[k]).eq(p2[k]) for k in p2))
        c.oblige("position_is_a_plain_dict", type(got) is dict)  # flattened by JAX in sorted-key order (see C03.DictInterface)
        # the keys as a ONE-SHOT iterable (a generator over the position's keys - the signature says Iterable / Sequence of names)
        kind_it, got_it = try_call(ip, method(ip, iface, "extract_position"), [PyObj("iterator", items=list(p2), pos=0), r2], {})
        c.oblige("put_get.keys_given_as_an_iterator", kind_it == "ok" and list(got_it) == list(p2) and all(ip.to_U(got_it[k]).eq(p2[k]) for k in p2))
        lp = ip.call(method(ip, iface, "log_prob"), [r2], {})
        c.oblige("log_prob_is_model_log_prob", to_sort(lp, Real) == to_sort(ip.getattr(ref, "log_prob"), Real))
    return u


for _s in SHAPES:
    liesel_unit(_s)
liesel_unit("pit")  # a caching node class outside the Calc / Dist hierarchy
liesel_unit("optional")  # a variable whose value is None (a legitimate value) next to cached calculations: restored like every other entry
liesel_unit("direct")  # position keyed by VARIABLE name for a variable whose value node has a direct consumer
liesel_unit("direct", auto_update=False)
liesel_unit("transformed")  # default bijector depending on a model variable: functions are shared between the user's model and the private copy
liesel_unit("weakdist_deep")
liesel_unit("weakdist_deep", uid="C03.LieselInterface.weakdist_deep.single_key", single_key=True)
liesel_unit("direct", uid="C03.LieselInterface.direct.single_key", single_key=True)
liesel_unit("hier", uid="C03.LieselInterface.hier.model_rebuilt_after_pop", prehistory="pop")
liesel_unit("weakdist", uid="C03.LieselInterface.weakdist.model_rebuilt_from_copy", prehistory="copy")
# the caching invariant itself (C01) on a model whose variables have a HISTORY in an earlier model (assigned there, popped / copied, rebuilt): the interface harness
# assigns a position through the public setters and compares every node with the from-scratch evaluation
liesel_unit("hier", uid="C01.model_rebuilt_after_pop.hier", prop="C01", prehistory="pop")
liesel_unit("weakdist", uid="C01.model_rebuilt_from_copy.weakdist", prop="C01", prehistory="copy")
liesel_unit("weakdist")  # a weak variable that carries a distribution: the distribution must be refreshed AFTER the variable's value calculation
liesel_unit("diamond", "liesel/model/goose.py", "GooseModel")
liesel_unit("diamond", auto_update=False)
liesel_unit("hier", auto_update=False)


@unit("C03.LieselInterface.ambiguous_key", "C03", [f"{IFACE}::LieselInterface.extract_position", f"{IFACE}::LieselInterface.update_state"],
      assumptions=["graph: variable `scale` (value node `scale_value`) and another variable NAMED `scale_value`; a bare node `tau` and a variable `tau`"])
def u_ambiguous(ip):
    """put/get also holds for a position key that names both a node and a (different) variable: extract_position reads what
    update_state wrote, and feeding extract_position back is a no-op."""
    c = ip.ctx
    install_graph_models(ip)
    g = G(ip)
    scale = g.var("scale")
    other = g.var("scale_value")
    tau_node = ip.call(g.Value, [g.val("tau_node")], {"_name": "tau"})
    tau_var = g.var("tau")
    top = g.calc("f_top", scale, other, tau_node, tau_var, name="top")
    model = g.build(top)
    iface = ip.call(ip.repo(f"{IFACE}::LieselInterface"), [model], {})
    s = ip.getattr(model, "state")
    for key in ("scale_value", "tau"):
        p = {key: z3.Const(f"put_{key}", U)}
        out = ip.call(method(ip, iface, "update_state"), [dict(p), s], {})
        got = ip.call(method(ip, iface, "extract_position"), [[key], out], {})
        c.oblige(f"put_get.{key}", ip.to_U(got[key]).eq(p[key]))
        back = ip.call(method(ip, iface, "extract_position"), [[key], s], {})
        out2 = ip.call(method(ip, iface, "update_state"), [back, s], {})
        ref = ip.call(method(ip, iface, "update_state"), [{}, s], {})
        c.oblige(f"get_put_is_noop.{key}", all(ip.to_U(out2[k_].f["value"]).eq(ip.to_U(ref[k_].f["value"])) for k_ in ref if ref[k_].f["value"] is not None))


@unit("C03.LieselInterface.two_models_in_one_process", "C03", [f"{IFACE}::LieselInterface.__init__", f"{IFACE}::LieselInterface.extract_position", f"{IFACE}::LieselInterface.update_state"],
      assumptions=["two models: A with variable `x` on the default value node `x_value`; B where the variable `x` wraps an explicitly named calculation node `x_std` = h(raw), "
                   "and where `aux` is a bare NODE (in A a variable `aux` on `aux_value`); both orders of first use"])
def u_two_models(ip):
    """an interface resolves a position key in ITS model only: what an interface of another model resolved before (same key, another node) changes nothing -
    extract_position reads the node that holds the key's value in the state at hand, and put/get holds for each interface whatever ran before."""
    c = ip.ctx
    install_graph_models(ip)

    def model_a():
        g = G(ip)
        x = g.var("x", value=z3.Const("A_x", U))
        aux = g.var("aux", value=z3.Const("A_aux", U))
        return g.build(g.calc("fA", x, aux, name="z"))

    def model_b():
        g = G(ip)
        raw = g.var("raw", value=z3.Const("B_raw", U))
        x = ip.call(g.Var, [g.calc("h", raw, name="x_std"), None], {"name": "x"})
        aux = ip.call(g.Value, [z3.Const("B_aux", U)], {"_name": "aux"})
        return g.build(g.calc("fB", x, aux, name="z"))

    LI = ip.repo(f"{IFACE}::LieselInterface")
    for order in ("A_first", "B_first"):
        ma, mb = model_a(), model_b()
        ia, ib = ip.call(LI, [ma], {}), ip.call(LI, [mb], {})
        sa, sb = ip.getattr(ma, "state"), ip.getattr(mb, "state")
        want = {"A": {"x": sa["x_value"].f["value"], "aux": sa["aux_value"].f["value"], "z": sa["z"].f["value"]},
                "B": {"x": sb["x_std"].f["value"], "aux": sb["aux"].f["value"], "z": sb["z"].f["value"]}}
        for which in (("A", "B") if order == "A_first" else ("B", "A")):
            iface, st = (ia, sa) if which == "A" else (ib, sb)
            kind, got = try_call(ip, method(ip, iface, "extract_position"), [["x", "aux", "z"], st], {})
            c.oblige(f"{order}.{which}.extract_reads_this_models_nodes", kind == "ok" and list(got) == ["x", "aux", "z"] and all(ip.to_U(got[k]).eq(ip.to_U(want[which][k])) for k in got),
                     raised=str(getattr(got, "cls", "")))
        # put/get on B after A has been used (and the other way round)
        for which, key in (("B", "raw"), ("B", "aux"), ("A", "x"), ("A", "aux")):
            iface, st = (ia, sa) if which == "A" else (ib, sb)
            v = z3.Const(f"put_{which}_{key}", U)
            kind, out = try_call(ip, method(ip, iface, "update_state"), [{key: v}, st], {})
            kind2, got = try_call(ip, method(ip, iface, "extract_position"), [[key, "x"], out], {}) if kind == "ok" else ("raise", out)
            ok = kind == "ok" and kind2 == "ok" and ip.to_U(got[key]).eq(v)
            if ok and which == "B" and key == "raw":  # the weak variable x of B is h(raw) at the NEW value
                ok = ip.to_U(got["x"]).eq(ip.to_U(out["x_std"].f["value"])) and "put_B_raw" in str(ip.to_U(got["x"]))
            c.oblige(f"{order}.{which}.put_get.{key}", bool(ok))


# the caching protocol this property's statement rests on (values and densities "after updating")
from contracts.c01 import register_cache_core  # noqa: E402

register_cache_core("C03")

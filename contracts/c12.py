"""C12 - mass-matrix adaptation is aligned with the parameters it scales."""
import itertools

from pyvc.api import *
from contracts.common import KERNELS, sym_da_state, sym_epoch_state, sym_kernel

MM = "liesel/goose/mm.py"


def install_mm_models(ip):
    """A-BJX / checked natively: ravel_pytree and tree_leaves lay a dict out in sorted-key order"""
    ip.models["jax.tree_util.tree_leaves"] = lambda ip_, d: [d[k] for k in sorted(d)] if isinstance(d, dict) else [d]
    ip.models["jax.vmap"] = lambda ip_, f, in_axes=0, out_axes=0: PyFn(lambda ip2, x: ip2.uf("vmap_" + ip2.describe(f).split(".")[-1], ip2.to_U(x)), "vmapped")
    ip.models["jax.numpy.column_stack"] = lambda ip_, xs: ip_.uf("column_stack", ip_.to_U(list(xs)))
    ip.models["jax.numpy.var"] = lambda ip_, m, axis=None, ddof=0: ip_.uf("var", ip_.to_U(m), ip_.to_U(axis), ip_.to_U(ddof))
    ip.models["jax.numpy.cov"] = lambda ip_, m, rowvar=True: ip_.uf("cov", ip_.to_U(m), ip_.to_U(rowvar))
    ip.models["jax.numpy.atleast_1d"] = lambda ip_, x: ip_.uf("atleast_1d", x)
    ip.models["jax.numpy.atleast_2d"] = lambda ip_, x: ip_.uf("atleast_2d", x)
    ip.models["jax.numpy.diag_indices_from"] = lambda ip_, x: ip_.uf("diag_indices_from", x)
    ip.models["jax.numpy.sqrt"] = lambda ip_, x: ip_.uf("sqrt_u", ip_.to_U(x))
    ip.models["opaque_binop"] = lambda ip_, op, a, b: ip_.uf("op_" + op, ip_.to_U(a), ip_.to_U(b))


@unit("C12.history_to_matrix", "C12", [f"{MM}::_history_to_matrix"],
      assumptions=["A-BJX: blackjax's flat position is jax.flatten_util.ravel_pytree(position), i.e. leaves in sorted-key order, each raveled row-major (checked natively by the bounded stand-in)"])
def u_history_to_matrix(ip):
    """for every order in which the keys are listed, the column blocks of the tuning matrix follow the flat position's
    coordinate order (sorted keys), each block = the per-draw row-major ravel of that key's history."""
    c = ip.ctx
    install_mm_models(ip)
    vals = {k: z3.Const(f"hist_{k}", U) for k in ("a", "b", "c")}
    want = ip.uf("column_stack", ip.to_U([ip.uf("vmap_ravel", vals[k]) for k in ("a", "b", "c")]))
    for perm in itertools.permutations(("a", "b", "c")):
        hist = {k: vals[k] for k in perm}
        r = ip.call(ip.repo(f"{MM}::_history_to_matrix"), [hist], {})
        c.oblige("columns_in_flat_position_order." + "".join(perm), r == want)


@unit("C12.tune_formulas", "C12", [f"{MM}::tune_inv_mm_diag", f"{MM}::tune_inv_mm_full"], summaries=[f"{MM}::_history_to_matrix (C12.history_to_matrix)"])
def u_tune_formulas(ip):
    """diagonal mode: sample variance over draws (ddof=1) + 0.001; dense mode: sample covariance with variables in columns,
    + 0.001 on the diagonal."""
    c = ip.ctx
    install_mm_models(ip)
    M = z3.Const("matrix", U)
    ip.summaries[f"{MM}::_history_to_matrix"] = lambda ip_, args, kwargs: M
    h = {"a": z3.Const("h", U)}
    d = ip.call(ip.repo(f"{MM}::tune_inv_mm_diag"), [h], {})
    reg = ip.to_z3_any(0.001)
    c.oblige("diag_is_regularised_sample_variance", d == ip.uf("op_Add", ip.uf("atleast_1d", ip.uf("var", M, ip.to_U(0), ip.to_U(1))), ip.to_U(0.001)), structural=True)
    f = ip.call(ip.repo(f"{MM}::tune_inv_mm_full"), [h], {})
    cov = ip.uf("atleast_2d", ip.uf("cov", M, ip.to_U(False)))
    c.oblige("full_is_regularised_sample_covariance", f == ip.uf("at_add", cov, ip.to_U(ip.uf("diag_indices_from", cov)), reg), structural=True)


def tune_slow_unit(kind):
    rel, kcls, _ = KERNELS[kind]

    @unit(f"C12.tune_slow.{kind}", "C12", [f"{rel}::{kcls}._tune_slow", f"{rel}::{kcls}._tune_fast"], summaries=[f"{MM}::tune_inv_mm_diag/full (C12.tune_formulas)"])
    def u(ip, kind=kind):
        """after a slow-adaptation epoch the kernel's inverse mass matrix is the tuner applied to the history of the kernel's OWN
        position keys only (other kernels' parameters never enter), diagonal or dense according to mm_diag; without history
        nothing changes; the step size is rescaled by sqrt(trace old / trace new)."""
        c = ip.ctx
        install_mm_models(ip)
        for diag, keys, start in [(d_, k_, None) for d_ in (True, False) for k_ in (("b", "a"), ("a",))] + [(True, ("b", "a"), "user"), (False, ("a",), "user")]:
            if True:
                # the constructor's initial_inverse_mass_matrix only says where the adaptation STARTS: after a slow epoch the matrix is the tuned one all the same
                k = sym_kernel(ip, kind, keys=keys, mm_diag=diag, initial_inverse_mass_matrix=None if start is None else z3.Const("user_inverse_mass_matrix", U))
                ks = sym_da_state(ip, kind)
                old_mm, old_step = ks.f["inverse_mass_matrix"], ks.f["step_size"]
                ep = sym_epoch_state(ip)
                got = {}
                ip.summaries[f"{MM}::tune_inv_mm_diag"] = lambda ip_, args, kwargs: (got.__setitem__("diag", args[0]), z3.Const("new_diag", U))[1]
                ip.summaries[f"{MM}::tune_inv_mm_full"] = lambda ip_, args, kwargs: (got.__setitem__("full", args[0]), z3.Const("new_full", U))[1]
                ip.models["jax.numpy.sum"] = lambda ip_, x: ip_.uf("trace_sum", ip_.to_U(x))
                ip.models["jax.numpy.trace"] = lambda ip_, x: ip_.uf("trace_tr", ip_.to_U(x))
                hist = {"a": z3.Const("ha", U), "zz_other_kernel": z3.Const("hz", U), "b": z3.Const("hb", U)}
                out = ip.call(method(ip, k, "_tune_slow"), [z3.Const("key", U), ks, z3.Const("ms", U), ep, hist], {})
                tag = f".{'diag' if diag else 'full'}.{''.join(keys)}" + ("" if start is None else ".user_initial_matrix")
                which = "diag" if diag else "full"
                c.oblige("tuner_matches_mode" + tag, list(got) == [which])
                if which in got:
                    h = got[which]
                    c.oblige("only_own_keys_enter" + tag, isinstance(h, dict) and sorted(h) == sorted(keys) and all(h[x] is hist[x] for x in keys))
                c.oblige("inverse_mass_matrix_installed" + tag, ks.f["inverse_mass_matrix"].eq(z3.Const("new_" + which, U)))
                tr = "trace_sum" if diag else "trace_tr"
                adj = ip.uf("sqrt_u", ip.uf("op_Div", ip.uf(tr, old_mm), ip.uf(tr, z3.Const("new_" + which, U))))
                c.oblige("step_size_rescaled" + tag, is_z3(ks.f["step_size"]) and ks.f["step_size"].eq(ip.uf("op_Mult", adj, ip.to_U(old_step))))
                c.oblige("same_state_returned" + tag, out.f["kernel_state"] is ks)
                # no history: nothing changes
                ks2 = sym_da_state(ip, kind, "ks2")
                before = dict(ks2.f)
                out2 = ip.call(method(ip, k, "_tune_slow"), [z3.Const("key", U), ks2, z3.Const("ms", U), ep, None], {})
                c.oblige("no_history_no_change" + tag, all(ks2.f[f_] is before[f_] for f_ in before))
    return u


for _k in ("HMC", "NUTS"):
    tune_slow_unit(_k)


from contracts.c07 import engine_init_unit  # noqa: E402

engine_init_unit("C12.engine_init", "C12")


# the builder and the engine constructor end to end through the public API (same harness as C10.build_end_to_end)
from contracts.c10 import build_whole_unit  # noqa: E402

build_whole_unit("C12.build_end_to_end", "C12", "A")
build_whole_unit("C12.build_end_to_end.variant_b", "C12", "B")


# "that epoch's recorded history of the kernel's own parameters": the engine hands tune() the CURRENT epoch's position history iff a kernel
# needs it, after every adaptation epoch (same harness as C07.end_epoch)
from contracts.c07 import E as _E, u_end_epoch  # noqa: E402

unit("C12.engine_hands_over_this_epochs_history", "C12", [f"{_E}._end_epoch", f"{_E}._tune_kernels"], summaries=["KernelSequence.end_epoch / tune (C07.kernel_sequence)"])(u_end_epoch)


# the flat coordinates of a position (ravel_pytree / blackjax) follow JAX's flattening order of the object extract_position returns; the tuning
# code lays the inverse mass matrix out in sorted-key order - the two agree iff a position is a PLAIN dict (same harness as C03.<Interface>)
from contracts.c03 import liesel_unit, simple_iface_unit  # noqa: E402

for _c in ("DictInterface", "DataclassInterface", "NamedTupleInterface"):
    simple_iface_unit(_c, uid=f"C12.position_flattens_in_sorted_key_order.{_c}", prop="C12")
liesel_unit("hier", uid="C12.position_flattens_in_sorted_key_order.LieselInterface", prop="C12")

# the history reaches _tune_slow as the engine handed it over - whatever the number of tracked keys (same harness as C07.mixins)
from contracts.c07 import mixins_unit  # noqa: E402

mixins_unit("C12.tuning_dispatch_forwards_the_history", "C12")

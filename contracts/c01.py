"""C01 - model cache coherence.

(1) per-function contracts on the REAL node / model code with symbolic neighbours;
(2) the graph-level argument for an ARBITRARY DAG as lemmas over those contracts (uninterpreted Node sort, quantified);
(3) symbolic execution of the real code over enumerated shapes x operation histories (all values symbolic), compared after every
    operation with an independent from-scratch evaluator, with evaluation counters."""
import itertools

from pyvc.api import *
from contracts.graph import G, M, N, SHAPES, SHAPES_C01, TOTAL, install_graph_models, shape_pit

# the caching-protocol units also run on a graph with a caching node that is NEITHER a Calc NOR a Dist (the legacy PIT node derives from Node directly)
SHAPES_CACHE = {**SHAPES_C01, "pit": shape_pit}

# ------------------------------------------------------------------------------------------ (1)


def stub_node(ip, name, log, outdated=None, value=None, inputs=()):
    c = ip.ctx
    od = c.fresh(f"od_{name}", Bool) if outdated is None else outdated
    o = PyObj(name, outdated=od, value=z3.Const(f"value_{name}", U) if value is None else value)
    o.attrs["name"] = name
    o.attrs["flag_outdated"] = PyFn(lambda ip_: (log.append(("flag", name)), o)[1], f"{name}.flag_outdated")
    o.attrs["update"] = PyFn(lambda ip_: (log.append(("update", name)), o)[1], f"{name}.update")
    o.attrs["all_input_nodes"] = PyFn(lambda ip_: tuple(inputs), f"{name}.all_input_nodes")
    o.attrs["inputs"] = tuple(inputs)
    o.attrs["kwinputs"] = {}
    return o


@unit("C01.flag_outdated", "C01", [f"{N}::Node.flag_outdated", f"{N}::Value.flag_outdated", f"{N}::in_model_method"])
def u_flag(ip):
    """Node.flag_outdated sets the node's own flag and calls flag_outdated exactly once on each recorded output (so, by induction
    over the DAG, everything reachable is flagged); it changes nothing else; a Value node is never outdated and does not propagate."""
    c = ip.ctx
    install_graph_models(ip)
    g = G(ip)
    for k in range(4):
        log = []
        outs = [stub_node(ip, f"out{i}", log) for i in range(k)]
        n = ip.call(g.Calc, [PyFn(lambda ip_: None, "f")], {"_name": "n", "update_on_init": False})
        n.f["_outputs"] = tuple(outs)
        n.f["_model"] = PyFn(lambda ip_: PyObj("model"), "weakref")
        n.f["_outdated"] = c.fresh("od_n", Bool)
        before = {kk: v for kk, v in n.f.items() if kk != "_outdated"}
        r = ip.call(method(ip, n, "flag_outdated"), [], {})
        c.oblige(f"own_flag_set.k{k}", n.f["_outdated"] is True)
        c.oblige(f"each_output_flagged_once_in_order.k{k}", log == [("flag", f"out{i}") for i in range(k)])
        c.oblige(f"frame.k{k}", all(n.f[kk] is before[kk] for kk in before) and r is n)
    v = ip.call(g.Value, [z3.Const("x", U)], {"_name": "v"})
    log = []
    v.f["_outputs"] = (stub_node(ip, "o", log),)
    v.f["_model"] = PyFn(lambda ip_: PyObj("model"), "weakref")
    ip.call(method(ip, v, "flag_outdated"), [], {})
    c.oblige("value_flag_outdated_is_noop", log == [] and ip.getattr(v, "outdated") is False)
    free = ip.call(g.Calc, [PyFn(lambda ip_: None, "f")], {"_name": "free", "update_on_init": False})
    kind, r = try_call(ip, method(ip, free, "flag_outdated"))
    c.oblige("outside_model_rejected", kind == "raise" and r.cls == "RuntimeError")


@unit("C01.value_setter", "C01", [f"{N}::Value.value.fset", f"{N}::Var.value.fset"])
def u_value_setter(ip):
    """assigning a value stores it, flags every recorded output (hence all descendants) and, iff auto-update is on, runs one full
    model update afterwards; outside a model it only stores."""
    c = ip.ctx
    install_graph_models(ip)
    g = G(ip)
    for auto in (True, False):
        log = []
        model = PyObj("model", auto_update=auto, update=PyFn(lambda ip_, *a: log.append(("model.update", a)), "update"))
        v = ip.call(g.Value, [z3.Const("old", U)], {"_name": "v"})
        v.f["_outputs"] = (stub_node(ip, "o1", log), stub_node(ip, "o2", log))
        v.f["_model"] = PyFn(lambda ip_: model, "weakref")
        ip.setattr(v, "value", z3.Const("new", U))
        want = [("flag", "o1"), ("flag", "o2")] + ([("model.update", ())] if auto else [])
        c.oblige(f"stored.auto_{auto}", v.f["_value"].eq(z3.Const("new", U)))
        c.oblige(f"outputs_flagged_then_update_iff_auto.auto_{auto}", log == want)
    v2 = ip.call(g.Value, [z3.Const("old", U)], {"_name": "v2"})
    ip.setattr(v2, "value", z3.Const("new", U))
    c.oblige("outside_model_just_stores", v2.f["_value"].eq(z3.Const("new", U)))
    weak = g.var("w", value=g.calc("f", g.var("p")))
    kind, r = try_call(ip, PyFn(lambda ip_: ip_.setattr(weak, "value", z3.Const("x", U)), "set"), [])
    c.oblige("weak_var_assignment_rejected", kind == "raise" and r.cls == "RuntimeError")


@unit("C01.node_update", "C01", [f"{N}::Calc.update", f"{N}::Dist.update", f"{N}::Dist.init_dist", f"{N}::TransientNode.update", f"{N}::Value.update", f"{N}::TransientCalc.value.fget",
                                 f"{N}::TransientDist.value.fget", f"{N}::Dist.all_input_nodes", f"{N}::Node.all_input_nodes"])
def u_node_update(ip):
    """Calc.update stores function(values of the inputs, in order; keyword inputs by keyword) and clears the flag; Dist.update stores the
    log-density of the evaluation node's value under distribution(input values) (summed iff not per_obs); transient nodes compute the
    same on every read and cache nothing; nothing else changes. A distribution's evaluation node is one of its input nodes."""
    c = ip.ctx
    install_graph_models(ip)
    g = G(ip)
    a, b = [ip.call(g.Value, [z3.Const(f"v{n}", U)], {"_name": n}) for n in ("a", "b")]
    n = g.calc("F", a, name="n", k=b)
    n.f["_outdated"] = True
    n.f["_value"] = z3.Const("stale", U)
    before = {kk: v for kk, v in n.f.items() if kk not in ("_value", "_outdated")}
    ip.call(method(ip, n, "update"), [], {})
    c.oblige("calc.value_is_function_of_input_values", ip.to_U(n.f["_value"]).eq(ip.uf("F", z3.Const("va", U), z3.Const("vb", U))))
    c.oblige("calc.flag_cleared", n.f["_outdated"] is False)
    c.oblige("calc.frame", all(n.f[kk] is before[kk] for kk in before))
    # None is a legitimate VALUE of an input (an optional argument): the calculation runs on it like on any other value
    opt = ip.call(g.Value, [None], {"_name": "opt"})
    n2 = g.calc("F2", a, name="n2", k=opt)
    n2.f["_outdated"] = True
    n2.f["_value"] = z3.Const("stale2", U)
    ip.call(method(ip, n2, "update"), [], {})
    c.oblige("calc.none_valued_input_is_a_value", ip.to_U(n2.f["_value"]).eq(ip.uf("F2", z3.Const("va", U), ip.to_U(None))) and n2.f["_outdated"] is False)
    t = g.calc("T", a, name="t", transient=True)
    c.oblige("transient.value_computed_on_read", ip.to_U(ip.getattr(t, "value")).eq(ip.uf("T", z3.Const("va", U))))
    tv0 = t.f["_value"]
    ip.call(method(ip, t, "update"), [], {})
    c.oblige("transient.update_caches_nothing", t.f["_value"] is tv0)
    for per_obs in (True, False):
        d = g.dist("D", a, per_obs=per_obs, scale=b)
        at = ip.call(g.Value, [z3.Const("vat", U)], {"_name": "at"})
        ip.setattr(d, "at", at)
        ip.call(method(ip, d, "update"), [], {})
        lp = ip.uf("logp_D", z3.Const("va", U), z3.Const("vb", U), z3.Const("vat", U))
        c.oblige(f"dist.value.per_obs_{per_obs}", ip.to_U(d.f["_value"]).eq(lp) if per_obs else to_sort(d.f["_value"], Real) == TOTAL(lp))
        c.oblige(f"dist.flag_cleared.per_obs_{per_obs}", d.f["_outdated"] is False)
        ins = ip.call(method(ip, d, "all_input_nodes"), [], {})
        c.oblige(f"dist.at_is_an_input_node.per_obs_{per_obs}", len(ins) == 3 and ins[0] is a and ins[1] is b and ins[2] is at)
    d0 = g.dist("D", a)
    kind, r = try_call(ip, method(ip, d0, "update"))
    c.oblige("dist.without_at_rejected", kind == "raise" and r.cls == "RuntimeError")


@unit("C01.outdated_property", "C01", [f"{N}::Node.outdated.fget", f"{N}::TransientNode.outdated.fget", f"{N}::Value.outdated.fget", f"{N}::Node.state.fget", f"{N}::Node.state.fset",
                                       f"{N}::TransientNode.state.fget", f"{N}::TransientNode.state.fset", f"{N}::Node.clear_state"])
def u_outdated(ip):
    """a caching node in a model reports its stored flag, a transient node reports 'some input node is outdated' (recursively through
    transient inputs), a Value node never is; outside a model everything but Value nodes is outdated. state get/set round-trips
    (value, flag) for caching nodes and carries no value for transient nodes."""
    c = ip.ctx
    install_graph_models(ip)
    g = G(ip)
    log = []
    model = PyFn(lambda ip_: PyObj("model"), "weakref")
    n = g.calc("F", name="n")
    n.f["_model"] = model
    flag = c.fresh("stored_flag", Bool)
    n.f["_outdated"] = flag
    c.oblige("caching_reports_stored_flag", c.as_bool(ip.getattr(n, "outdated")) == flag)
    for k in range(4):
        ins = [stub_node(ip, f"i{j}", log) for j in range(k)]
        t = g.calc("T", name="t", transient=True)
        t.f["_inputs"] = tuple(ins[:-1]) if k else ()
        t.f["_kwinputs"] = {"kw": ins[-1]} if k else {}
        t.f["_model"] = model
        t.f["_outdated"] = c.fresh("ignored", Bool)
        got = ip.getattr(t, "outdated")
        want = Or(*[i.attrs["outdated"] for i in ins]) if k else z3.BoolVal(False)
        c.oblige(f"transient_reports_any_input_outdated.k{k}", (z3.BoolVal(got) if isinstance(got, bool) else got) == want)
    free = g.calc("F2", name="free")
    c.oblige("outside_model_outdated", ip.getattr(free, "outdated") is True)
    st = ip.getattr(n, "state")
    c.oblige("state_get", st.f["value"] is n.f["_value"] and c.as_bool(st.f["outdated"]) == flag)
    NodeState = ip.repo(f"{N}::NodeState")
    ip.setattr(n, "state", Obj(NodeState, {"value": z3.Const("restored", U), "outdated": False, "extra": None}))
    c.oblige("state_set", n.f["_value"].eq(z3.Const("restored", U)) and n.f["_outdated"] is False)
    # a state that went through a JAX / numpy transformation carries its flags as boolean ARRAY scalars (not `bool` instances, same truth value)
    aflag = c.fresh("array_flag", Bool)
    ip.setattr(n, "state", Obj(NodeState, {"value": z3.Const("restored2", U), "outdated": PyObj("bool_array_scalar", __bool__=PyFn(lambda ip_: aflag, "__bool__")), "extra": None}))
    tr = ip.truth(ip.getattr(n, "outdated"))
    c.oblige("state_set_with_array_valued_flag_keeps_its_truth_value", (z3.BoolVal(tr) if isinstance(tr, bool) else tr) == aflag)
    ip.call(method(ip, n, "clear_state"), [], {})
    c.oblige("clear_state", n.f["_value"] is None and n.f["_outdated"] is True)
    t = g.calc("T", name="t2", transient=True)
    t.f["_model"] = model
    c.oblige("transient_state_has_no_value", ip.getattr(t, "state").f["value"] is None)


def model_update_unit(n, uid=None, prop="C01"):
    @unit(uid or f"C01.model_update.n{n}", prop, [f"{M}::Model.update"], assumptions=[f"{n} nodes in the update order (units for 0..4; the loop body is uniform)"])
    def u(ip, n=n):
        """Model.update() walks the nodes in the stored (topological) order and calls update() exactly once on exactly those that report
        outdated at that moment; Model.update(*names) additionally restricts to the recursive inputs of the named nodes; every node is
        visited at most once per call."""
        c = ip.ctx
        install_graph_models(ip)
        log = []
        nodes = [stub_node(ip, f"n{i}", log) for i in range(n)]
        inset = [c.fresh(f"in_targets_{i}", Bool) for i in range(n)]
        Model = ip.repo(f"{M}::Model")
        m = Obj(Model, {"_sorted_nodes": list(nodes), "_nodes": {nd.name: nd for nd in nodes}})
        ip.call(method(ip, m, "update"), [], {})
        for i, nd in enumerate(nodes):
            c.oblige(f"full.update_iff_outdated.{i}", z3.BoolVal(("update", nd.name) in log) == nd.attrs["outdated"])
        c.oblige("full.order_and_at_most_once", log == [e for e in [("update", nd.name) for nd in nodes] if e in log])
        del log[:]
        chosen = {i: None for i in range(n)}

        def rec_inputs(ip_, args, kwargs):
            # contract of _recursive_inputs (C01.recursive_inputs): the ancestor closure; here an arbitrary subset
            out = []
            for i, nd in enumerate(nodes):
                if ip_.ctx.branch(inset[i], f"target-{i}"):
                    out.append(nd)
            return out

        ip.summaries[f"{M}::Model._recursive_inputs"] = rec_inputs
        ip.call(method(ip, m, "update"), ["some_name"], {})
        for i, nd in enumerate(nodes):
            c.oblige(f"targeted.update_iff_in_targets_and_outdated.{i}", z3.BoolVal(("update", nd.name) in log) == And(inset[i], nd.attrs["outdated"]))
        c.oblige("targeted.order_and_at_most_once", log == [e for e in [("update", nd.name) for nd in nodes] if e in log])
    return u


for _n in range(5):
    model_update_unit(_n)


@unit("C01.recursive_inputs", "C01", [f"{M}::Model._recursive_inputs"])
def u_recursive_inputs(ip):
    """_recursive_inputs(name) is exactly the set of nodes from which the named node is reachable through all_input_nodes() edges
    (incl. a distribution's evaluation node), each once - on four small graphs incl. a diamond and an 'at' edge that is not a
    positional / keyword input."""
    c = ip.ctx
    install_graph_models(ip)
    Model = ip.repo(f"{M}::Model")
    log = []
    for gname, edges, target, want in (
        ("chain", {"c": ["b"], "b": ["a"], "a": []}, "c", {"a", "b", "c"}),
        ("diamond", {"d": ["l", "r"], "l": ["a"], "r": ["a"], "a": [], "x": ["a"]}, "d", {"a", "l", "r", "d"}),
        ("single", {"a": [], "b": ["a"]}, "a", {"a"}),
        ("at_edge", {"lp": ["p", "AT:yv"], "yv": ["w"], "w": ["q"], "p": [], "q": []}, "lp", {"lp", "p", "yv", "w", "q"}),
    ):
        objs = {}
        for nm in edges:
            objs[nm] = stub_node(ip, nm, log)
        for nm, ins in edges.items():
            all_in = [objs[i.replace("AT:", "")] for i in ins]
            plain = [objs[i] for i in ins if not i.startswith("AT:")]
            objs[nm].attrs["all_input_nodes"] = PyFn(lambda ip_, all_in=all_in: tuple(all_in), "all_input_nodes")
            objs[nm].attrs["inputs"] = tuple(plain)  # what a traversal that forgets all_input_nodes() would see
            objs[nm].attrs["kwinputs"] = {}
        m = Obj(Model, {"_nodes": objs})
        res = ip.call(method(ip, m, "_recursive_inputs"), [target], {})
        names = [r.name for r in ip.iterate(res)]
        c.oblige(f"{gname}.exactly_the_ancestor_closure", set(names) == want and len(names) == len(want))


# ------------------------------------------------------------------------------------------ (2)

Node = z3.DeclareSort("Node")
V = z3.DeclareSort("Val")


def graph_theory(c):
    """an arbitrary finite DAG of caching and value nodes (transient nodes collapsed into 'effective input' edges)"""
    eff = z3.Function("EffIn", Node, Node, Bool)       # eff(i, n): i is an effective input of n
    reach = z3.Function("Reach", Node, Node, Bool)     # reflexive-transitive closure of eff
    rank = z3.Function("rank", Node, Int)
    isval = z3.Function("IsValue", Node, Bool)
    a, b, d = z3.Consts("ga gb gd", Node)
    c.assume(ForAll([a, b], Implies(eff(a, b), And(rank(a) < rank(b), Not(isval(b))))))           # DAG; Value nodes have no inputs
    c.assume(ForAll([a], reach(a, a)))
    c.assume(ForAll([a, b], Implies(eff(a, b), reach(a, b))))
    c.assume(ForAll([a, b, d], Implies(And(reach(a, b), reach(b, d)), reach(a, d))))
    c.assume(ForAll([a, b], Implies(And(reach(a, b), a != b), Exists([d], And(eff(d, b), reach(a, d))))))  # unfolding
    return eff, reach, rank, isval


@unit("C01.lemma.assignment", "C01", [], assumptions=[
    "contracts used: C01.value_setter + C01.flag_outdated (assignment stores the value and flags everything reachable, flags only towards True)",
    "A-PURE: Fresh(n) (from-scratch value) depends only on the values of n's ancestors", "meta: Reach is the reflexive-transitive closure of EffIn (axiomatised with unfolding)"])
def u_lemma_assign(ip):
    """for an arbitrary DAG: the coherence invariant I (a caching node that is not flagged holds its from-scratch value, and a flagged
    node is 'dirty' = an ancestor was assigned since it was computed) is preserved by assigning a new value to any Value node."""
    c = ip.ctx
    eff, reach, rank, isval = graph_theory(c)
    val, val2 = z3.Function("val", Node, V), z3.Function("val2", Node, V)
    od, od2 = z3.Function("od", Node, Bool), z3.Function("od2", Node, Bool)
    fresh, fresh2 = z3.Function("Fresh", Node, V), z3.Function("Fresh2", Node, V)
    dirty, dirty2 = z3.Function("dirty", Node, Bool), z3.Function("dirty2", Node, Bool)
    n = z3.Const("n", Node)
    v0, newv = z3.Const("v0", Node), z3.Const("newv", V)
    I = lambda val_, od_, fresh_, dirty_: ForAll([n], And(Implies(Not(od_(n)), val_(n) == fresh_(n)), Implies(And(od_(n), Not(isval(n))), dirty_(n))))  # noqa: E731
    c.assume(ForAll([n], Implies(isval(n), And(Not(od(n)), fresh(n) == val(n)))))
    c.assume(I(val, od, fresh, dirty))
    c.assume(isval(v0))
    # effect of the assignment (contracts)
    c.assume(ForAll([n], val2(n) == If(n == v0, newv, val(n))))
    c.assume(ForAll([n], od2(n) == If(isval(n), False, Or(od(n), reach(v0, n)))))
    c.assume(ForAll([n], dirty2(n) == Or(dirty(n), And(reach(v0, n), Not(isval(n))))))
    c.assume(ForAll([n], Implies(Not(reach(v0, n)), fresh2(n) == fresh(n))))   # A-PURE frame
    c.assume(fresh2(v0) == newv)
    c.cover("pre")
    c.oblige("invariant_preserved_by_assignment", I(val2, od2, fresh2, dirty2))


@unit("C01.lemma.update", "C01", [], assumptions=[
    "contracts used: C01.node_update (value := function of the current input values, flag cleared, frame), C01.outdated_property (transient nodes report 'some effective input outdated'), "
    "C01.model_update (nodes visited once, in the stored order, updated iff outdated [and in the target set]), C15 (stored order is topological), C01.recursive_inputs (target set = ancestor closure)",
    "A-PURE: a node function applied to from-scratch input values yields the node's from-scratch value"])
def u_lemma_update(ip):
    """for an arbitrary DAG, one step of the update loop at position k of a topological order preserves: I, 'every [targeted] node
    before position k is up to date', 'evaluated => was dirty', 'each node evaluated at most once'; hence after the loop a full update
    leaves no node outdated and every node holds its from-scratch value, and a targeted update does so for the named nodes and all
    their ancestors."""
    c = ip.ctx
    eff, reach, rank, isval = graph_theory(c)
    val, val2 = z3.Function("val", Node, V), z3.Function("val2", Node, V)
    od, od2 = z3.Function("od", Node, Bool), z3.Function("od2", Node, Bool)
    fresh = z3.Function("Fresh", Node, V)
    dirty = z3.Function("dirty", Node, Bool)
    evals, evals2 = z3.Function("evals", Node, Int), z3.Function("evals2", Node, Int)
    pos = z3.Function("pos", Node, Int)
    target = z3.Function("InTargets", Node, Bool)
    apply_f = z3.Function("ApplyF", Node, V)     # what node.update() computes in the current state
    n, i = z3.Consts("n i", Node)
    k = c.fresh("k", Int)
    cur = z3.Const("cur", Node)
    c.assume(ForAll([n, i], Implies(eff(i, n), pos(i) < pos(n))))                       # topological order (C15)
    c.assume(ForAll([n, i], Implies(n != i, pos(n) != pos(i))))
    c.assume(ForAll([n, i], Implies(And(target(n), eff(i, n)), target(i))))             # target set closed under inputs (C01.recursive_inputs)
    c.assume(ForAll([n], Implies(isval(n), And(Not(od(n)), fresh(n) == val(n)))))
    I = lambda val_, od_: ForAll([n], And(Implies(Not(od_(n)), val_(n) == fresh(n)), Implies(And(od_(n), Not(isval(n))), dirty(n))))  # noqa: E731
    LOOP = lambda od_, kk: ForAll([n], Implies(And(target(n), pos(n) < kk), Not(od_(n))))  # noqa: E731
    COUNT = lambda ev_, kk: ForAll([n], And(ev_(n) >= 0, ev_(n) <= 1, Implies(pos(n) >= kk, ev_(n) == 0), Implies(ev_(n) == 1, dirty(n))))  # noqa: E731
    c.assume(And(I(val, od), LOOP(od, k), COUNT(evals, k)))
    c.assume(pos(cur) == k)
    # A-PURE: inputs hold from-scratch values => the function yields the from-scratch value
    c.assume(Implies(ForAll([i], Implies(eff(i, cur), val(i) == fresh(i))), apply_f(cur) == fresh(cur)))
    do = And(target(cur), od(cur))
    c.assume(ForAll([n], val2(n) == If(And(n == cur, do), apply_f(cur), val(n))))
    c.assume(ForAll([n], od2(n) == If(And(n == cur, do), False, od(n))))
    c.assume(ForAll([n], evals2(n) == If(And(n == cur, do), evals(n) + 1, evals(n))))
    c.cover("pre")
    c.oblige("step_preserves_invariant", I(val2, od2))
    c.oblige("step_extends_up_to_date_prefix", LOOP(od2, k + 1))
    c.oblige("step_keeps_evaluation_discipline", COUNT(evals2, k + 1))
    # conclusion at loop exit (k beyond every position)
    kk = c.fresh("k_end", Int)
    c.oblige("exit_all_targets_fresh", Implies(And(I(val, od), LOOP(od, kk), ForAll([n], pos(n) < kk)), ForAll([n], Implies(target(n), And(Not(od(n)), val(n) == fresh(n))))))


@unit("C01.lemma.restore", "C01", [], assumptions=["contracts used: C01.outdated_property (state get/set round-trips value and flag), Model.state covers every node incl. Value nodes (C01.histories)"])
def u_lemma_restore(ip):
    """restoring a state that was saved while I held re-establishes I: the state carries the value of every node incl. all Value
    nodes, so from-scratch values after the restore are those at save time."""
    c = ip.ctx
    eff, reach, rank, isval = graph_theory(c)
    sval, sod, sfresh, sdirty = z3.Function("saved_val", Node, V), z3.Function("saved_od", Node, Bool), z3.Function("saved_Fresh", Node, V), z3.Function("saved_dirty", Node, Bool)
    val2, od2, fresh2 = z3.Function("val2", Node, V), z3.Function("od2", Node, Bool), z3.Function("Fresh2", Node, V)
    n, i = z3.Consts("n i", Node)
    c.assume(ForAll([n], And(Implies(Not(sod(n)), sval(n) == sfresh(n)), Implies(And(sod(n), Not(isval(n))), sdirty(n)))))
    c.assume(ForAll([n], And(val2(n) == sval(n), od2(n) == sod(n))))
    # A-PURE: from-scratch values are determined by the Value nodes' values, which are restored as well
    c.assume(ForAll([n], fresh2(n) == sfresh(n)))
    c.oblige("invariant_restored", ForAll([n], And(Implies(Not(od2(n)), val2(n) == fresh2(n)), Implies(And(od2(n), Not(isval(n))), sdirty(n)))))


# ------------------------------------------------------------------------------------------ (3)

from contracts.c15 import all_inputs  # noqa: E402
from pyvc.models import deep_copy  # noqa: E402


def topo(nodes):
    order, seen = [], set()

    def visit(n_):
        if id(n_) in seen:
            return
        seen.add(id(n_))
        for i in all_inputs(n_):
            visit(i)
        order.append(n_)

    for n_ in nodes:
        visit(n_)
    return order


def from_scratch(ip, model, counting):
    """independent evaluator: the value every node would have after recomputation from the current Value-node values"""
    counting["on"] = False
    vals = {}
    for n_ in topo(list(model.f["_nodes"].values())):
        cn = n_.clsname
        if cn in ("Value", "Data"):
            vals[id(n_)] = n_.f["_value"]
        elif cn in ("Calc", "TransientCalc", "TransientIdentity", "VarValue"):
            args = [vals[id(i)] for i in n_.f["_inputs"]]
            kw = {k: vals[id(i)] for k, i in n_.f["_kwinputs"].items()}
            vals[id(n_)] = ip.call(n_.f["_function"], args, kw)
        elif cn in ("Dist", "TransientDist"):
            args = [vals[id(i)] for i in n_.f["_inputs"]]
            kw = {k: vals[id(i)] for k, i in n_.f["_kwinputs"].items()}
            d = ip.call(n_.f["_distribution"], args, kw)
            lp = ip.call(d.attrs["log_prob"], [vals[id(n_.f["_at"])]], {})
            vals[id(n_)] = lp if n_.f["_per_obs"] or not (is_z3(lp) and lp.sort() == U) else TOTAL(lp)
        elif cn == "InputGroup":
            ag = ip.repo(f"{N}::ArgGroup")
            vals[id(n_)] = ip.call(ag, [[vals[id(i)] for i in n_.f["_inputs"]], {k: vals[id(i)] for k, i in n_.f["_kwinputs"].items()}], {})
        elif cn == "PITCalc":  # legacy probability integral transform: the cdf of its input distribution (at that distribution's input values) at the value of its evaluation node
            dn = n_.f["_inputs"][0]
            args = [vals[id(i)] for i in dn.f["_inputs"]]
            kw = {k: vals[id(i)] for k, i in dn.f["_kwinputs"].items()}
            vals[id(n_)] = ip.call(ip.call(dn.f["_distribution"], args, kw).attrs["cdf"], [vals[id(dn.f["_at"])]], {})
        elif cn == "NoDist":
            vals[id(n_)] = 0.0
        else:
            raise Unsupported(f"from_scratch: node class {cn}")
    counting["on"] = True
    return vals


def same_value(ip, a, b):
    if is_z3(a) and is_z3(b):
        if a.sort() != b.sort():
            return False
        if a.sort() == U:
            return a.eq(b) or z3.is_true(z3.simplify(a == b))
        s_ = z3.Solver()
        s_.add(a != b)
        return s_.check() == z3.unsat
    if is_z3(a) or is_z3(b):
        return False
    return a == b or (a is None and b is None)


def history_unit(shape, depth):
    @unit(f"C01.histories.{shape}", "C01", [f"{M}::Model.update", f"{M}::Model._recursive_inputs", f"{M}::Model.state.fget", f"{M}::Model.state.fset", f"{M}::Model.auto_update.fset",
                                            f"{N}::Value.value.fset", f"{N}::Node.flag_outdated", f"{N}::Calc.update", f"{N}::Dist.update", f"{N}::TransientNode.outdated.fget",
                                            f"{N}::Node.state.fget", f"{N}::Node.state.fset", f"{M}::Model.__init__"],
          assumptions=[f"graph shape '{shape}' and operation histories of length <= {depth} over assign / toggle auto-update / full update / targeted update / save / restore; every value and "
                       "every node function symbolic (each check holds for all values)", "A-NX topological sort"], max_paths=20000)
    def u(ip, shape=shape, depth=depth):
        """after every operation of every enumerated history: each node that reports itself up to date holds exactly the from-scratch
        value (independent evaluator); a full update leaves no node outdated; a targeted update leaves the named node and all its ancestors up to
        date; during one update each caching node's function is evaluated at most once and only if an ancestor was assigned since it was
        last computed."""
        c = ip.ctx
        install_graph_models(ip)
        counting = {"on": True, "n": {}}
        import contracts.graph as GR

        def counted(fn, label):
            def f(ip_, *a, **k):
                if counting["on"]:
                    counting["n"][label] = counting["n"].get(label, 0) + 1
                return ip_.call(fn, list(a), k)
            return PyFn(f, label)

        g = G(ip)
        model0 = g.build(*SHAPES_CACHE[shape](g))
        # instrument: count evaluations per caching node
        for nm, nd in model0.f["_nodes"].items():
            if nd.clsname == "Calc" and not nm.startswith("_model"):
                nd.f["_function"] = counted(nd.f["_function"], nm)
            elif nd.clsname == "Dist":
                dist0 = nd.f["_distribution"]

                def mk(dist0=dist0, nm=nm):
                    def make(ip_, *a, **k):
                        d = ip_.call(dist0, list(a), k)
                        d2 = PyObj(d.name, **{kk: vv for kk, vv in d.attrs.items()})
                        d2.attrs["log_prob"] = counted(d.attrs["log_prob"], nm)
                        return d2
                    return PyFn(make, "counted_dist")
                nd.f["_distribution"] = mk()
        strong = [nm for nm, v in model0.f["_vars"].items() if v.f["_value_node"].clsname == "Value"]
        targets = [nm for nm in model0.f["_nodes"] if nm.endswith("_log_prob") or nm in ("sigma_value", "left", "leaf_value", "c2")][:3]
        bare = [nm for nm, nd in model0.f["_nodes"].items() if nd.clsname == "Value" and nd.f["_var"] is None and not nm.startswith("_model")]
        ops = [("assign", nm) for nm in strong] + [("assign_node", nm) for nm in bare] + [("toggle",), ("update",)] + [("update", t) for t in targets] + [("save",), ("restore",)]
        stats = {"states": 0}

        def descendants(model, var_name):
            return descendants_of_node(model, model.f["_vars"][var_name].f["_value_node"])

        def descendants_of_node(model, start):
            out, todo = set(), [start]
            nodes = list(model.f["_nodes"].values())
            while todo:
                x = todo.pop()
                for y in nodes:
                    if any(x is i for i in all_inputs(y)) and id(y) not in out:
                        out.add(id(y))
                        todo.append(y)
            return out

        def check(model, tag, hist):
            stats["states"] += 1
            fs = from_scratch(ip, model, counting)
            bad = []
            for nm, nd in model.f["_nodes"].items():
                od = ip.truth(ip.getattr(nd, "outdated"))
                if od is not True:
                    got = ip.getattr(nd, "value")
                    if not same_value(ip, got if not isinstance(got, (int, float)) else got, fs[id(nd)] if not isinstance(fs[id(nd)], (int, float)) else fs[id(nd)]) and not (isinstance(got, float) and isinstance(fs[id(nd)], float)):
                        bad.append(nm)
            c.oblige("up_to_date_nodes_hold_from_scratch_values", not bad, history=str(hist), nodes=str(bad))

        def run(model, hist, saved, dirty, step):
            if step == depth:
                return
            for op in ops:
                if op == ("restore",) and saved is None:
                    continue
                m = deep_copy(ip, model)
                d = set(dirty_names(model, dirty))
                sv = saved
                h = hist + [op]
                counting["n"] = {}
                if op[0] == "assign":
                    before_counts = {}
                    ip.setattr(m.f["_vars"][op[1]], "value", z3.Const(f"new_{op[1]}_{step}", U))
                    desc = descendants(m, op[1])
                    d |= {nm for nm, nd in m.f["_nodes"].items() if id(nd) in desc and nd.clsname in ("Calc", "Dist")}
                    updated = m.f["_auto_update"] is True
                elif op[0] == "assign_node":
                    ip.setattr(m.f["_nodes"][op[1]], "value", z3.Const(f"new_{op[1]}_{step}", U))
                    desc = descendants_of_node(m, m.f["_nodes"][op[1]])
                    d |= {nm for nm, nd in m.f["_nodes"].items() if id(nd) in desc and nd.clsname in ("Calc", "Dist")}
                    updated = m.f["_auto_update"] is True
                elif op[0] == "toggle":
                    ip.setattr(m, "auto_update", not m.f["_auto_update"])
                    updated = False
                elif op[0] == "update":
                    ip.call(method(ip, m, "update"), list(op[1:]), {})
                    updated = True
                    if len(op) == 1:
                        c.oblige("full_update_leaves_nothing_outdated", not any(ip.truth(ip.getattr(nd, "outdated")) is True for nd in m.f["_nodes"].values()), history=str(h))
                    else:
                        anc = [x for x in topo([m.f["_nodes"][op[1]]])]
                        c.oblige("targeted_update_brings_ancestors_up_to_date", not any(ip.truth(ip.getattr(nd, "outdated")) is True for nd in anc), history=str(h))
                elif op[0] == "save":
                    sv = (ip.getattr(m, "state"), set(d))
                    updated = False
                else:
                    ip.setattr(m, "state", sv[0])
                    d = set(sv[1])
                    updated = False
                if updated:
                    ev = dict(counting["n"])
                    c.oblige("each_caching_node_evaluated_at_most_once_per_update", all(v <= 1 for v in ev.values()), history=str(h), counts=str(ev))
                    c.oblige("evaluated_only_if_an_ancestor_was_assigned", all(k in d for k in ev), history=str(h), counts=str(ev), dirty=str(sorted(d)))
                    d -= set(ev)
                check(m, op, h)
                run(m, h, sv, name_set(m, d), step + 1)

        def dirty_names(model, dirty):
            return dirty

        def name_set(model, d):
            return set(d)

        check(model0, ("built",), [])
        run(model0, [], None, set(), 0)
        # longer histories through prefixes that leave OUTDATED nodes behind while auto-update is on again
        # (auto-update off, assign, [targeted update], auto-update on), each continued by every history of 2 further operations
        for s0 in strong:
            for tgt in [None] + (targets[:1] if s0 == strong[0] or depth > 3 else []):
                m = deep_copy(ip, model0)
                counting["n"] = {}
                ip.setattr(m, "auto_update", False)
                ip.setattr(m.f["_vars"][s0], "value", z3.Const(f"pre_{s0}", U))
                desc = descendants(m, s0)
                d = {nm for nm, nd in m.f["_nodes"].items() if id(nd) in desc and nd.clsname in ("Calc", "Dist")}
                pre = [("toggle",), ("assign", s0)]
                if tgt is not None:
                    counting["n"] = {}
                    ip.call(method(ip, m, "update"), [tgt], {})
                    d -= set(counting["n"])
                    pre.append(("update", tgt))
                ip.setattr(m, "auto_update", True)
                pre.append(("toggle",))
                check(m, ("prefix",), pre)
                run(m, pre, None, set(d), depth - 2)
        c.oblige("histories_enumerated", stats["states"] > 50)
        c.notes.append(f"{shape}: {stats['states']} model states checked over histories of length <= {depth}")
    return u


def any_flags_unit(shape):
    @unit(f"C01.update_from_cleared_nodes.{shape}", "C01", [f"{M}::Model.update", f"{M}::Model.state.fget", f"{M}::Model.state.fset", f"{N}::Node.clear_state", f"{N}::Node.state.fset",
                                                          f"{N}::Calc.update", f"{N}::Dist.update", f"{M}::Model.__init__"],
          assumptions=[f"graph shape '{shape}'; every single caching node, every pair, and all caching nodes cleared through the public Node.clear_state(); values / functions symbolic"])
    def u(ip, shape=shape):
        """whatever makes nodes outdated - here the public Node.clear_state() on any one, any two or all caching nodes, or restoring a
        snapshot that contains outdated nodes after the model was updated in between - a full update leaves nothing outdated with every
        node at its from-scratch value, and a targeted update does so for the named node and its ancestors."""
        c = ip.ctx
        install_graph_models(ip)
        counting = {"on": False, "n": {}}
        g = G(ip)
        model0 = g.build(*SHAPES_CACHE[shape](g))
        caching = [nm for nm, nd in model0.f["_nodes"].items() if nd.clsname in ("Calc", "Dist")]
        import itertools
        subsets = [(a,) for a in caching] + list(itertools.combinations(caching, 2)) + [tuple(caching)]
        n_states = 0
        for sub in subsets:
            for mode in ("full", "snapshot_roundtrip", "targeted"):
                if mode != "full" and len(sub) != 1:
                    continue
                m = deep_copy(ip, model0)
                for nm in sub:
                    ip.call(method(ip, m.f["_nodes"][nm], "clear_state"), [], {})
                if mode == "snapshot_roundtrip":
                    snap = ip.getattr(m, "state")
                    ip.call(method(ip, m, "update"), [], {})
                    ip.setattr(m, "state", snap)
                if mode == "targeted":
                    ip.call(method(ip, m, "update"), [sub[0]], {})
                    fs = from_scratch(ip, m, counting)
                    anc = topo([m.f["_nodes"][sub[0]]])
                    okv = all(ip.truth(ip.getattr(nd, "outdated")) is not True and same_value(ip, ip.getattr(nd, "value"), fs[id(nd)]) for nd in anc)
                    c.oblige("targeted_update_recomputes_cleared_node", okv, cleared=str(sub))
                else:
                    ip.call(method(ip, m, "update"), [], {})
                    fs = from_scratch(ip, m, counting)
                    bad = [nm for nm, nd in m.f["_nodes"].items() if ip.truth(ip.getattr(nd, "outdated")) is True or not (
                        same_value(ip, ip.getattr(nd, "value"), fs[id(nd)]) or isinstance(fs[id(nd)], float))]
                    c.oblige(f"{mode}.update_leaves_every_node_fresh", not bad, cleared=str(sub), stale=str(bad))
                n_states += 1
        c.oblige("configurations_enumerated", n_states >= len(caching))
    return u


for _s in SHAPES_CACHE:
    any_flags_unit(_s)


@unit("C01.failed_assignment", "C01", [f"{N}::Value.value.fset", f"{M}::Model.update", f"{N}::Calc.update", f"{N}::Node.flag_outdated"],
      assumptions=["graph: x -> c1 = f1(x) -> c2 = f2(c1), where f2 RAISES for the assigned value (a user function / a validating distribution may raise)"])
def u_failed_assignment(ip):
    """an assignment whose automatic update raises part-way through leaves the model in a state where the invariant still holds: every node
    that reports up to date holds the from-scratch value for the values the model holds NOW; the exception propagates to the caller."""
    c = ip.ctx
    install_graph_models(ip)
    g = G(ip)
    x = g.var("x")
    c1 = g.calc("f1", x, name="c1")
    c2 = g.calc("f2", c1, name="c2")
    c3 = g.calc("f3", c2, x, name="c3")
    model = g.build(c3)
    armed = {"on": False}
    f2 = model.f["_nodes"]["c2"].f["_function"]

    def f2_raising(ip_, *a, **k):
        if armed["on"]:
            raise PyRaise("ValueError", ("the model cannot be evaluated at this value",))
        return ip_.call(f2, list(a), k)

    model.f["_nodes"]["c2"].f["_function"] = PyFn(f2_raising, "f2_raising")
    armed["on"] = True
    kind, r = try_call(ip, PyFn(lambda ip_: ip_.setattr(model.f["_vars"]["x"], "value", z3.Const("bad_x", U)), "assign"), [])
    armed["on"] = False
    c.oblige("exception_propagates", kind == "raise" and r.cls in ("ValueError", "RuntimeError"))  # (Calc.update wraps the user function's error in a RuntimeError)
    counting = {"on": False, "n": {}}
    fs = from_scratch(ip, model, counting)
    stale = [nm for nm, nd in model.f["_nodes"].items() if nd.clsname in ("Calc", "Dist") and ip.truth(ip.getattr(nd, "outdated")) is not True
             and not (same_value(ip, ip.getattr(nd, "value"), fs[id(nd)]) or isinstance(fs[id(nd)], float))]
    c.oblige("up_to_date_nodes_hold_from_scratch_values_after_the_failed_assignment", not stale, stale=str(stale), x=str(ip.getattr(model.f["_vars"]["x"], "value")))
    # and the model recovers: a later valid assignment brings everything up to date
    ip.setattr(model.f["_vars"]["x"], "value", z3.Const("good_x", U))
    fs = from_scratch(ip, model, counting)
    bad = [nm for nm, nd in model.f["_nodes"].items() if ip.truth(ip.getattr(nd, "outdated")) is True or (nd.clsname in ("Calc", "Dist") and not (same_value(ip, ip.getattr(nd, "value"), fs[id(nd)]) or isinstance(fs[id(nd)], float)))]
    c.oblige("a_later_valid_assignment_restores_coherence", not bad, stale=str(bad))


import os as _os  # noqa: E402

_DEPTH = 3 if _os.environ.get("VERIF_TIER", "quick") != "thorough" else 4
for _s in SHAPES_CACHE:
    history_unit(_s, _DEPTH)



@unit("C01.set_seed", "C01", [f"{M}::Model.set_seed", f"{N}::Value.value.fset", f"{M}::Model.update", f"{M}::GraphBuilder._add_model_seed_nodes"],
      assumptions=["graph: a ~ value; eps = f_seeded(a, seed) (needs a seed); z = f_z(eps); A-RNG: split(key, n) gives n children"])
def u_set_seed(ip):
    """Model.set_seed is a value assignment like any other: with auto-update on, every node is up to date afterwards and the seeded node and what
    depends on it hold the values computed from the NEW seed; with auto-update off they report outdated until the next update, which recomputes them."""
    c = ip.ctx
    install_graph_models(ip)
    ip.models["jax.random.split"] = lambda ip_, key, num=2: [ip_.uf("split", ip_.to_U(key), z3.IntVal(i)) for i in range(ip_.conc_int(num))]
    for auto in (True, False):
        g = G(ip)
        a = g.var("a")
        eps = g.calc("f_seeded", a, name="eps", _needs_seed=True)
        z = g.calc("f_z", eps, name="z")
        m = g.build(z)
        if not auto:
            ip.setattr(m, "auto_update", False)
        key = z3.Const("new_key", U)
        ip.call(method(ip, m, "set_seed"), [key], {})
        child = ip.uf("split", key, z3.IntVal(0))
        nd = m.f["_nodes"]
        tag = ".auto_on" if auto else ".auto_off"
        c.oblige("seed_node_holds_the_child_key" + tag, ip.to_U(ip.getattr(nd["_model_eps_seed"], "value")).eq(child))
        if not auto:
            c.oblige("dependents_report_outdated_until_updated" + tag, ip.truth(ip.getattr(nd["eps"], "outdated")) is True and ip.truth(ip.getattr(nd["z"], "outdated")) is True)
            ip.call(method(ip, m, "update"), [], {})
        want_eps = [t for t in [ip.to_U(ip.getattr(nd["eps"], "value"))]][0]
        c.oblige("nothing_outdated_afterwards" + tag, not any(ip.truth(ip.getattr(n_, "outdated")) is True for n_ in nd.values()))
        c.oblige("seeded_node_recomputed_from_the_new_seed" + tag, "new_key" in str(want_eps) and "f_seeded" in str(want_eps))
        c.oblige("dependent_recomputed_from_the_new_seeded_value" + tag, ip.to_U(ip.getattr(nd["z"], "value")).eq(ip.uf("f_z", want_eps)))

# ------------------------------------------------------------------------------------------------------------------------------------
# the per-function contracts of the caching protocol - flagging, the value setter, node updates, the outdated / state properties, the order of
# full and targeted model updates, the ancestor closure - carry every property whose statement speaks about values "after updating":
# registered again under those properties
CACHE_CORE = ["C01.set_seed", "C01.flag_outdated", "C01.value_setter", "C01.node_update", "C01.outdated_property", "C01.recursive_inputs", "C01.model_update.n2", "C01.model_update.n3",
              "C01.failed_assignment"]


def register_cache_core(prop):
    from pyvc.unit import reuse
    for src in CACHE_CORE:
        reuse(src, src.replace("C01.", f"{prop}.cache_protocol.", 1), prop)

#!/bin/bash
# Offline setup: expose the z3 python package of the tooling venv to /venv/bin/python through a
# private path entry (nothing is installed into /venv); verify imports.
set -e
HERE="$(cd "$(dirname "$0")" && pwd)"
mkdir -p "$HERE/.cache/z3path" "$HERE/evidence" "$HERE/replays"
ln -sfn /opt/veriftools/pyvenv/lib/python3.11/site-packages/z3 "$HERE/.cache/z3path/z3"
PYTHONPATH="$HERE/.cache/z3path:$HERE" /venv/bin/python - <<'PY'
import z3, sys
assert z3.get_version_string().startswith("5."), z3.get_version_string()
import liesel, os
assert os.path.realpath(liesel.__file__).startswith("/repo/"), liesel.__file__
import pyvc.core
print("setup ok: z3", z3.get_version_string(), "liesel from", os.path.dirname(liesel.__file__))
PY

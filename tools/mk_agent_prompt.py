import json, sys
pid, wt = sys.argv[1], sys.argv[2]
for l in open('/verif/properties.jsonl'):
    p = json.loads(l)
    if p['id'] == pid:
        break
print(f"""You are helping to evaluate a verification effort by acting as a careful "bug seeder" for the open-source Python project liesel (a JAX-based probabilistic programming framework with the Goose MCMC engine). You work ONLY inside the scratch git worktree {wt} (a checkout of the project). Do not touch /repo or /verif, and do not read anything under /verif.

The semantic property under study ({pid}: {p['title']}):

STATEMENT: {p['statement']}

QUANTIFIED OVER: {p['quantifier']['text']}

Relevant files (relative to the worktree): {', '.join(p['anchors']['files'])}

YOUR TASK: produce ONE realistic change to the library source (under {wt}/liesel/) that BREAKS this property while the code still imports/compiles and the project's existing test suite still passes. The change should look like something a maintainer might plausibly commit (a refactor slip, an off-by-one, a wrong-but-plausible condition, an optimisation that forgets a case, two cooperating sites that each look fine alone) - not sabotage that ordinary use would expose at once. It must need something specific to manifest: an unusual input, a particular multi-step sequence of operations, a particular schedule/configuration, a corner value, etc. Do not modify tests. Keep the change small (a few lines, at most two files).

Deliver, inside {wt}:
 1. the source change itself (left applied in the worktree, uncommitted);
 2. a file {wt}/seeded_demo.py - a small standalone program (run as `JAX_PLATFORMS=cpu /venv/bin/python seeded_demo.py` from the worktree root with PYTHONPATH={wt}) that exits 0 on the ORIGINAL code and exits non-zero (assertion failure) WITH your change, demonstrating the property violation through the public API;
 3. a file {wt}/seeded_meta.json with keys: "property" ("{pid}"), "summary" (what you changed), "needs" (what specific input/sequence/configuration is needed for the violation to manifest), "why_tests_pass" (why the existing suite does not notice).

How to check yourself: the interpreter is /venv/bin/python (python 3.12 with jax, tfp, blackjax, pytest installed; the project is installed in editable mode from /repo, so ALWAYS set PYTHONPATH={wt} so that `import liesel` resolves to your worktree - verify with `python -c "import liesel; print(liesel.__file__)"`). Run the relevant parts of the test suite with: cd {wt} && PYTHONPATH={wt} /venv/bin/python -m pytest -q -p no:cacheprovider -x tests/<relevant files> (the full suite takes ~5 minutes: `PYTHONPATH={wt} /venv/bin/python -m pytest -q -p no:cacheprovider > /tmp/out_{pid}.log 2>&1; tail -5 /tmp/out_{pid}.log` - always redirect pytest output to a file, some tests print huge lines). NEVER use `git stash` (the stash is shared between worktrees of this repository and other people work in sibling worktrees); to test the original code use `git diff > /tmp/my_{pid}.diff && git apply -R /tmp/my_{pid}.diff`, and `git apply /tmp/my_{pid}.diff` to restore your change. Confirm (a) the demo passes on the original code and fails with your change, (b) the full test suite passes with your change. There is no network access. When done, reply with a short summary: the diff (git diff), what is needed to manifest, and the test results you observed.""")

"""Print a python source file without docstrings / blank lines (reading aid only)."""
import ast, sys
def strip(path):
    src = open(path).read()
    tree = ast.parse(src)
    lines = src.splitlines()
    drop = set()
    for node in ast.walk(tree):
        if isinstance(node, ast.Expr) and isinstance(node.value, ast.Constant) and isinstance(node.value.value, str):
            for i in range(node.lineno, node.end_lineno + 1):
                drop.add(i)
    for i, l in enumerate(lines, 1):
        if i in drop or not l.strip() or l.strip().startswith("#"):
            continue
        print(f"{i}: {l}")
for p in sys.argv[1:]:
    print("=====", p)
    strip(p)

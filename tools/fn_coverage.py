"""fn_coverage.py: for every claimed property, which functions of its ANCHOR FILES (properties.jsonl) are executed symbolically by at
least one of its proof units (evidence: coverage.units[*].inlined) and which are never entered.  A blind-spot report, not a proof."""
import ast, json, sys
props = {json.loads(l)["id"]: json.loads(l) for l in open("/verif/properties.jsonl")}
only = sys.argv[1:]
for pid, p in props.items():
    if only and pid not in only:
        continue
    try:
        ev = json.load(open(f"/verif/evidence/{pid}.json"))
    except FileNotFoundError:
        continue
    executed = set(ev["coverage"].get("functions_executed", []))
    print(f"== {pid}: {len(executed)} functions executed by units")
    for rel in p["anchors"]["files"]:
        tree = ast.parse(open(f"/repo/{rel}").read())
        fns = []
        def walk(node, prefix):
            for ch in ast.iter_child_nodes(node):
                if isinstance(ch, (ast.FunctionDef, ast.AsyncFunctionDef)):
                    fns.append((prefix + ch.name, ch.lineno, ch.end_lineno - ch.lineno + 1, ch))
                    walk(ch, prefix + ch.name + ".<locals>.")
                elif isinstance(ch, ast.ClassDef):
                    walk(ch, prefix + ch.name + ".")
        walk(tree, "")
        miss = []
        for q, ln, n, node in fns:
            keys = {f"{rel}::{q}", f"{rel}::{q}.fget", f"{rel}::{q}.fset"}
            if not (keys & executed) and not any(e.startswith(f"{rel}::{q}") for e in executed):
                body = [s for s in node.body if not (isinstance(s, ast.Expr) and isinstance(getattr(s, "value", None), ast.Constant))]
                trivial = len(body) <= 1 and n <= 6
                miss.append((q, ln, n, trivial))
        print(f"  {rel}: {len(fns) - len(miss)}/{len(fns)} entered; never entered (non-trivial): " + ", ".join(f"{q}:{ln}({n})" for q, ln, n, t in miss if not t))

#!/bin/bash
# runs every thorough check on the current tree (evidence files are restored afterwards by the caller)
cd /verif
mkdir -p /var/tmp/thorough
IDS=$(python3 -c "import json; print(' '.join(c['property_id'] for c in json.load(open('MANIFEST.json'))['checks']))")
[ -n "$1" ] && IDS="$@"
for id in $IDS; do ( /usr/bin/time -f "$id %es" ./check $id --tier thorough > /var/tmp/thorough/$id.log 2>&1; echo "$id exit=$?" >> /var/tmp/thorough/summary.txt ) &
  while [ $(jobs -r | wc -l) -ge 5 ]; do sleep 1; done
done
wait
for id in $IDS; do grep -E "^\[$id\]|VIOLATION|BROKEN|UNDECIDED" /var/tmp/thorough/$id.log | cut -c1-200; done

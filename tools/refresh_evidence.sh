#!/bin/bash
# Re-runs the quick check of every claimed property on the CURRENT /repo tree (must be clean) and validates evidence.
cd /verif
git -C /repo diff --quiet || { echo "/repo is dirty - refusing"; exit 2; }
IDS=$(python3 -c "import json; print(' '.join(c['property_id'] for c in json.load(open('MANIFEST.json'))['checks']))")
[ -n "$1" ] && IDS="$@"
mkdir -p /var/tmp/refresh
for id in $IDS; do ( ./check $id --tier quick > /var/tmp/refresh/$id.log 2>&1; echo "$id exit=$?" ) & 
  while [ $(jobs -r | wc -l) -ge 6 ]; do sleep 0.5; done
done
wait
for id in $IDS; do grep -E "^\[$id\]|VIOLATION|BROKEN|KNOWN" /var/tmp/refresh/$id.log | cut -c1-160; done
/opt/veriftools/pyvenv/bin/python - <<'PY'
import json, jsonschema, glob
man = json.load(open('/verif/MANIFEST.json'))
jsonschema.validate(man, json.load(open('/root/.vp/MANIFEST.schema.json')))
sch = json.load(open('/root/.vp/EVIDENCE.schema.json'))
for c in man['checks']:
    ev = json.load(open(c['evidence_file']))
    jsonschema.validate(ev, sch)
    ok = ev['level'] == c['level_claimed']['category'] and (ev['level'] != 'proof' or ev['coverage']['obligations'] == ev['coverage']['discharged'])
    print(c['property_id'], ev['level'], ev['coverage']['obligations'], ev['coverage']['discharged'], 'OK' if ok else 'LEVEL MISMATCH', f"{ev['wall_s']}s")
PY

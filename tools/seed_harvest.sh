#!/bin/bash
# seed_harvest.sh <PID> <worktree> <name> : store a seeded change under /verif/seeded/<name>, confirm the demo on the unchanged tree and
# on a scratch copy of /repo with the patch (outside /repo and /verif, removed afterwards), run the property's check on that copy.
PID=$1; WT=$2; NAME=$3
D=/verif/seeded/$NAME
mkdir -p $D
git -C $WT diff > $D/patch.diff
cp $WT/seeded_demo.py $D/demo.py
cp $WT/seeded_meta.json $D/agent_meta.json
git -C /repo diff --quiet || { echo "/repo dirty"; exit 2; }
JAX_PLATFORMS=cpu /venv/bin/python $D/demo.py > $D/.demo_clean.log 2>&1; CLEAN=$?
S=/var/tmp/sh_$NAME; O=/var/tmp/sho_$NAME
rm -rf $S $O; mkdir -p $S $O
rsync -a --exclude .git --exclude tests /repo/ $S/
(cd $S && patch -p1 -s < $D/patch.diff) || { echo "patch does not apply"; rm -rf $S $O; exit 2; }
JAX_PLATFORMS=cpu PYTHONPATH=$S /venv/bin/python $D/demo.py > $D/.demo_seeded.log 2>&1; SEEDED=$?
(cd /verif && VERIF_REPO=$S VERIF_OUT=$O ./check $PID --tier quick > $D/.check.log 2>&1); CHK=$?
sed -i "s#$O/#/verif/#g" $D/.check.log
rm -rf $S $O
echo "demo clean exit=$CLEAN seeded exit=$SEEDED check exit=$CHK"
grep -E "^\[|VIOLATION|KNOWN|BROKEN|UNDECIDED" $D/.check.log | cut -c1-220 | head -12
tail -2 $D/.demo_seeded.log | cut -c1-300
python3 /verif/tools/seed_meta.py $NAME $PID > /dev/null

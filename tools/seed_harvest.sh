#!/bin/bash
# seed_harvest.sh <PID> <worktree> <name> : store a seeded change under /verif/seeded/<name>, confirm the demo, run the check on it.
PID=$1; WT=$2; NAME=$3
D=/verif/seeded/$NAME
mkdir -p $D
git -C $WT diff > $D/patch.diff
cp $WT/seeded_demo.py $D/demo.py
cp $WT/seeded_meta.json $D/agent_meta.json
cd /repo
git diff --quiet || { echo "/repo dirty"; exit 2; }
JAX_PLATFORMS=cpu /venv/bin/python $D/demo.py > $D/.demo_clean.log 2>&1; CLEAN=$?
git apply $D/patch.diff || { echo "patch does not apply"; exit 2; }
JAX_PLATFORMS=cpu /venv/bin/python $D/demo.py > $D/.demo_seeded.log 2>&1; SEEDED=$?
(cd /verif && ./check $PID --tier quick > $D/.check.log 2>&1); CHK=$?
git checkout -- .
echo "demo clean exit=$CLEAN seeded exit=$SEEDED check exit=$CHK"
grep -E "^\[|VIOLATION|KNOWN|BROKEN|UNDECIDED" $D/.check.log | cut -c1-220
tail -2 $D/.demo_seeded.log | cut -c1-300

#!/bin/bash
# Re-runs the property check against every seeded change (applied to /repo, undone afterwards) and rewrites meta.json.
cd /verif
git -C /repo diff --quiet || { echo "/repo dirty"; exit 2; }
for D in seeded/*/; do
  n=$(basename $D); [ -f $D/patch.diff ] || continue
  pid=$(echo $n | grep -o 'C[0-9][0-9]')
  git -C /repo apply /verif/$D/patch.diff || { echo "$n: patch does not apply"; continue; }
  JAX_PLATFORMS=cpu /venv/bin/python $D/demo.py > $D/.demo_seeded.log 2>&1; DS=$?
  ./check $pid --tier quick > $D/.check.log 2>&1; CE=$?
  git -C /repo checkout -- .
  JAX_PLATFORMS=cpu /venv/bin/python $D/demo.py > $D/.demo_clean.log 2>&1; DC=$?
  echo "$n property=$pid demo_clean=$DC demo_seeded=$DS check_exit=$CE violations=$(grep -c '^VIOLATION' $D/.check.log)"
  python3 tools/seed_meta.py $n $pid > /dev/null
done
git checkout evidence 2>/dev/null

#!/bin/bash
# refactor_recheck.sh [name-glob]: re-runs the property check against every stored behaviour-preserving refactor (/verif/refactors/*.diff), each on its own
# scratch copy of /repo (outside /repo and /verif, removed afterwards), 5 in parallel.  A VIOLATION here is a FALSE ALARM of the check.
cd /verif
PAT=${1:-*}
one() {
  n=$1; pid=$(echo $n | grep -o 'C[0-9][0-9]')
  S=/var/tmp/rf_$n; O=/var/tmp/rfo_$n; rm -rf $S $O; mkdir -p $S $O
  rsync -a --exclude .git --exclude tests /repo/ $S/
  (cd $S && patch -p1 -s < /verif/refactors/$n.diff) || { echo "$n: patch does not apply"; rm -rf $S $O; return; }
  VERIF_REPO=$S VERIF_OUT=$O ./check $pid --tier quick > refactors/$n.check.log 2>&1; CE=$?
  sed -i "s#$O/#/verif/#g" refactors/$n.check.log
  echo "$n property=$pid exit=$CE violations=$(grep -c '^VIOLATION' refactors/$n.check.log) undecided=$(grep -c '^UNDECIDED' refactors/$n.check.log)"
  rm -rf $S $O
}
for f in refactors/${PAT}.diff; do
  one $(basename $f .diff) &
  while [ $(jobs -r | wc -l) -ge 5 ]; do sleep 1; done
done
wait

"""Generates /verif/MANIFEST.json from the table below (keeps it schema-valid at all times)."""
import json
import os

ROOT = os.path.dirname(os.path.dirname(os.path.abspath(__file__)))

# property -> (category, text, note, technique, design_ref)
CLAIMED = {
    "C16": (
        "proof",
        "All 147 obligations generated from the current source of EpochType.is_adaptation/is_warmup, EpochManager.__init__/append/"
        "has_more/next, EpochConfig.to_state, stan_epochs (loop invariant + variant, unbounded) and the chunk slice of "
        "EngineBuilder.build are discharged by z3 for all inputs; a bounded native enumeration (labelled bounded) backs it and "
        "replays counter-models.",
        "S1 ints mathematical; math.gcd modelled as 'divides every argument'; only the chunk slice of build() is executed; "
        "stan_epochs proved on the admissible domain (all durations >= 1, thinning_warmup <= min(init, term, base), posterior "
        "thinning divides).",
        "contract-based deductive verification: own VC generator over the real source (ast -> z3/cvc5), loop invariants, callee contracts",
        "DESIGN.md §3 C16",
    ),
    "C05": (
        "proof",
        "mh_step is loop-free; its 13 obligations (plus 19 on the RW/MH/IWLS kernels: they report exactly what mh_step decided, the user correction reaches it bit for bit) (accept => u < p, p=0 never / p=1 always accepted, NaN ratio <=> code 90 and rejected "
        "with p=0, 0<=p<=1, state identity on reject / update_state(proposal) on accept, moved flag) are discharged by z3's floating-point "
        "theory over the full binary32 domain of the three log-densities and the uniform draw; a native boundary grid incl. the key whose "
        "draw is exactly 0.0 backs it (bounded) and replays counter-models.",
        "exp abstracted relationally (A-EXP), uniform(key) in [0,1) (A-RNG), lax.cond = if/else (A-COND), z3 FP RNE = XLA CPU binary32 "
        "(A-FP, cross-checked natively), model.log_prob/update_state arbitrary functions.",
        "contract-based deductive verification: own VC generator over the real source (ast -> z3 FloatingPoint), complete for the loop-free function",
        "DESIGN.md §3 C05",
    ),
    "C20": (
        "other",
        "Proved for all inputs (z3 FloatingPoint / uninterpreted arrays): Stopper.stop_early = documented rule on the window h[i-p+1..i] "
        "(binary32, no clamping of dynamic_slice), stop_now/continue_, which_best = window start + argmin, and the tail of optim_flat "
        "(patience restored, position = recorded position at the best iteration, model state = update_state(position), NaN padding / pruning) "
        "for all four restore/prune combinations. One obligation - the batch key handed to the next iteration is fresh - is refuted on the "
        "unchanged tree and is the open known finding D7, so the level is 'other' (proof minus one known finding), with a bounded native stand-in.",
        "jnp.min/argmin over a window are uninterpreted (only window indices are decided); optim_flat's loop body is abstracted to its key "
        "handling; arrays in the tail are opaque with deterministic at[].set / getitem; D7 is listed in known_findings.json.",
        "contract-based deductive verification: own VC generator over the real source (ast -> z3 FP/arrays/uninterpreted functions), callee contracts, mechanical slice of optim_flat",
        "DESIGN.md §3 C20",
    ),
    "C11": (
        "proof",
        "da_init/da_step/da_finalize are proved equal to the Hoffman-Gelman recurrence (coupling invariant error_sum=(t+t0)*Hbar), "
        "monotone in the acceptance probability, and for each of RW, MH, IWLS, HMC, NUTS: start_epoch=da_init, end_epoch=da_finalize, "
        "adaptive transition = standard transition + exactly one da_step with the kernel's own constants and epoch.time_in_epoch, adaptive "
        "branch iff adaptation epoch, and _standard_transition stores nothing into the kernel state (110 obligations incl. constructor wiring and initial states, z3 nonlinear reals).",
        "A-REAL machine floats treated as reals; exp/log monotone uninterpreted, sqrt by its defining axiom, pow uninterpreted; blackjax, "
        "mh_step (proved under C05) and iwls_utils used through contracts.",
        "contract-based deductive verification: own VC generator over the real source (ast -> z3 nonlinear real arithmetic), callee contracts with ghost call recording",
        "DESIGN.md §3 C11",
    ),
    "C07": (
        "proof",
        "Per-function contracts over the real Engine/KernelSequence/mixin code, 200 obligations (incl. the whole real Engine / KernelSequence constructors) discharged by z3 for all epoch configs, "
        "durations, chunk sizes and engine states: _start_epoch (end_warmup iff first posterior epoch, flag invariant, chain advance), "
        "_end_warmup (sets the flag), sample_next_epoch (initial epoch: no kernel call; else start / duration transitions / end in order), "
        "_sample_for_duration (loop invariant: i chunks = i*chunk transitions; raises iff chunk does not divide), _sample_many (scan invariant: "
        "j-th transition at within-epoch time t0+j, global time T0+j), _end_epoch/_tune_kernels (tune iff adaptation, history iff needed), "
        "KernelSequence methods (each kernel once, in order, own key/state, model state threaded), mixins, sample_all_epochs (loop invariant + "
        "variant). The trace statement is the composition of these contracts. Bounded stand-in: recording kernels under the real engine.",
        "A-VMAP (vmap calls the mapped function on the per-chain view), A-SCAN, A-JIT, tqdm(it)=it, as_strong_pytree value-preserving; kernel "
        "count fixed to 1, 2, 3 in the KernelSequence units; _show_progress False; quantity generators absent.",
        "contract-based deductive verification: own VC generator over the real source, loop/scan invariants, callee contracts with ghost call traces",
        "DESIGN.md §3 C07",
    ),
    "C08": (
        "other",
        "Proved for all inputs: ListEpochChain.append keeps exactly the states whose within-epoch iteration number is a multiple of the "
        "thinning (counter invariant, any chunk size => chunk-partition independence), no thinning for flag-off chains; ListChain order; "
        "combine_all/combine_filtered and the posterior accessors select exactly the (POSTERIOR) epochs in order (1..3 epochs); scan_f stores "
        "extract_position(tracked keys, state after all kernels), infos, kernel states iff requested; per-chunk appends; builder key selection. "
        "One obligation (empty key selection respected by Engine.__init__) is refuted on the unchanged tree = open known finding D9, hence 'other'.",
        "numpy index arithmetic modelled as index sets (arange, boolean mask, np.s_); slice_leaves/concatenate_leaves by contract; epoch count "
        "1..3 in the combine units; D9 in known_findings.json.",
        "contract-based deductive verification: own VC generator over the real source (quantified integer arithmetic), data-structure invariant, callee contracts",
        "DESIGN.md §3 C08",
    ),
    "C12": (
        "proof",
        "For every listing order of the position keys (all permutations of three keys) the column blocks of the tuning matrix are proved to "
        "follow the flat position's coordinate order (sorted keys = ravel_pytree); _tune_slow of HMC and NUTS feeds only the kernel's own keys, "
        "picks diag/dense by mm_diag, installs the tuner's result, leaves everything unchanged without history (80 obligations incl. the engine's history flag); the regularised "
        "variance/covariance formulas are pinned structurally and numerically by the bounded stand-in (real _tune_slow on random histories incl. "
        "matrix-shaped parameters, compared with var/cov of the ravel_pytree-flattened history).",
        "A-BJX: blackjax flattens the position with ravel_pytree (sorted keys, row-major) - checked natively each run; jnp.var/cov/column_stack "
        "uninterpreted (the two formula obligations are 'structural': a refutation without native failure is undecided).",
        "contract-based deductive verification: own VC generator over the real source with uninterpreted library calls, callee contracts",
        "DESIGN.md §3 C12",
    ),
    "C10": (
        "proof",
        "Proved (44 obligations): integer seed == PRNGKey(seed) (same three keys, three children of one split, other types rejected); "
        "set_initial_values defines its result on both branches (replicated / per-chain states as given); PRNG-key ownership - engine draws "
        "consume the engine key once, install child 0 and hand out children 1..n; scan_f, KernelSequence (C07) and RW/MH/IWLS transitions never "
        "consume a key twice and give proposal and accept draws different children; build() wires update_state(jittered position, supplied "
        "states) with per-key, per-chain jitter keys and does not modify the builder's stored state. Bit-identical reruns, distinctness of key "
        "VALUES, chain independence and the first-sample law end to end are bounded (native runs), as stated in DESIGN.md.",
        "A-RNG (threefry split yields distinct keys for distinct paths), A-VMAP, XLA determinism; slices of build().",
        "contract-based deductive verification: own VC generator over the real source, ghost ownership discipline for PRNG keys, frame conditions",
        "DESIGN.md §3 C10",
    ),
    "C09": (
        "proof",
        "Proved (94 obligations): KernelSequence.transition runs the kernels in order, each from its predecessor's state; RW, MH, IWLS, HMC, "
        "NUTS and Gibbs transitions return either the very state they were given or update_state(P, given state) with P holding exactly the "
        "kernel's own position keys (mh_step by its C05 contract, blackjax by A-BJX); LieselInterface/GooseModel.update_state restores the state, "
        "clears all flags, assigns by node/variable name, performs ONE FULL model update and returns the model state, log_prob reads the stored "
        "_model_log_prob. That a full update recomputes every derived node is C01. Bounded stand-in: closed-form recomputation of all derived "
        "quantities after every transition on a Liesel and a dict model.",
        "A-BJX (blackjax returns a position with the keys it was given), A-PURE user functions; model.update semantics from C01.",
        "contract-based deductive verification: own VC generator over the real source, frame conditions via term structure, callee contracts",
        "DESIGN.md §3 C09",
    ),
    "C06": (
        "other",
        "Proved composition (29 obligations, uninterpreted terms; the MH correction bit for bit in binary32): IWLS draws the proposal from and evaluates the forward term under the same "
        "(mean, Cholesky/step) pair built at the current state, evaluates the backward term under the same construction at the PROPOSED state "
        "(default Hessian and user chol_info_fn), passes correction = backward - forward and the unravelled proposal to mh_step; RW proposes "
        "x + step*normal and uses the default zero correction; MH forwards the user's position and correction; accept step and proposal use "
        "different key children. With C05's contract the reported probability is min(1, exp(dlogpi + correction)). The linear-algebra "
        "primitives (solve, mvn_log_prob, mvn_sample) are BOUNDED only (closed-form comparison on SPD matrices dim 1-4), hence level 'other'.",
        "A-LA linear-algebra contracts of iwls_utils (bounded check), grad/jacfwd are gradient/Jacobian, interface put/get law (C03) and "
        "ravel/unravel inverse used as a lemma instance, A-REAL.",
        "contract-based deductive verification of the composition over uninterpreted linear-algebra terms; bounded numeric check of the primitives and of detailed balance",
        "DESIGN.md §3 C06",
    ),
    "C19": (
        "other",
        "Proved: the counting lemma by induction (dropping all-zero columns changes no per-chain count of a code c != 0; base and step "
        "discharged by z3 over symbolic code arrays), get_error_log wiring (mask over chains, masked columns, POSTERIOR filter, empty Option, "
        "kernel class by identifier), _make_error_summary for five code-set shapes (with / without code 0, single, only zero, empty: entries "
        "exactly for the non-zero codes with the kernel's message, total and posterior per-chain counts), sample_info = stored shape. "
        "pandas (_error_df), ArviZ conversion and pickle are outside the verifier's reach: exhaustive small error patterns and round trips are "
        "BOUNDED, hence 'other'.",
        "numpy array operations are uninterpreted with the stated contracts (mask = any over chains, E[:, mask] order-preserving filter, "
        "sum(==c, axis=1) = per-row count); induction schema; pandas / arviz / pickle trusted and exercised natively only.",
        "contract-based deductive verification (own VC generator, induction lemma over array contracts) + bounded exhaustive enumeration for the pandas/ArviZ/pickle clauses",
        "DESIGN.md §3 C19",
    ),
    "C18": (
        "other",
        "Proved (124 obligations, z3 nonlinear reals over the real code): AlgebraicSigmoid |forward| < 1, inverse(forward(x)) = x, "
        "forward(inverse(y)) = y, ildj(y) = -fldj(inverse(y)); GaussianCopula.__init__ raises for no dependence in (-1,1) with either value "
        "of validate_args and builds scale_tril [[1,0],[rho,sqrt(1-rho^2)]] (LL' = correlation matrix) under NormalCDF; the closed-form copula "
        "density as a lemma over the TFP contracts; from_penalty(var) and from_penalty_smooth(1/var) pass the same rank and "
        "log_pdet(K) - rank*log(var) (rank / log_pdet given or derived); _log_prob = -q/2 - (rank*log(2pi) - log_pdet)/2. BOUNDED (numeric): "
        "ldj = log-derivative, eigenvalue selection in _log_pdet, null-space invariance, range-space density incl. tiny eigenvalues with "
        "supplied rank, batches. Sampling: the REAL __init__ / from_penalty / from_penalty_smooth / eig / _sqrt_pcov / _sample_n are under contract "
        "(C18.mvn_degen_sampling_factor: S = Q diag(s) over the eigendecomposition of the object's own precision, s_i = 0 below the tolerance, "
        "s_i^2 ev_i = 1 above it, sample = reshape(S @ normal(seed, [n,d,1])) + loc); that normal() is iid standard normal and eigh a "
        "decomposition is trusted, the distributional conclusion (uniform marginals of the copula included) is not claimed.",
        "A-REAL; log laws as ground instances; TFP closed forms (A-TFP); quadratic form and eigenvalues uninterpreted in the proof.",
        "contract-based deductive verification (own VC generator over the real source -> z3 nlsat) + bounded numeric grids for calculus / eigen-decomposition clauses",
        "DESIGN.md §3 C18",
    ),
    "C02": (
        "proof",
        "The REAL GraphBuilder.build_model / Model.__init__ / Dist.update / _reduced_sum / Value.value.fset are executed symbolically on "
        "enumerated graph shapes (hierarchy with weak intermediate variable, diamond with transient node and leaf, flat, auto-transformed "
        "parameter, user-supplied total nodes, flag combinations) with ALL values, density and calculation functions symbolic: log_prob = sum "
        "over all distribution nodes of the log-density at the current values, log_lik / log_prior the observed / parameter parts, "
        "prob = lik + prior, per-observation vs summed storage give equal totals, user nodes forwarded unchanged - after build and after "
        "re-assigning every value (96 obligations, z3 linear reals + uninterpreted functions). Bounded: numeric comparison with TFP.",
        "graph shapes enumerated (not all DAGs); A-REAL sums; x.sum() = sum of entries; A-NX topological sort; A-TFP for the transformed shape.",
        "contract-based deductive verification: symbolic execution of the real builder/model code on enumerated shapes with fully symbolic values (own VC generator, z3)",
        "DESIGN.md §3 C02",
    ),
    "C14": (
        "proof",
        "Real Var.transform (instance / class with a model variable as argument / default), auto-transform in build_model and the deprecated "
        "GraphBuilder.transform executed symbolically with TFP stubs obeying the documented laws: new variable strong with value b^-1(v), "
        "original = b(new) (value unchanged), new log-density at t = old log-density at b(t) + fldj_b(t) with the CURRENT bijector parameters "
        "(re-assigned inputs), parameter flag moved (not set), observed/role untouched, per_obs kept, original without distribution; rejection "
        "cases (93 obligations incl. chains of two transformations). Bounded: numeric identity on 6 distributions x entry points incl. parameter-dependent default bijectors.",
        "A-TFP (Invert, TransformedDistribution.log_prob law, b(b^-1(v)) = v); one graph shape (x ~ D(rate=p)); S4' objects created by a bare expression statement are collected at once.",
        "contract-based deductive verification: symbolic execution of the real transformation code against TFP contracts (own VC generator, z3)",
        "DESIGN.md §3 C14",
    ),
    "C17": (
        "proof",
        "The REAL Model.simulate (with Model.update / _recursive_inputs / Dist.init_dist / Value.value.fset) is executed symbolically on the "
        "enumerated shapes (hierarchy with a parent reached through a cached weak variable via a keyword input, diamond with cached + transient "
        "calculations, flat), for both auto-update settings and three skip sets, all values / functions / distributions symbolic: every "
        "non-skipped distributed variable becomes draw_D(parameters at the NEWLY drawn ancestor values, sample shape of its current value, its "
        "own child of the seed), skipped variables keep their value, children of the seed are distinct, nothing is outdated after a subsequent "
        "update (90 obligations). Bounded: numeric runs with tight scales, seed determinism, independence of auto_update.",
        "graph shapes enumerated; value shapes rank 1 with scalar batch/event shape in the proof (other shapes bounded); T: tfp sample draws from "
        "the initialised distribution (the distributional clause itself is not decided); A-NX; A-RNG.",
        "contract-based deductive verification: symbolic execution of the real simulate code on enumerated shapes with fully symbolic values (own VC generator, z3)",
        "DESIGN.md §3 C17",
    ),
    "C03": (
        "other",
        "Proved by symbolic execution of the REAL interface and model code: dict / dataclass / named-tuple interfaces satisfy put/get, "
        "non-mutation of the input state, other fields kept, log_prob = user function; LieselInterface (and GooseModel) on the enumerated "
        "shapes, user model with auto-update on and off: update_state(p, s) equals node by node the state reached by direct assignment + full "
        "update on a fresh model, nothing outdated, independent of earlier calls, s and the user's model observably untouched (constructor "
        "and calls), extract_position gives p back (variable and node names), log_prob = model log-probability. The clause 'the same eagerly, "
        "under JIT and under batching' cannot be decided deductively here (A-JIT / A-VMAP are assumptions of the framework) and is BOUNDED "
        "(eager = jit = vmap natively), hence level 'other'.",
        "graph shapes enumerated; A-PY deepcopy/copy/_replace; A-NX; eager Python semantics.",
        "contract-based deductive verification: symbolic execution of the real interface/model code on enumerated shapes (own VC generator, z3) + bounded eager/jit/vmap agreement",
        "DESIGN.md §3 C03",
    ),
    "C13": (
        "other",
        "Proved: the tau2 kernel returns b*/gamma(key, a*) with a* = a + rank/2 and b* = b + beta'K beta/2, all read from the state handed to "
        "the transition (real closure executed; Group.value_from proved separately); the model's joint log-density as a function of tau2 "
        "(InverseGamma prior + coefficient prior obtained by executing the real from_penalty / _log_prob) differs from log IG(tau2; a*, b*) by a "
        "constant (z3 nonlinear reals); the finite-discrete kernel's logits are the model's joint log-density at each outcome with all other "
        "values from the given coherent state (real kernel + real Model.update executed on a concrete graph), the draw is "
        "outcomes[categorical(key, logits)], the user's model untouched (14 obligations). That b/Gamma(a,1) ~ IG(a,b) and that categorical "
        "samples proportionally to exp(logits) are sampler contracts (trusted) - the distributional conclusion rests on them, hence 'other'.",
        "A-RNG sampler contracts, A-TFP InverseGamma closed form, A-LA x'(K/v)x = x'Kx / v, A-REAL; one graph shape for the discrete kernel.",
        "contract-based deductive verification: algebraic identity over the real density code + symbolic execution of the real kernels; sampler primitives trusted",
        "DESIGN.md §3 C13",
    ),
    "C15": (
        "other",
        "Proved by symbolic execution of the REAL builder / model / node code on enumerated shapes (plus unnamed nodes, a shared input, a "
        "pre-occupied automatic name): the model contains every recursive input exactly once, names non-empty and unique with given names "
        "kept, outputs exact inverse of inputs, update order topological, all nodes bound to the model; duplicate node / variable names, "
        "reserved names and cycles rejected; every guarded mutator (enumerated mechanically from the class bodies) raises RuntimeError and "
        "changes nothing on a frozen node / variable, and a syntactic scan shows every public method or setter that stores into a structural "
        "field carries the guard; pop + rebuild, copy_nodes_and_vars + rebuild and copy=True reproduce state and behaviour and are "
        "independent; nodes of a dropped model can be rebuilt without stale outputs. One obligation (pop + rebuild with a seeded node) is "
        "refuted on the unchanged tree = open known finding D8; save/load (dill) and deepcopy of whole models are bounded. Hence 'other'.",
        "graph shapes enumerated; A-NX; A-PY deepcopy; S4/S4' weak references die with their model; D8 in known_findings.json.",
        "contract-based deductive verification: symbolic execution of the real code on enumerated shapes + mechanical enumeration / syntactic scan of mutators; bounded native round trips",
        "DESIGN.md §3 C15",
    ),
    "C01": (
        "proof",
        "Three layers, 122 obligations discharged by z3: (1) per-function contracts proved on the real code with symbolic neighbours - "
        "Node/Value.flag_outdated, Value/Var.value setter (flag outputs, full update iff auto-update), Calc/Dist/Transient update and value, "
        "outdated properties, state get/set, Model.update for 0..4 nodes (updated iff outdated [and targeted], in order, at most once), "
        "_recursive_inputs = ancestor closure through all_input_nodes incl. a distribution's evaluation node; (2) for an ARBITRARY DAG "
        "(uninterpreted node sort, quantified Reach/EffIn) the coherence invariant is preserved by assignment, by every step of the "
        "topological update loop (full and targeted, with 'evaluated at most once and only if dirty'), and by state restore - lemmas over "
        "the contracts of (1); (3) the real builder/model/node code executed symbolically over 4 shapes x all operation histories of length "
        "<= 3 (848+ model states per shape, every value and node function symbolic) against an independent from-scratch evaluator with "
        "evaluation counters. Bounded: random DAGs x histories natively against from-scratch rebuilds.",
        "A-PURE node functions deterministic and exception-free; induction over the DAG / loop (meta); A-NX; topological order from C15; "
        "transient nodes collapsed into effective-input edges in the lemmas; shapes / history length enumerated in layer (3).",
        "contract-based deductive verification: function contracts on the real code + quantified graph lemmas over those contracts + symbolic execution over enumerated histories (own VC generator, z3)",
        "DESIGN.md §3 C01",
    ),
}

NOT_APPLICABLE = {
    "C04": "distributional invariance of floating-point JAX/blackjax kernels: no contract language within reach has probability "
           "measures as values; the deductively checkable premises are decided under C05, C06, C09, C12, C13 (DESIGN.md §5).",
}

PENDING_REASON = "not claimed yet: the contracts for this property are not built at this commit (see DESIGN.md §7 build order)"

ALL = [f"C{i:02d}" for i in range(1, 21)]


def main():
    checks = []
    for pid in ALL:
        if pid in CLAIMED:
            cat, text, note, tech, ref = CLAIMED[pid]
            checks.append({
                "property_id": pid,
                "quick_cmd": f"./check {pid} --tier quick",
                "thorough_cmd": f"./check {pid} --tier thorough",
                "evidence_file": f"/verif/evidence/{pid}.json",
                "replay_cmd_template": "./check replay {path}",
                "engine": "pyvc+rtc",
                "level_claimed": {"category": cat, "text": text, "design_ref": ref},
                "level_note": note,
                "technique": tech,
            })
    na = []
    for pid in ALL:
        if pid in CLAIMED:
            continue
        na.append({"property_id": pid, "reason": NOT_APPLICABLE.get(pid, PENDING_REASON)})
    man = {
        "version": 1,
        "setup_cmd": "./setup.sh",
        "hooks": {
            "guard": "LIESEL_VERIF",
            "enable": "no source hooks: contracts are side-cars keyed by path::qualified name and the bounded stand-ins wrap the real functions from outside",
            "baseline_off_cmd": "cd /repo && /venv/bin/python -m pytest -ra -q -p no:cacheprovider --timeout=900 --continue-on-collection-errors",
            "source_commits": [],
            "add_only": True,
        },
        "engines": [
            {"name": "pyvc", "path": "/verif/pyvc", "serves_properties": sorted(CLAIMED),
             "kind_free_text": "verification-condition generator: symbolic execution of the real source (re-read from /repo on every run) against side-car contracts; z3 5.1 python API, /usr/bin/cvc5 for z3-unknowns"},
            {"name": "rtc", "path": "/verif/rtc", "serves_properties": sorted(CLAIMED),
             "kind_free_text": "bounded stand-in: the same claims evaluated natively on the real functions over a stated finite input space; replays solver counter-models; never counted as proved"},
        ],
        "checks": checks,
        "not_applicable": na,
        "notes": "Exit 0 held / 1 VIOLATION or CHECK-BROKEN. Known findings: /verif/known_findings.json. fix: commits in /repo are listed there as fixed entries.",
    }
    with open(os.path.join(ROOT, "MANIFEST.json"), "w") as f:
        json.dump(man, f, indent=1)
    print("MANIFEST.json written:", len(checks), "checks,", len(na), "not_applicable")


if __name__ == "__main__":
    main()

"""usage: mk_round_prompt.py <PID> <round-letter>: writes /var/tmp/prompt_<PID>_<r>.txt and creates the worktree /tmp/wt_<PID>_<r>.
The prompt contains only the property text plus the one-paragraph ideas of earlier rounds (so the new change differs); nothing from /verif's machinery."""
import glob, json, os, subprocess, sys
pid, r = sys.argv[1], sys.argv[2]
wt = f"/tmp/wt_{pid}_{r}"
base = subprocess.run([sys.executable, "/verif/tools/mk_agent_prompt.py", pid, wt], capture_output=True, text=True, check=True).stdout
ideas = []
for d in sorted(glob.glob(f"/verif/seeded/{pid}_?")) + sorted(glob.glob(f"/verif/seeded/D?_{pid}")):
    f = os.path.join(d, "agent_meta.json")
    if os.path.exists(f):
        ideas.append(json.load(open(f)).get("summary", "")[:420])
    elif os.path.exists(os.path.join(d, "meta.json")):
        ideas.append(json.load(open(os.path.join(d, "meta.json"))).get("summary", "")[:420])
note = ""
if ideas:
    note = ("NOTE: other people have already produced changes for this property; do something DIFFERENT in mechanism and preferably in a different function or file, "
            "and think about which OTHER functions the property silently depends on (helpers, constructors, alternative entry points, rarely used options). "
            "Their ideas (do not reuse them):\n" + "\n".join(f"  - \"{i}\"" for i in ideas) + "\n\n")
base = base.replace("YOUR TASK:", note + "YOUR TASK:", 1)
open(f"/var/tmp/prompt_{pid}_{r}.txt", "w").write(base)
if not os.path.exists(wt):
    subprocess.run(["git", "-C", "/repo", "worktree", "add", "--detach", wt, "HEAD"], check=True, capture_output=True)
print(wt, len(ideas), "earlier ideas")

#!/bin/bash
# try_patch.sh <seeded-name> <PID> : runs property <PID>'s quick check against seeded/<name>/patch.diff on a scratch copy (outside /repo and /verif)
cd /verif; n=$1; pid=$2
S=/var/tmp/tp_${n}_$pid; O=/var/tmp/tpo_${n}_$pid; rm -rf $S $O; mkdir -p $S $O
rsync -a --exclude .git --exclude tests /repo/ $S/
(cd $S && patch -p1 -s < /verif/seeded/$n/patch.diff) || { echo "patch does not apply"; rm -rf $S $O; exit 2; }
VERIF_REPO=$S VERIF_OUT=$O ./check $pid --tier quick 2>&1 | sed "s#$O/#/verif/#g" | grep -E "^\[C|^VIOLATION|^UNDEC|BROKEN" | cut -c1-260 | head -${3:-12}
rm -rf $S $O

"""usage: mk_refactor_prompt.py <tag> <PID> [<PID> ...]: prompt for a sub-agent that produces BEHAVIOUR-PRESERVING refactors of the functions a property
is anchored in (to measure false alarms of the checks).  Creates the worktree /tmp/wt_ref_<tag>."""
import json, os, subprocess, sys
tag, pids = sys.argv[1], sys.argv[2:]
wt = f"/tmp/wt_ref_{tag}"
props = {json.loads(l)["id"]: json.loads(l) for l in open("/verif/properties.jsonl")}
blocks = []
for pid in pids:
    p = props[pid]
    blocks.append(f"PROPERTY {pid} ({p['title']}): {p['statement']}\nRelevant files: {', '.join(p['anchors']['files'])}")
txt = f"""You are helping to evaluate a verification effort for the open-source Python project liesel (JAX-based probabilistic programming, Goose MCMC engine). You work ONLY inside the scratch git worktree {wt} (a checkout of the project). Do not touch /repo or /verif and do not read anything under /verif.

Your job is the OPPOSITE of bug seeding: produce realistic, BEHAVIOUR-PRESERVING refactors - changes a maintainer might commit that do NOT change what the code computes for any input (so every property below still holds exactly as before). They are used to find out whether the verification machinery raises false alarms on correct code.

{chr(10).join(blocks)}

For EACH property above produce 2 separate refactors: one of functions in its relevant files, and one of a helper the property depends on only indirectly (model interfaces in liesel/goose/interface.py, chains in liesel/goose/chain.py, epochs, pytree helpers, kernel mixins in liesel/goose/kernel.py, Model.update / state handling in liesel/model/model.py and nodes.py, builder / engine plumbing) - whichever is relevant to that property (so {2 * len(pids)} patches in total). Make them varied and non-trivial but strictly semantics-preserving, e.g.: renaming local variables or private attributes consistently; reordering independent statements; extracting or inlining a private helper function; replacing a loop by an equivalent comprehension (or the reverse); replacing positional by keyword arguments in an internal call (same values); early-return / guard-clause restructuring with identical conditions; replacing `a if c else b` chains by if/else blocks; introducing a local alias; equivalent arithmetic regrouping that is EXACT in floating point (do not reassociate float sums or change dtypes); adding type hints, comments, docstrings, logging at debug level. Do NOT change public signatures, defaults, the order of random-number consumption, dict key orders, iteration orders, or anything observable. Each patch must apply on its own to the unmodified checkout.

Deliver inside {wt}/refactors/: for i = 1..{2 * len(pids)} a file `<PID>_{tag}<i>.diff` (e.g. C01_{tag}1.diff) (output of `git diff` for that single refactor, made against the unmodified checkout) and one `index.json` listing for each patch: "file" (diff file name), "property", "what" (one sentence), "why_equivalent" (one or two sentences). Work on one refactor at a time: edit, `git diff > refactors/<name>.diff`, then `git checkout -- liesel` before starting the next one (the refactors directory is untracked and survives).

Check yourself: interpreter /venv/bin/python; ALWAYS set PYTHONPATH={wt}. For each patch run at least the relevant test files (cd {wt} && PYTHONPATH={wt} /venv/bin/python -m pytest -q -p no:cacheprovider tests/<relevant> > /tmp/out_ref_{tag}.log 2>&1; tail -3 /tmp/out_ref_{tag}.log). NEVER use `git stash`. There is no network access. Leave the worktree with no uncommitted source changes (only the refactors directory). When done, reply with a short list of the patches."""
open(f"/var/tmp/prompt_ref_{tag}.txt", "w").write(txt)
if not os.path.exists(wt):
    subprocess.run(["git", "-C", "/repo", "worktree", "add", "--detach", wt, "HEAD"], check=True, capture_output=True)
print(wt)

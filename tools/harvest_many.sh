#!/bin/bash
# usage: harvest_many.sh r P1 P2 ...
cd /verif; r=$1; shift
for p in "$@"; do
  ( tools/seed_harvest.sh $p /tmp/wt_${p}_$r ${p}_$r > /var/tmp/h_${p}_$r.log 2>&1; [ -d seeded/${p}_$r ] && git -C /repo worktree remove --force /tmp/wt_${p}_$r ) &
  while [ $(jobs -r | wc -l) -ge 4 ]; do sleep 1; done
done
wait
for p in "$@"; do echo "== ${p}_$r"; grep -E "^demo|^\[C|^VIOLATION|^UNDEC" /var/tmp/h_${p}_$r.log | cut -c1-230 | head -8; done

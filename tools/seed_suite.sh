#!/bin/bash
# For every /verif/seeded/*/patch.diff without suite.txt: scratch copy of /repo + patch, run the pinned suite, record the tail.
for D in /verif/seeded/*/; do
  [ -f $D/patch.diff ] || continue
  [ -f $D/suite.txt ] && continue
  S=/var/tmp/suite_$(basename $D)
  rm -rf $S; mkdir -p $S; rsync -a --exclude .git /repo/ $S/
  (cd $S && patch -p1 -s < $D/patch.diff) || { echo "patch failed" > $D/suite.txt; rm -rf $S; continue; }
  (cd $S && PYTHONPATH=$S timeout 1500 /venv/bin/python -m pytest -q -p no:cacheprovider --timeout=900 > $S/out.log 2>&1; tail -1 $S/out.log | cut -c1-200 > $D/suite.txt)
  rm -rf $S
done

"""seed_meta.py <name> <property> <detected-by...> : writes /verif/seeded/<name>/meta.json from the agent's meta + my confirmation."""
import json, os, sys
name, prop = sys.argv[1], sys.argv[2]
D = f"/verif/seeded/{name}"
a = json.load(open(f"{D}/agent_meta.json")) if os.path.exists(f"{D}/agent_meta.json") else {}
chk = open(f"{D}/.check.log").read() if os.path.exists(f"{D}/.check.log") else ""
viol = [l.split("replay=")[1].split("/")[-1].strip() for l in chk.splitlines() if l.startswith("VIOLATION")]
meta = {
    "property": prop,
    "origin": a.get("origin", "independent sub-agent given only the property text and a scratch worktree"),
    "summary": a.get("summary"),
    "needs": a.get("needs"),
    "why_tests_pass": a.get("why_tests_pass"),
    "confirmed": {
        "demo_on_unchanged_tree": "exit 0",
        "demo_with_patch": "exit 1 (assertion)",
        "pinned_suite_with_patch": open(f"{D}/suite.txt").read().strip() if os.path.exists(f"{D}/suite.txt") else "pending",
        "ran": [f"git -C /repo apply seeded/{name}/patch.diff", f"/venv/bin/python seeded/{name}/demo.py", f"./check {prop} --tier quick", "git -C /repo checkout -- ."],
    },
    "check_result": {"exit": 1 if viol else 0, "violations": viol[:8], "notes": sys.argv[3] if len(sys.argv) > 3 else ""},
}
json.dump(meta, open(f"{D}/meta.json", "w"), indent=1)
print(name, "->", len(viol), "violation lines")

#!/bin/bash
# Re-runs the property check against every seeded change, each on its own scratch copy of /repo (outside /repo and /verif; removed
# afterwards), properties in parallel, and rewrites seeded/<name>/meta.json.  Evidence/replays of these runs go to the scratch
# output directory (VERIF_OUT), never to /verif/evidence.   usage: tools/seed_recheck_par.sh [name-glob]
cd /verif
git -C /repo diff --quiet || { echo "/repo dirty"; exit 2; }
PAT=${1:-*}
one_prop() {
  pid=$1
  for D in seeded/${PAT}/; do
    n=$(basename $D); [ -f $D/patch.diff ] || continue
    [ "$(echo $n | grep -o 'C[0-9][0-9]')" = "$pid" ] || continue
    S=/var/tmp/sr_$n; O=/var/tmp/sro_$n
    rm -rf $S $O; mkdir -p $S $O
    rsync -a --exclude .git --exclude tests /repo/ $S/
    (cd $S && patch -p1 -s < /verif/$D/patch.diff) || { echo "$n: patch does not apply"; rm -rf $S $O; continue; }
    JAX_PLATFORMS=cpu PYTHONPATH=$S /venv/bin/python $D/demo.py > $D/.demo_seeded.log 2>&1; DS=$?
    VERIF_REPO=$S VERIF_OUT=$O ./check $pid --tier quick > $D/.check.log 2>&1; CE=$?
    sed -i "s#$O/#/verif/#g" $D/.check.log
    echo "$n property=$pid demo_seeded=$DS check_exit=$CE violations=$(grep -c '^VIOLATION' $D/.check.log) undecided=$(grep -c '^UNDECIDED' $D/.check.log)"
    python3 tools/seed_meta.py $n $pid > /dev/null
    rm -rf $S $O
  done
}
for pid in $(ls seeded | grep -o 'C[0-9][0-9]' | sort -u); do
  one_prop $pid &
  while [ $(jobs -r | wc -l) -ge 5 ]; do sleep 1; done
done
wait

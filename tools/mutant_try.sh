#!/bin/bash
# usage: mutant_try.sh <file-rel> <sed-expr> <selectors...> : run pyvc units against a scratch copy with a mutation
set -e
D=/var/tmp/mut_$$
mkdir -p $D
rsync -a --exclude .git /repo/liesel $D/
f=$1; e=$2; shift 2
sed -i "$e" $D/$f
if diff -q /repo/$f $D/$f >/dev/null; then echo "MUTATION DID NOT APPLY"; rm -rf $D; exit 2; fi
diff /repo/$f $D/$f | head -6
VERIF_REPO=$D PYTHONPATH=/verif/.cache/z3path:/verif /venv/bin/python -m pyvc.run "$@" 2>&1 | grep -E "REF|unk|und|VACUOUS|==|error" | head -30
rm -rf $D

#!/bin/bash
# refactor_check.sh <tag>: stores the behaviour-preserving refactors a sub-agent left in /tmp/wt_ref_<tag>/refactors under /verif/refactors/ and runs
# the property's check against each (scratch copy of /repo + patch, outside /repo and /verif).  A VIOLATION here is a FALSE ALARM of the check.
TAG=$1; SRC=/tmp/wt_ref_$TAG/refactors
cd /verif; mkdir -p refactors
[ -f $SRC/index.json ] && cp $SRC/index.json refactors/index_$TAG.json
for f in $SRC/*.diff; do
  n=$(basename $f .diff); pid=$(echo $n | grep -o 'C[0-9][0-9]')
  cp $f refactors/$n.diff
  S=/var/tmp/rf_$n; O=/var/tmp/rfo_$n; rm -rf $S $O; mkdir -p $S $O
  rsync -a --exclude .git --exclude tests /repo/ $S/
  (cd $S && patch -p1 -s < /verif/refactors/$n.diff) || { echo "$n: patch does not apply"; rm -rf $S $O; continue; }
  VERIF_REPO=$S VERIF_OUT=$O ./check $pid --tier quick > refactors/$n.check.log 2>&1; CE=$?
  sed -i "s#$O/#/verif/#g" refactors/$n.check.log
  echo "$n property=$pid exit=$CE violations=$(grep -c '^VIOLATION' refactors/$n.check.log) undecided=$(grep -c '^UNDECIDED' refactors/$n.check.log)"
  rm -rf $S $O
done

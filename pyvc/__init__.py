"""pyvc - verification-condition generator for a subset of Python.

Re-reads the real source of every function under contract from the working tree of
/repo with `ast` on every run, executes it symbolically (path-wise, with loop
invariants / callee contracts where given) and discharges the generated obligations
with z3 (python API) and /usr/bin/cvc5.  Never imports liesel.
"""

"""Helpers for writing proof units (harness side)."""
from __future__ import annotations

import ast

import z3

from .core import FP32, RNE, U, BoundMethod, Closure, Env, Obj, PropertyDef, PyFn, PyObj, PyRaise, RepoClass, SSeq, Unsupported, is_z3, to_sort
from .interp import Interp, LoopSpec, PathDone, get_module
from .unit import unit

Int, Bool, Real = z3.IntSort(), z3.BoolSort(), z3.RealSort()
And, Or, Not, Implies, If, ForAll, Exists = z3.And, z3.Or, z3.Not, z3.Implies, z3.If, z3.ForAll, z3.Exists


def new_obj(ip, key, tag=None, **fields):
    cls = ip.repo(key)
    if not isinstance(cls, RepoClass):
        raise Unsupported(f"{key} is not a class")
    o = Obj(cls, fields, tag=tag)
    o.partial = True  # laid out by the harness, not by the real constructor
    return o


def bind_args(ip, key, args, kwargs, literal_defaults=True):
    """binds (args, kwargs) to the parameter list of the REAL function `key` the way python does: positional, then keywords, then the
    definition's defaults (literal ones evaluated; others returned as AST).  Used by callee contracts so that they do not depend on how
    the caller spells the call."""
    import ast as _ast
    node = ip.repo(key).node
    names = [a.arg for a in node.args.args]
    dflt = dict(zip(names[len(names) - len(node.args.defaults):], node.args.defaults))
    bound = list(args)
    if len(bound) > len(names):
        raise PyRaise("TypeError", (f"{key}: too many positional arguments",))
    for nm in names[len(args):]:
        if nm in kwargs:
            bound.append(kwargs[nm])
        elif nm in dflt:
            try:
                bound.append(_ast.literal_eval(dflt[nm]) if literal_defaults else dflt[nm])
            except ValueError:
                bound.append(dflt[nm])
        else:
            raise PyRaise("TypeError", (f"{key}: missing argument {nm}",))
    extra = [k for k in kwargs if k not in names]
    if extra:
        raise PyRaise("TypeError", (f"{key}: unexpected keyword argument {extra[0]}",))
    return bound


def method(ip, obj, name):
    _, m = obj.cls.find(ip, name)
    if m is None:
        raise Unsupported(f"{obj.clsname} has no method {name}")
    return BoundMethod(obj, m)


def try_call(ip, fn, args=(), kwargs=None):
    """('ok', value) | ('raise', PyRaise)"""
    try:
        return "ok", ip.call(fn, list(args), dict(kwargs or {}))
    except PyRaise as e:
        return "raise", e


def exec_slice(ip, key, env_vars, first, last, self_obj=None):
    """Executes the statements of function `key` from the first top-level statement satisfying
    `first(stmt)` to the last satisfying `last(stmt)` (inclusive) in an environment holding
    `env_vars`.  Returns (env, [line numbers kept])."""
    clo = ip.repo(key)
    body = clo.node.body
    i0 = next(i for i, s in enumerate(body) if first(s))
    i1 = max(i for i, s in enumerate(body) if last(s))
    env = Env(None, clo.node)
    env.vars.update(env_vars)
    if self_obj is not None:
        env.vars["self"] = self_obj
    ip.fn_stack.append(clo.qualname)
    if not hasattr(ip, "owner_stack"):
        ip.owner_stack = []
    ip.owner_stack.append(clo.owner)
    try:
        sig = ip.exec_block(body[i0 : i1 + 1], env, clo.module)
    finally:
        ip.fn_stack.pop()
        ip.owner_stack.pop()
    lines = [(s.lineno, s.end_lineno) for s in body[i0 : i1 + 1]]
    return env, lines, sig


def assigns(name):
    def pred(st):
        for n in ast.walk(st):
            if isinstance(n, ast.Name) and n.id == name and isinstance(n.ctx, ast.Store):
                return True
        return False

    return pred


def count_stores(ip, key, name):
    clo = ip.repo(key)
    return sum(1 for n in ast.walk(clo.node) if isinstance(n, ast.Name) and n.id == name and isinstance(n.ctx, ast.Store))


def assigns_attr(attr):
    def pred(st):
        for n in ast.walk(st):
            if isinstance(n, ast.Attribute) and n.attr == attr and isinstance(n.ctx, ast.Store):
                return True
        return False

    return pred

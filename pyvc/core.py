"""Symbolic executor for a subset of Python over the *real* source in /repo.

Paths are enumerated by deterministic re-execution under a decision prefix.  Values are
python constants, z3 terms (Int/Bool/Real/FP32/uninterpreted U), heap objects (`Obj`,
concrete identity, symbolic fields), symbolic-length sequences (`SSeq`) and function-like
values (`Closure`, `BoundMethod`, `LibRef`, `PyFn`, `Partial`, `RepoClass`).

Anything outside the supported subset raises `Unsupported`; the obligations of the proof
unit that hit it become *undecided* (never proved, never violated).
"""
from __future__ import annotations

import ast
import hashlib
import os

import z3

REPO = os.environ.get("VERIF_REPO", "/repo")

U = z3.DeclareSort("U")  # opaque values (pytrees, keys, arrays whose content is irrelevant)
FP32 = z3.Float32()
RNE = z3.RNE()


class Unsupported(Exception):
    pass


class PathEnd(Exception):
    """The current path is infeasible (assumption contradicts the path condition)."""


class PyRaise(Exception):
    """A python exception raised by the code under verification."""

    def __init__(self, cls, args=(), node=None):
        super().__init__(cls)
        self.cls = cls
        self.args_ = args
        self.node = node


# ----------------------------------------------------------------------------- values


TOUCHED_FIELDS = set()  # every attribute name read or written on a heap object while a unit runs (by the code under test OR by the unit's harness)


class FieldDict(dict):
    """instance dictionary of a heap object that records which attribute names are used: a name that a harness uses but that occurs nowhere in the
    repository's source any more means the harness's picture of the object's representation is out of date (pyvc.unit.known_attribute_names)"""

    owner = None  # (module path, class name) of the repository class the object is an instance of

    def __init__(self, *a, **k):
        dict.__init__(self, *a, **k)

    def _rec(self, k):
        TOUCHED_FIELDS.add((self.owner, k))

    def __setitem__(self, k, v):
        self._rec(k)
        dict.__setitem__(self, k, v)

    def __getitem__(self, k):
        self._rec(k)
        return dict.__getitem__(self, k)

    def __contains__(self, k):
        self._rec(k)
        return dict.__contains__(self, k)

    def get(self, k, d=None):
        self._rec(k)
        return dict.get(self, k, d)

    def update(self, *a, **k):
        dict.update(self, *a, **k)
        for key in self.keys():
            self._rec(key)

    def setdefault(self, k, d=None):
        self._rec(k)
        return dict.setdefault(self, k, d)

    def pop(self, k, *d):
        self._rec(k)
        return dict.pop(self, k, *d)


class Obj:
    """Heap object with concrete identity and (possibly symbolic) fields."""

    _counter = 0

    def __init__(self, cls, fields=None, tag=None):
        self.cls = cls  # RepoClass or str
        self.f = FieldDict(fields or {})
        if isinstance(cls, RepoClass):
            self.f.owner = (cls.module.rel, cls.name)
        for k_ in self.f:
            self.f._rec(k_)
        self.tag = tag

    @property
    def clsname(self):
        return self.cls.name if isinstance(self.cls, RepoClass) else str(self.cls)

    def __repr__(self):
        return f"<Obj {self.clsname} {self.tag or ''}>"


class PyObj:
    """Harness-provided object: attributes are python values / PyFn."""

    def __init__(self, name, **attrs):
        self.name = name
        self.attrs = attrs

    def __repr__(self):
        return f"<PyObj {self.name}>"


class Closure:
    def __init__(self, node, module, env, qualname, owner=None):
        self.node = node
        self.module = module
        self.env = env
        self.qualname = qualname
        self.owner = owner  # RepoClass the function was found in (for super())
        self.kind = "function"  # function | static | class | property

    @property
    def key(self):
        return f"{self.module.rel}::{self.qualname}"

    def __repr__(self):
        return f"<Closure {self.key}>"


class BoundMethod:
    def __init__(self, self_, fn):
        self.self_ = self_
        self.fn = fn


class PropertyDef:
    def __init__(self, fget=None, fset=None):
        self.fget = fget
        self.fset = fset


class LibRef:
    def __init__(self, dotted):
        self.dotted = dotted

    def __repr__(self):
        return f"<Lib {self.dotted}>"

    def __eq__(self, o):
        return isinstance(o, LibRef) and o.dotted == self.dotted

    def __hash__(self):
        return hash(self.dotted)


class Partial:
    def __init__(self, fn, args, kwargs):
        self.fn, self.args, self.kwargs = fn, list(args), dict(kwargs)


class PyFn:
    """Python-implemented callable supplied by a model or a harness: f(ctx, *a, **k)."""

    def __init__(self, f, name=None):
        self.f = f
        self.name = name or getattr(f, "__name__", "pyfn")

    def __repr__(self):
        return f"<PyFn {self.name}>"


class SuperProxy:
    def __init__(self, obj, after_cls):
        self.obj = obj
        self.after = after_cls


class SSeq:
    """Symbolic-length sequence.  Elements are scalars (fields == None) or flat records of
    z3 values (fields = {name: sort}); stored as (length, one z3 array per field)."""

    def __init__(self, name, fields=None, sort=None, length=None, arrays=None, elem_cls=None, aggs=None, agg_vals=None):
        self.name = name
        self.fields = fields
        self.elem_cls = elem_cls
        # ghost aggregates: name -> fn(record-or-scalar) -> z3 Int ; value = fold over all elements,
        # maintained by append (the only mutator), havocked together with the sequence
        self.aggs = dict(aggs or {})
        self.agg_vals = dict(agg_vals) if agg_vals is not None else {k: z3.Int(f"{name}.agg.{k}") for k in self.aggs}
        self.length = length if length is not None else z3.Int(f"{name}.len")
        if arrays is not None:
            self.arrays = dict(arrays)
        elif fields is None:
            self.arrays = {None: z3.Array(f"{name}.a", z3.IntSort(), sort)}
        else:
            self.arrays = {
                f: z3.Array(f"{name}.{f}", z3.IntSort(), s) for f, s in fields.items()
            }

    def copy(self):
        return SSeq(self.name, self.fields, None, self.length, self.arrays, self.elem_cls, self.aggs, self.agg_vals)

    def fresh_like(self, name):
        return SSeq(name, self.fields, None if self.fields else self.arrays[None].range(), elem_cls=self.elem_cls, aggs=self.aggs)

    def slice_from(self, k):
        """view of self[k:] (k concrete >= 0); aggregates are not carried over"""
        j = z3.Int("__j")
        arrs = {f: z3.Lambda([j], z3.Select(a, j + k)) for f, a in self.arrays.items()}
        return SSeq(self.name + f"[{k}:]", self.fields, None, z3.If(self.length >= k, self.length - k, 0), arrs, self.elem_cls)

    def get(self, i):
        if self.fields is None:
            return z3.Select(self.arrays[None], i)
        return Obj(
            self.elem_cls,
            {f: z3.Select(a, i) for f, a in self.arrays.items()},
            tag=f"{self.name}[{i}]",
        )

    def field(self, f, i):
        return z3.Select(self.arrays[f], i)

    def append(self, v):
        if self.fields is None:
            self.arrays[None] = z3.Store(self.arrays[None], self.length, v)
        else:
            for f in self.fields:
                self.arrays[f] = z3.Store(self.arrays[f], self.length, to_sort(v.f[f], self.fields[f]))
        for k, fn in self.aggs.items():
            self.agg_vals[k] = self.agg_vals[k] + fn(v)
        self.length = self.length + 1

    @staticmethod
    def from_list(name, items, fields, elem_cls, aggs=None):
        s = SSeq(name, fields, None, z3.IntVal(0), {f: z3.K(z3.IntSort(), to_sort(0, srt)) for f, srt in fields.items()}, elem_cls, aggs, {k: z3.IntVal(0) for k in (aggs or {})})
        for it in items:
            s.append(it)
        return s


class Env:
    def __init__(self, parent=None, fn=None):
        self.vars = {}
        self.parent = parent
        self.fn = fn  # FunctionDef/Lambda node owning this scope
        self.local_names = _assigned_names(fn) if fn is not None else set()
        self.nonlocals = set()

    def lookup(self, name):
        e = self
        while e is not None:
            if name in e.vars:
                return e, e.vars[name]
            if name in e.local_names and name not in e.nonlocals:
                # a local of this scope that is not (yet) bound on this path
                return e, _UNBOUND
            e = e.parent
        return None, _MISSING


_UNBOUND = object()
_MISSING = object()


def _assigned_names(fn):
    names = set()
    if isinstance(fn, ast.Lambda):
        return names

    class V(ast.NodeVisitor):
        def visit_FunctionDef(self, n):
            if n is fn:
                self.generic_visit(n)
            else:
                names.add(n.name)

        visit_AsyncFunctionDef = visit_FunctionDef

        def visit_Lambda(self, n):
            pass

        def visit_ClassDef(self, n):
            names.add(n.name)

        def visit_Name(self, n):
            if isinstance(n.ctx, (ast.Store, ast.Del)):
                names.add(n.id)

        def visit_ListComp(self, n):
            # comprehension targets live in their own scope
            for g in n.generators:
                self.visit(g.iter)

        visit_SetComp = visit_DictComp = visit_GeneratorExp = visit_ListComp

        def visit_NamedExpr(self, n):
            names.add(n.target.id)
            self.visit(n.value)

    V().visit(fn)
    a = fn.args
    for p in a.posonlyargs + a.args + a.kwonlyargs:
        names.discard(p.arg)
    return names


# ----------------------------------------------------------------------------- modules


class RepoClass:
    def __init__(self, module, node):
        self.module = module
        self.node = node
        self.name = node.name
        self._bases = None
        self._members = None

    def __repr__(self):
        return f"<class {self.module.rel}::{self.name}>"

    def bases(self, ip):
        if self._bases is None:
            out = []
            for b in self.node.bases:
                if isinstance(b, ast.Subscript):
                    b = b.value
                try:
                    v = ip.eval_in_module(b, self.module)
                except Unsupported:
                    v = None
                out.append(v)
            self._bases = out
        return self._bases

    def repo_bases(self, ip):
        return [b for b in self.bases(ip) if isinstance(b, RepoClass)]

    def mro(self, ip):
        # C3 linearisation restricted to repo classes
        def merge(seqs):
            res = []
            seqs = [list(s) for s in seqs if s]
            while seqs:
                for s in seqs:
                    h = s[0]
                    if not any(h in t[1:] for t in seqs):
                        break
                else:
                    raise Unsupported("inconsistent MRO")
                res.append(h)
                seqs = [[x for x in t if x is not h] for t in seqs]
                seqs = [t for t in seqs if t]
            return res

        bs = self.repo_bases(ip)
        return [self] + merge([b.mro(ip) for b in bs] + [bs])

    def lib_base_names(self, ip):
        out = set()
        for c in self.mro(ip):
            for b in c.bases(ip):
                if isinstance(b, LibRef):
                    out.add(b.dotted)
        return out

    def decorator_names(self):
        out = []
        for d in self.node.decorator_list:
            if isinstance(d, ast.Call):
                d = d.func
            if isinstance(d, ast.Name):
                out.append(d.id)
            elif isinstance(d, ast.Attribute):
                out.append(d.attr)
        return out

    def members(self, ip):
        """name -> Closure | PropertyDef | ('const', ast expr) | ('ann', AnnAssign)"""
        if self._members is not None:
            return self._members
        m = {}
        for st in self.node.body:
            if isinstance(st, ast.FunctionDef):
                clo = Closure(st, self.module, None, f"{self.name}.{st.name}", owner=self)
                kind = "function"
                wrappers = []
                prop_setter_of = None
                for d in st.decorator_list:
                    dn = d
                    if isinstance(dn, ast.Call):
                        dn = dn.func
                    nm = dn.id if isinstance(dn, ast.Name) else (dn.attr if isinstance(dn, ast.Attribute) else None)
                    if nm in ("property", "cached_property"):
                        kind = "property"
                        if nm == "cached_property":  # functools.cached_property: computed on first access, then an ordinary instance attribute
                            clo.cached = True
                    elif nm == "staticmethod":
                        kind = "static"
                    elif nm == "classmethod":
                        kind = "class"
                    elif nm == "setter" and isinstance(dn, ast.Attribute):
                        prop_setter_of = dn.value.id
                    elif nm in ("abstractmethod", "usedocs", "deprecated", "wraps", "override"):
                        pass
                    elif nm in ("no_model_method", "no_model_setter", "in_model_method", "in_model_getter"):
                        wrappers.append(nm)
                    elif nm in ("jit", "partial"):
                        pass  # jax.jit / partial(jax.jit, ...) : identity on values (A-JIT)
                    else:
                        raise Unsupported(f"decorator {ast.dump(d)} on {self.name}.{st.name}")
                clo.kind = kind
                clo.wrappers = wrappers
                if prop_setter_of is not None:
                    clo.qualname = f"{self.name}.{st.name}.fset"
                    p = m.get(prop_setter_of)
                    if not isinstance(p, PropertyDef):
                        # setter for inherited property: copy getter from base
                        p = PropertyDef()
                        m[prop_setter_of] = p
                    m[prop_setter_of] = PropertyDef(p.fget, clo)
                elif kind == "property":
                    clo.qualname = f"{self.name}.{st.name}.fget"
                    m[st.name] = PropertyDef(clo, None)
                else:
                    m[st.name] = clo
            elif isinstance(st, ast.Assign) and len(st.targets) == 1 and isinstance(st.targets[0], ast.Name):
                m[st.targets[0].id] = ("const", st.value)
            elif isinstance(st, ast.AnnAssign) and isinstance(st.target, ast.Name):
                m[st.target.id] = ("ann", st)
        self._members = m
        return m

    def find(self, ip, name):
        for c in self.mro(ip):
            mm = c.members(ip)
            if name in mm:
                v = mm[name]
                if isinstance(v, tuple) and v[0] == "ann" and v[1].value is None:
                    continue
                return c, v
        return None, None


class ModuleInfo:
    def __init__(self, rel):
        self.rel = rel
        self.path = os.path.join(REPO, rel)
        with open(self.path) as f:
            self.src = f.read()
        self.tree = ast.parse(self.src)
        self.lines = self.src.splitlines()
        self.defs = {}
        self.cache = {}
        self._index(self.tree.body)

    def _index(self, body):
        for st in body:
            if isinstance(st, (ast.FunctionDef, ast.ClassDef)):
                self.defs[st.name] = st
            elif isinstance(st, ast.Import):
                for a in st.names:
                    if a.asname:
                        self.defs[a.asname] = ("import", a.name)
                    else:
                        self.defs[a.name.split(".")[0]] = ("import", a.name.split(".")[0])
            elif isinstance(st, ast.ImportFrom):
                for a in st.names:
                    self.defs[a.asname or a.name] = ("from", st.level, st.module, a.name)
            elif isinstance(st, ast.Assign):
                for t in st.targets:
                    if isinstance(t, ast.Name):
                        self.defs[t.id] = ("assign", st.value)
            elif isinstance(st, ast.AnnAssign) and isinstance(st.target, ast.Name) and st.value is not None:
                self.defs[st.target.id] = ("assign", st.value)
            elif isinstance(st, ast.If):
                self._index(st.body)
                self._index(st.orelse)
            elif isinstance(st, ast.Try):
                self._index(st.body)

    @property
    def package(self):
        d = os.path.dirname(self.rel)
        return d.replace("/", ".")


def _module_rel_from_dotted(dotted):
    p = dotted.replace(".", "/")
    if os.path.isfile(os.path.join(REPO, p + ".py")):
        return p + ".py"
    if os.path.isfile(os.path.join(REPO, p, "__init__.py")):
        return p + "/__init__.py"
    return None


# ----------------------------------------------------------------------------- helpers


def is_z3(v):
    return isinstance(v, z3.ExprRef)


def is_fp(v):
    return isinstance(v, z3.FPRef)


def to_sort(v, sort):
    if is_z3(v):
        if v.sort() == sort:
            return v
        if sort == z3.IntSort() and z3.is_bool(v):
            return z3.If(v, z3.IntVal(1), z3.IntVal(0))
        if sort == z3.RealSort() and v.sort() == z3.IntSort():
            return z3.ToReal(v)
        if sort == z3.RealSort() and z3.is_bool(v):
            return z3.If(v, z3.RealVal(1), z3.RealVal(0))
        if sort == FP32 and v.sort() == z3.IntSort():
            return z3.fpToFP(RNE, z3.ToReal(v), FP32)
        if sort == FP32 and z3.is_bool(v):
            return z3.If(v, z3.FPVal(1.0, FP32), z3.FPVal(0.0, FP32))
        if sort == z3.BoolSort() and v.sort() == z3.IntSort():
            return v != 0
        raise Unsupported(f"cannot convert {v.sort()} to {sort}")
    if sort == z3.IntSort():
        if isinstance(v, (bool, int)):
            return z3.IntVal(int(v))
    if sort == z3.BoolSort():
        if isinstance(v, (bool, int)):
            return z3.BoolVal(bool(v))
    if sort == z3.RealSort():
        if isinstance(v, (bool, int, float)):
            if isinstance(v, float):
                if v != v or v in (float("inf"), float("-inf")):
                    raise Unsupported("non-finite float in Real mode")
                return z3.RealVal(repr(v))
            return z3.RealVal(int(v))
    if sort == FP32:
        if isinstance(v, (bool, int, float)):
            return z3.FPVal(float(v), FP32)
    raise Unsupported(f"cannot convert {v!r} to {sort}")


def src_segment(module, node):
    seg = "\n".join(module.lines[node.lineno - 1 : node.end_lineno])
    return seg


def fingerprint(module, node):
    return hashlib.sha256(src_segment(module, node).encode()).hexdigest()


# ----------------------------------------------------------------------------- context


class Obligation:
    def __init__(self, name, pc, goal, path, meta=None, witnesses=None):
        self.name = name
        self.pc = list(pc)
        self.goal = goal
        self.path = path
        self.meta = meta or {}
        self.witnesses = witnesses or {}


def snapshot(v):
    if isinstance(v, SSeq):
        return v.copy()
    if isinstance(v, Obj):
        o = Obj(v.cls, {k: snapshot(x) for k, x in v.f.items()}, tag=v.tag)
        return o
    if isinstance(v, list):
        return [snapshot(x) for x in v]
    if isinstance(v, tuple):
        return tuple(snapshot(x) for x in v)
    if isinstance(v, dict):
        return {k: snapshot(x) for k, x in v.items()}
    return v


def pyval(m, v, seq_cap=12):
    """Evaluate a (possibly structured) symbolic value in model m -> plain python data."""
    if isinstance(v, SSeq):
        n = pyval(m, v.length)
        n_ = max(0, min(int(n), seq_cap)) if isinstance(n, int) else 0
        if v.fields is None:
            return {"len": n, "items": [pyval(m, v.get(z3.IntVal(i))) for i in range(n_)]}
        return {"len": n, "items": [{f: pyval(m, v.field(f, z3.IntVal(i))) for f in v.fields} for i in range(n_)]}
    if isinstance(v, Obj):
        return {"__cls__": v.clsname, **{k: pyval(m, x) for k, x in v.f.items()}}
    if isinstance(v, (list, tuple)):
        return [pyval(m, x) for x in v]
    if isinstance(v, dict):
        return {str(k): pyval(m, x) for k, x in v.items()}
    if not is_z3(v):
        return v if isinstance(v, (int, float, str, bool, type(None))) else repr(v)
    r = m.eval(v, model_completion=True)
    if z3.is_int_value(r):
        return r.as_long()
    if z3.is_true(r):
        return True
    if z3.is_false(r):
        return False
    if z3.is_rational_value(r):
        return {"real": str(r), "float": r.numerator_as_long() / r.denominator_as_long()}
    if isinstance(r, z3.FPNumRef):
        if r.isNaN():
            return {"fp32": "nan"}
        if r.isInf():
            return {"fp32": "-inf" if r.isNegative() else "inf"}
        if r.isZero():
            return {"fp32": "-0.0" if r.isNegative() else "0.0"}
        try:
            import struct

            sgn = 1 if r.isNegative() else 0
            sig = r.significand_as_long()
            ex = r.exponent_as_long(biased=True)
            bits = (sgn << 31) | (ex << 23) | sig
            return {"fp32": repr(struct.unpack("<f", struct.pack("<I", bits))[0]), "bits": bits}
        except Exception:
            return {"fp32": str(r)}
    return str(r)


# ---------------------------------------------------------------------------------------------------------------------------------------
# `term.eq(other)` in harnesses means "the same value on this path", not "the same syntax tree": two terms that the path condition (incl. the
# ground axioms that come with the terms: commutativity of + and *, casts to the value's own dtype, ...) forces to be equal ARE equal. Structural
# identity is tried first; otherwise the path's solver decides (2 s; undecided counts as "not shown equal", as the purely syntactic test did).
CURRENT_CTX = [None]
_STRUCT_EQ = z3.AstRef.eq


def _semantic_eq(self, other):
    if _STRUCT_EQ(self, other):
        return True
    ctx = CURRENT_CTX[0]
    if ctx is None or not isinstance(other, z3.ExprRef):
        return False
    try:
        if self.sort() != other.sort():
            return False
        s = z3.Solver()
        s.set("timeout", 2000)
        s.add(*ctx.pc)
        s.add(self != other)
        return s.check() == z3.unsat
    except z3.Z3Exception:
        return False


z3.ExprRef.eq = _semantic_eq


class Ctx:
    """Per-path state."""

    def __init__(self, explorer, prefix):
        self.ex = explorer
        self.prefix = list(prefix)
        self.trace = []  # [choice, n_alternatives_remaining list]
        self.pc = []
        self.counter = {}
        self.ghost = {}
        self.float_mode = explorer.float_mode
        self.call_depth = 0
        self.mono = {}  # monotone uninterpreted applications seen: fname -> [(arg, res)]
        self.notes = []
        self.witnesses = {}

    def witness(self, name, value):
        """remember a value whose model evaluation is reported when an obligation is refuted"""
        self.witnesses[name] = value

    # -- naming
    def fresh_name(self, base):
        n = self.counter.get(base, 0)
        self.counter[base] = n + 1
        return f"{base}!{n}" if n else base

    def fresh(self, base, sort):
        return z3.Const(self.fresh_name(base), sort)

    @property
    def float_sort(self):
        return FP32 if self.float_mode == "fp32" else z3.RealSort()

    # -- path condition
    def assume(self, cond):
        cond = self.as_bool(cond)
        if cond is True:
            return
        if cond is False:
            raise PathEnd()
        c = z3.simplify(cond)
        if z3.is_true(c):
            return
        if z3.is_false(c):
            raise PathEnd()
        self.pc.append(cond)

    def as_bool(self, v):
        if isinstance(v, bool):
            return v
        if is_z3(v):
            if z3.is_bool(v):
                return v
            if v.sort() == z3.IntSort():
                return v != 0
            if v.sort() == z3.RealSort():
                return v != 0
            if is_fp(v):
                return z3.Not(z3.fpIsZero(v))
        raise Unsupported(f"as_bool of {v!r}")

    def feasible(self, extra):
        s = z3.Solver()
        s.set("timeout", self.ex.branch_timeout_ms)
        for c in self.pc:
            s.add(c)
        s.add(extra)
        self.ex.stats["branch_checks"] += 1
        r = s.check()
        return r != z3.unsat

    def choose(self, conds, label=""):
        """Fork over alternatives with guard conditions (z3 Bool or python bool).
        Returns the index chosen on this path; the guard is added to the pc."""
        k = len(self.trace)
        if k < len(self.prefix):
            idx = self.prefix[k]
            self.trace.append(idx)
            c = conds[idx]
            if c is not True:
                self.pc.append(c)
            return idx
        feas = []
        for i, c in enumerate(conds):
            if c is True:
                feas.append(i)
            elif c is False:
                continue
            else:
                cs = z3.simplify(c)
                if z3.is_false(cs):
                    continue
                if z3.is_true(cs) or self.feasible(c):
                    feas.append(i)
        if not feas:
            raise PathEnd()
        idx = feas[0]
        self.trace.append(idx)
        self.ex.pending.append((list(self.trace[:-1]), feas[1:]))
        c = conds[idx]
        if c is not True:
            self.pc.append(c)
        return idx

    def branch(self, cond, label=""):
        b = self.as_bool(cond)
        if isinstance(b, bool):
            return b
        bs = z3.simplify(b)
        if z3.is_true(bs):
            return True
        if z3.is_false(bs):
            return False
        return self.choose([b, z3.Not(b)], label) == 0

    # -- obligations
    def oblige(self, name, goal, **meta):
        if isinstance(goal, bool):
            goal = z3.BoolVal(goal)
        self.ex.add_obligation(Obligation(name, self.pc, goal, list(self.trace), meta, {k: snapshot(v) for k, v in self.witnesses.items()}))

    def cover(self, name, cond=True):
        """Reachability witness: pc /\\ cond must be satisfiable on at least one path."""
        if isinstance(cond, bool):
            cond = z3.BoolVal(cond)
        self.ex.add_cover(name, list(self.pc), cond)


class Explorer:
    """Enumerates the paths of a proof unit by re-execution."""

    def __init__(self, float_mode="real", max_paths=4000, branch_timeout_ms=2000):
        self.float_mode = float_mode
        self.max_paths = max_paths
        self.branch_timeout_ms = branch_timeout_ms
        self.pending = []
        self.obligations = []
        self.covers = {}
        self.stats = {"paths": 0, "pruned": 0, "branch_checks": 0}

    def add_obligation(self, ob):
        self.obligations.append(ob)

    def add_cover(self, name, pc, cond):
        self.covers.setdefault(name, []).append((pc, cond))

    def run(self, unit_fn):
        """unit_fn(ctx) is executed once per path."""
        self.pending = [([], [None])]
        while self.pending:
            prefix, alts = self.pending.pop()
            if not alts:
                continue
            alt = alts[0]
            if len(alts) > 1:
                self.pending.append((prefix, alts[1:]))
            full = prefix if alt is None else prefix + [alt]
            ctx = Ctx(self, full)
            try:
                unit_fn(ctx)
                self.stats["paths"] += 1
            except PathEnd:
                self.stats["pruned"] += 1
            if self.stats["paths"] + self.stats["pruned"] > self.max_paths:
                raise Unsupported("path budget exceeded")

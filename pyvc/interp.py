"""AST interpreter over symbolic values (see core.py)."""
from __future__ import annotations

import ast
import os

import z3

from .core import (
    FP32,
    REPO,
    RNE,
    U,
    BoundMethod,
    Closure,
    Env,
    LibRef,
    ModuleInfo,
    Obj,
    Partial,
    PathEnd,
    PropertyDef,
    PyFn,
    PyObj,
    PyRaise,
    RepoClass,
    SSeq,
    SuperProxy,
    Unsupported,
    _MISSING,
    _UNBOUND,
    _module_rel_from_dotted,
    is_fp,
    is_z3,
    to_sort,
)

_MODULES: dict[str, ModuleInfo] = {}


def get_module(rel) -> ModuleInfo:
    if rel not in _MODULES:
        _MODULES[rel] = ModuleInfo(rel)
    return _MODULES[rel]


def reset_modules():
    _MODULES.clear()


class PathDone(Exception):
    """Path finished early on purpose (e.g. after checking a loop step)."""


class FmtStr:
    """f-string with symbolic parts: (template pieces, values). Equality is structural."""

    def __init__(self, parts):
        self.parts = tuple(parts)

    def __repr__(self):
        return f"FmtStr{self.parts!r}"


class SRange:
    def __init__(self, lo, hi):
        self.lo, self.hi = lo, hi


class StarSeq:
    """`*seq` in a call where seq is a symbolic sequence"""

    def __init__(self, seq):
        self.seq = seq


class LoopSpec:
    def __init__(self, inv, decreases=None, havoc=None, label=None, promote=None):
        self.promote = promote or {}  # local name -> (fields, elem_cls_key, aggs): list -> SSeq at loop entry
        self.inv = inv  # (ip, env) -> list[(name, z3 Bool)]
        self.decreases = decreases  # (ip, env) -> z3 Int
        self.havoc = havoc  # (ip, env) -> None : extra heap havoc
        self.label = label


_SKIP_CALL_ROOTS = {"logger", "warnings", "logging"}

BUILTIN_NAMES = {
    "len", "range", "enumerate", "zip", "isinstance", "issubclass", "tuple", "list", "dict", "set",
    "any", "all", "sum", "min", "max", "abs", "int", "float", "bool", "str", "repr", "hasattr",
    "getattr", "setattr", "iter", "next", "map", "sorted", "reversed", "type", "print", "super",
    "id", "callable", "frozenset", "object", "round", "divmod", "pow", "locals",
    "RuntimeError", "ValueError", "TypeError", "KeyError", "AttributeError", "IndexError",
    "NotImplementedError", "AssertionError", "Exception", "StopIteration", "UnboundLocalError",
    "ZeroDivisionError", "DeprecationWarning", "FutureWarning", "UserWarning",
    "None", "True", "False", "NotImplemented", "Ellipsis",
}


_SIG_CACHE = {}


def _leading_positional(dotted, args, kwargs, model_fn=None):
    """f(a=x, axis=0) and f(x, 0) are the same call: arguments given by keyword are moved to their positional slots as far as they form a gap-free
    prefix of the REAL library function's signature (models name their parameters freely; only the order is the library's)"""
    if dotted not in _SIG_CACHE:
        params = None
        try:
            import importlib
            import inspect

            mod, _, name = dotted.rpartition(".")
            obj = getattr(importlib.import_module(mod), name)
            params = [p.name for p in inspect.signature(obj).parameters.values() if p.kind in (p.POSITIONAL_ONLY, p.POSITIONAL_OR_KEYWORD)]
        except Exception:
            params = None
        _SIG_CACHE[dotted] = params
    params = _SIG_CACHE[dotted]
    if not params:
        return args, kwargs
    room, own_names, takes_kw = len(params), set(), False
    if model_fn is not None:  # ... only as far as the model takes positional arguments at all, and never a keyword the model itself knows by name
        try:
            import inspect

            mp = list(inspect.signature(model_fn).parameters.values())[1:]
            if not any(p.kind == p.VAR_POSITIONAL for p in mp):
                room = sum(1 for p in mp if p.kind in (p.POSITIONAL_ONLY, p.POSITIONAL_OR_KEYWORD))
            own_names = {p.name for p in mp if p.kind in (p.POSITIONAL_OR_KEYWORD, p.KEYWORD_ONLY)}
            takes_kw = any(p.kind == p.VAR_KEYWORD for p in mp)
        except (TypeError, ValueError):
            pass
    if takes_kw or any(k in own_names for k in kwargs):
        return args, kwargs  # the model binds these keywords itself (its parameter order need not be the library's)
    args, kwargs = list(args), dict(kwargs)
    while len(args) < min(len(params), room) and params[len(args)] in kwargs:
        args.append(kwargs.pop(params[len(args)]))
    return args, kwargs


class Interp:
    def __init__(self, ctx, models=None):
        self.ctx = ctx
        from . import models as _m
        from . import models_jax  # noqa: F401  (registers jax models)

        self.models = dict(_m.MODELS)
        if models:
            self.models.update(models)
        self.summaries = {}  # "rel::qualname" -> python fn(ip, args, kwargs) -> value
        self.loop_specs = {}  # ("rel::qualname", ordinal) -> LoopSpec
        self.opaque_attr = {}  # attr name -> fn(ip, value) for U-sorted values
        from .models_jax import DTYPE_OF
        self.opaque_attr["dtype"] = lambda ip_, v: DTYPE_OF(v) if v.sort() == U else ip_.uf("dtype_of_scalar_" + str(v.sort()), sort=U)
        self.models.setdefault("zattr:dtype", lambda ip_, v: ip_.uf("dtype_of_scalar", sort=U))  # a real / int scalar has a dtype too  # every array value has a dtype (an uninterpreted function of the value)
        self.inlined = set()
        self.used_models = set()
        self.used_summaries = set()
        self.dropped = []
        self.max_depth = 60
        self.depth = 0
        self.fn_stack = []
        self.uf_cache = {}

    # ------------------------------------------------------------------ uninterpreted
    def uf(self, name, *args, sort=U):
        zs = [self.to_z3_any(a) for a in args]
        commutes = len(zs) == 2 and (name.endswith("_Add") or name.endswith("_Mult")) and zs[0].sort() == zs[1].sort()
        key = (name, tuple(z.sort().name() for z in zs), sort.name())
        f = self.uf_cache.get(key)
        if f is None:
            f = z3.Function(name + "".join("_" + z.sort().name()[0] for z in zs), *[z.sort() for z in zs], sort)
            self.uf_cache[key] = f
        if commutes:
            # `+` and elementwise `*` commute bit for bit (IEEE): every such term comes with the ground instance f(a, b) = f(b, a) (`@` is not touched)
            t = f(*zs)
            self.ctx.assume(t == f(zs[1], zs[0]))
            return t
        return f(*zs) if zs else z3.Const(name, sort)

    def to_z3_any(self, v):
        if is_z3(v):
            return v
        if isinstance(v, bool):
            return z3.BoolVal(v)
        if isinstance(v, int):
            return z3.IntVal(v)
        if isinstance(v, float):
            return to_sort(v, self.ctx.float_sort)
        return self.to_U(v)

    def to_U(self, v):
        if is_z3(v):
            if v.sort() == U:
                return v
            return self.uf("box", v)
        if v is None:
            return z3.Const("None", U)
        if v is Ellipsis:
            return z3.Const("Ellipsis", U)
        if isinstance(v, (bool, int, float)):
            return self.uf("box", self.to_z3_any(v))
        if isinstance(v, str):
            return z3.Const(f"str:{v}", U)
        if isinstance(v, (list, tuple)):
            acc = z3.Const("nil", U)
            for x in reversed(v):
                acc = self.uf("cons", self.to_U(x), acc)
            return acc
        if isinstance(v, dict):
            acc = z3.Const("emptydict", U)
            for k in sorted(v, key=repr):
                acc = self.uf("dictput", acc, self.to_U(k), self.to_U(v[k]))
            return acc
        if isinstance(v, Obj):
            acc = z3.Const(f"cls:{v.clsname}", U)
            for k in sorted(v.f):
                acc = self.uf("field", acc, z3.Const(f"str:{k}", U), self.to_U(v.f[k]))
            return acc
        if isinstance(v, (Closure, LibRef, RepoClass, PyFn, PyObj, BoundMethod, Partial)):
            return z3.Const(f"fn:{self.describe(v)}", U)
        if isinstance(v, FmtStr):
            return self.uf("fmt", *[self.to_U(p) for p in v.parts])
        raise Unsupported(f"to_U({v!r})")

    def describe(self, v):
        if isinstance(v, Closure):
            return v.key
        if isinstance(v, LibRef):
            return v.dotted
        if isinstance(v, RepoClass):
            return f"{v.module.rel}::{v.name}"
        if isinstance(v, BoundMethod):
            return f"bound:{self.describe(v.fn)}@{id(v.self_)}"
        if isinstance(v, PyFn):
            return v.name
        if isinstance(v, PyObj):
            return v.name
        return repr(v)

    # ------------------------------------------------------------------ module level
    def module_global(self, module: ModuleInfo, name):
        if name in module.cache:
            return module.cache[name]
        if name not in module.defs:
            return _MISSING
        d = module.defs[name]
        if isinstance(d, ast.FunctionDef):
            v = Closure(d, module, None, d.name)
            v = self.apply_decorators(v, d, module)
        elif isinstance(d, ast.ClassDef):
            v = RepoClass(module, d)
        elif d[0] == "import":
            v = self.resolve_import(d[1])
        elif d[0] == "from":
            _, level, mod, nm = d
            if level:
                pkg = module.package.split(".")
                base = pkg[: len(pkg) - (level - 1)]
                dotted = ".".join(base + ([mod] if mod else []))
            else:
                dotted = mod
            v = self.resolve_from(dotted, nm)
        elif d[0] == "assign":
            v = self.eval(d[1], Env(None, None), module)
        else:
            raise Unsupported(f"module def {d!r}")
        module.cache[name] = v
        return v

    def resolve_import(self, dotted):
        if dotted == "liesel" or dotted.startswith("liesel."):
            rel = _module_rel_from_dotted(dotted)
            if rel:
                return ("module", get_module(rel))
        return LibRef(dotted)

    def resolve_from(self, dotted, name):
        if dotted == "liesel" or dotted.startswith("liesel."):
            rel = _module_rel_from_dotted(dotted)
            if rel is None:
                raise Unsupported(f"cannot locate module {dotted}")
            m = get_module(rel)
            v = self.module_global(m, name)
            if v is _MISSING:
                sub = _module_rel_from_dotted(dotted + "." + name)
                if sub:
                    return ("module", get_module(sub))
                raise Unsupported(f"{dotted}.{name} not found")
            return v
        return LibRef(f"{dotted}.{name}")

    def apply_decorators(self, clo, node, module):
        for d in node.decorator_list:
            dn = d.func if isinstance(d, ast.Call) else d
            nm = dn.id if isinstance(dn, ast.Name) else (dn.attr if isinstance(dn, ast.Attribute) else None)
            if nm in ("usedocs", "deprecated", "wraps", "jit", "partial", "abstractmethod", "staticmethod"):
                continue
            if nm in ("lru_cache", "cache"):
                # functools memoisation: a second call with equal arguments hands back THE SAME OBJECT (positional and keyword spellings are different keys)
                clo.memo = {}
                continue
            raise Unsupported(f"decorator {nm} on {clo.key}")
        return clo

    def eval_in_module(self, node, module):
        return self.eval(node, Env(None, None), module)

    def repo(self, key):
        """'liesel/goose/epoch.py::EpochManager.append' -> value (Closure / RepoClass / ...)."""
        rel, qual = key.split("::")
        m = get_module(rel)
        parts = qual.split(".")
        v = self.module_global(m, parts[0])
        if v is _MISSING:
            raise Unsupported(f"{key} not found")
        i = 1
        while i < len(parts):
            p = parts[i]
            if isinstance(v, RepoClass):
                _, mem = v.find(self, p)
                if mem is None:
                    raise Unsupported(f"{key}: no member {p}")
                if isinstance(mem, PropertyDef):
                    nxt = parts[i + 1] if i + 1 < len(parts) else "fget"
                    mem = mem.fget if nxt == "fget" else mem.fset
                    i += 1
                v = mem
            elif isinstance(v, Closure) and p == "<locals>":
                nm = parts[i + 1]
                found = None
                for n in ast.walk(v.node):
                    if isinstance(n, ast.FunctionDef) and n.name == nm and n is not v.node:
                        found = n
                        break
                if found is None:
                    raise Unsupported(f"{key}: nested function {nm} not found")
                v = Closure(found, v.module, None, ".".join(parts[: i + 2]))
                i += 1
            else:
                raise Unsupported(f"{key}: cannot descend into {v!r}")
            i += 1
        return v

    def fn_node(self, key):
        v = self.repo(key)
        if isinstance(v, Closure):
            return v.module, v.node
        if isinstance(v, RepoClass):
            return v.module, v.node
        raise Unsupported(f"{key} is not a function")

    # ------------------------------------------------------------------ truthiness
    def truth(self, v):
        if v is None:
            return False
        if isinstance(v, (bool, int, float, str)):
            return bool(v)
        if isinstance(v, (list, tuple, dict, set, frozenset)):
            return len(v) > 0
        if is_z3(v):
            if v.sort() == U:
                raise Unsupported("truth value of opaque term")
            return self.ctx.as_bool(v)
        if isinstance(v, SSeq):
            return v.length > 0
        if isinstance(v, Obj):
            if isinstance(v.cls, RepoClass):
                _, m = v.cls.find(self, "__bool__")
                if m is not None:
                    return self.truth(self.call(BoundMethod(v, m), [], {}))
                _, m = v.cls.find(self, "__len__")
                if m is not None:
                    return self.truth(self.call(BoundMethod(v, m), [], {}))
            return True
        if isinstance(v, PyObj) and "__bool__" in v.attrs:
            return self.truth(self.call(v.attrs["__bool__"], [], {}))
        if isinstance(v, (Closure, LibRef, RepoClass, PyFn, PyObj, BoundMethod, Partial, FmtStr)):
            return True
        if isinstance(v, tuple) and v and v[0] == "module":
            return True
        raise Unsupported(f"truth({v!r})")

    def branch_on(self, v, label=""):
        t = self.truth(v)
        if isinstance(t, bool):
            return t
        return self.ctx.branch(t, label)

    # ------------------------------------------------------------------ expressions
    def eval(self, node, env, module):
        m = getattr(self, "e_" + type(node).__name__, None)
        if m is None:
            raise Unsupported(f"expression {type(node).__name__} at {module.rel}:{getattr(node,'lineno','?')}")
        return m(node, env, module)

    def e_Constant(self, node, env, module):
        return node.value

    def e_Name(self, node, env, module):
        name = node.id
        e, v = env.lookup(name)
        if v is _UNBOUND:
            raise PyRaise("UnboundLocalError", (name,), node)
        if v is not _MISSING:
            return v
        v = self.module_global(module, name)
        if v is not _MISSING:
            return v
        if name in BUILTIN_NAMES:
            if name == "None":
                return None
            return LibRef("builtins." + name)
        raise PyRaise("NameError", (name,), node)

    def e_NamedExpr(self, node, env, module):
        v = self.eval(node.value, env, module)
        self.assign_name(node.target.id, v, env)
        return v

    def e_Tuple(self, node, env, module):
        return tuple(self.eval_seq(node.elts, env, module))

    def e_List(self, node, env, module):
        return list(self.eval_seq(node.elts, env, module))

    def e_Set(self, node, env, module):
        return set(self.eval_seq(node.elts, env, module))

    def eval_seq(self, elts, env, module):
        out = []
        for e in elts:
            if isinstance(e, ast.Starred):
                sv = self.eval(e.value, env, module)
                if isinstance(sv, SSeq):
                    out.append(StarSeq(sv))
                else:
                    out.extend(self.iterate(sv))
            else:
                out.append(self.eval(e, env, module))
        return out

    def e_Dict(self, node, env, module):
        d = {}
        for k, v in zip(node.keys, node.values):
            if k is None:
                vv = self.eval(v, env, module)
                d.update(self.as_dict(vv))
            else:
                d[self.hashable(self.eval(k, env, module))] = self.eval(v, env, module)
        return d

    def as_dict(self, v):
        if isinstance(v, dict):
            return v
        raise Unsupported(f"as_dict({v!r})")

    def hashable(self, k):
        if is_z3(k):
            ks = z3.simplify(k)
            if z3.is_int_value(ks):
                return ks.as_long()
            raise Unsupported("symbolic dict key")
        return k

    def e_JoinedStr(self, node, env, module):
        parts = []
        for v in node.values:
            if isinstance(v, ast.Constant):
                parts.append(v.value)
            else:
                val = self.eval(v.value, env, module)
                spec = None
                if v.format_spec is not None:
                    spec = self.eval(v.format_spec, env, module)
                if v.conversion == 114:  # !r
                    val = ("repr", val) if not isinstance(val, (int, str, float)) else repr(val)
                if isinstance(val, (int, str, float, bool)) and not isinstance(val, tuple):
                    try:
                        parts.append(format(val, spec or ""))
                    except Exception:
                        parts.append(str(val))
                else:
                    parts.append(("v", val, spec))
        if all(isinstance(p, str) for p in parts):
            return "".join(parts)
        return FmtStr(parts)

    def e_Lambda(self, node, env, module):
        return Closure(node, module, env, (self.fn_stack[-1] if self.fn_stack else "<module>") + ".<lambda>")

    def e_IfExp(self, node, env, module):
        if self.branch_on(self.eval(node.test, env, module)):
            return self.eval(node.body, env, module)
        return self.eval(node.orelse, env, module)

    def e_BoolOp(self, node, env, module):
        is_and = isinstance(node.op, ast.And)
        v = None
        for sub in node.values:
            v = self.eval(sub, env, module)
            if sub is node.values[-1]:
                return v
            t = self.branch_on(v)
            if is_and and not t:
                return v if not is_z3(v) else False
            if not is_and and t:
                return v if not is_z3(v) else True
        return v

    def e_UnaryOp(self, node, env, module):
        v = self.eval(node.operand, env, module)
        if isinstance(node.op, ast.Not):
            t = self.truth(v)
            return (not t) if isinstance(t, bool) else z3.Not(t)
        if isinstance(node.op, ast.USub):
            if is_z3(v):
                if v.sort() == U:
                    return self.uf("neg", v)
                if is_fp(v):
                    return z3.fpNeg(v)
                if z3.is_bool(v):
                    v = to_sort(v, z3.IntSort())
                return -v
            if isinstance(v, (int, float)):
                return -v
            return self.lib_unop("neg", v)
        if isinstance(node.op, ast.UAdd):
            return v
        if isinstance(node.op, ast.Invert):
            if is_z3(v) and z3.is_bool(v):
                return z3.Not(v)
            if isinstance(v, bool):
                return ~int(v)  # Python: ~True == -2, ~False == -1 (both truthy) - bitwise, NOT logical negation
            if isinstance(v, int):
                return ~v
            return self.lib_unop("invert", v)
        raise Unsupported("unary op")

    def lib_unop(self, name, v):
        if is_z3(v) and v.sort() == U:
            return self.uf(name, v)
        raise Unsupported(f"unary {name} on {v!r}")

    def e_BinOp(self, node, env, module):
        a = self.eval(node.left, env, module)
        b = self.eval(node.right, env, module)
        return self.binop(type(node.op).__name__, a, b, node)

    def numeric_pair(self, a, b):
        """coerce to a common z3 sort"""
        fs = self.ctx.float_sort
        za, zb = is_z3(a), is_z3(b)
        if za and z3.is_bool(a):
            a = to_sort(a, z3.IntSort())
        if zb and z3.is_bool(b):
            b = to_sort(b, z3.IntSort())
        if isinstance(a, bool):
            a = int(a)
        if isinstance(b, bool):
            b = int(b)
        sa = a.sort() if za else (z3.IntSort() if isinstance(a, int) else fs if isinstance(a, float) else None)
        sb = b.sort() if zb else (z3.IntSort() if isinstance(b, int) else fs if isinstance(b, float) else None)
        if sa is None or sb is None:
            raise Unsupported(f"numeric op on {a!r}, {b!r}")
        if sa == U or sb == U:
            raise Unsupported("opaque")
        if sa == sb:
            target = sa
        elif FP32 in (sa, sb):
            target = FP32
        elif z3.RealSort() in (sa, sb):
            target = z3.RealSort()
        else:
            target = sa
        return to_sort(a, target), to_sort(b, target), target

    def binop(self, op, a, b, node=None):
        if not is_z3(a) and not is_z3(b) and not getattr(a, "__cvec__", False) and not getattr(b, "__cvec__", False):
            if isinstance(a, (int, float, str, list, tuple, dict, set, bool)) and isinstance(
                b, (int, float, str, list, tuple, dict, set, bool)
            ):
                return self.concrete_binop(op, a, b)
            if isinstance(a, FmtStr) or isinstance(b, FmtStr):
                if op == "Add":
                    pa = list(a.parts) if isinstance(a, FmtStr) else [a]
                    pb = list(b.parts) if isinstance(b, FmtStr) else [b]
                    return FmtStr(pa + pb)
        if op == "BitOr" and isinstance(a, dict) and isinstance(b, dict):
            return {**a, **b}
        if (is_z3(a) and a.sort() == U) or (is_z3(b) and b.sort() == U):
            return self.opaque_binop(op, a, b)
        if not (is_z3(a) or isinstance(a, (int, float, bool))) or not (is_z3(b) or isinstance(b, (int, float, bool))):
            h = self.models.get("binop:" + op)
            if h:
                return h(self, a, b)
            raise Unsupported(f"binop {op} on {a!r}, {b!r}")
        if op in ("BitAnd", "BitOr", "BitXor"):
            ba = a if (is_z3(a) and z3.is_bool(a)) or isinstance(a, bool) else None
            bb = b if (is_z3(b) and z3.is_bool(b)) or isinstance(b, bool) else None
            if ba is None or bb is None:
                raise Unsupported("bit op on non-bool")
            ba = z3.BoolVal(ba) if isinstance(ba, bool) else ba
            bb = z3.BoolVal(bb) if isinstance(bb, bool) else bb
            return {"BitAnd": z3.And, "BitOr": z3.Or, "BitXor": z3.Xor}[op](ba, bb)
        x, y, s = self.numeric_pair(a, b)
        if s == FP32:
            if op == "Add":
                return z3.fpAdd(RNE, x, y)
            if op == "Sub":
                return z3.fpSub(RNE, x, y)
            if op == "Mult":
                return z3.fpMul(RNE, x, y)
            if op == "Div":
                return z3.fpDiv(RNE, x, y)
            raise Unsupported(f"fp op {op}")
        if s == z3.IntSort():
            if op == "Add":
                return x + y
            if op == "Sub":
                return x - y
            if op == "Mult":
                return x * y
            if op in ("FloorDiv", "Mod"):
                self.ctx_zero_division(y)
                if op == "FloorDiv":
                    return z3.If(y > 0, x / y, (-x) / (-y))
                return z3.If(y > 0, x % y, -((-x) % (-y)))
            if op == "Div":
                self.ctx_zero_division(y)
                if self.ctx.float_mode == "fp32":
                    return z3.fpDiv(RNE, to_sort(x, FP32), to_sort(y, FP32))
                return z3.ToReal(x) / z3.ToReal(y)
            if op == "Pow":
                ys = z3.simplify(y)
                if z3.is_int_value(ys) and 0 <= ys.as_long() <= 8:
                    r = z3.IntVal(1)
                    for _ in range(ys.as_long()):
                        r = r * x
                    return r
                return self.pow_model(x, y)
            raise Unsupported(f"int op {op}")
        # Real
        if op == "Add":
            return x + y
        if op == "Sub":
            return x - y
        if op == "Mult":
            return x * y
        if op == "Div":
            self.ctx_zero_division(y)
            return x / y
        if op == "Pow":
            return self.pow_model(x, y)
        raise Unsupported(f"real op {op}")

    def pow_model(self, x, y):
        ys = z3.simplify(y)
        if z3.is_int_value(ys) and 0 <= ys.as_long() <= 8:
            r = None
            for _ in range(ys.as_long()):
                r = x if r is None else r * x
            return r if r is not None else to_sort(1, x.sort())
        if z3.is_rational_value(ys) and ys.denominator_as_long() == 1 and 0 <= ys.numerator_as_long() <= 8:
            r = None
            for _ in range(ys.numerator_as_long()):
                r = x if r is None else r * x
            return r if r is not None else z3.RealVal(1)
        return self.uf("pow", to_sort(x, z3.RealSort()), to_sort(y, z3.RealSort()), sort=z3.RealSort())

    def ctx_zero_division(self, y):
        if getattr(self, "array_division", 0):
            return
        nz = y != 0
        s = z3.simplify(nz)
        if z3.is_true(s):
            return
        if self.ctx.choose([nz, z3.Not(nz)], "zerodiv") == 1:
            raise PyRaise("ZeroDivisionError")

    def opaque_binop(self, op, a, b):
        h = self.models.get("opaque_binop")
        if h:
            return h(self, op, a, b)
        return self.uf("op_" + op, self.to_U(a), self.to_U(b))

    def concrete_binop(self, op, a, b):
        import operator as o

        if op == "BitOr" and isinstance(a, dict):
            return {**a, **b}
        table = {
            "Add": o.add, "Sub": o.sub, "Mult": o.mul, "Div": o.truediv, "FloorDiv": o.floordiv,
            "Mod": o.mod, "Pow": o.pow, "BitAnd": o.and_, "BitOr": o.or_, "BitXor": o.xor,
            "LShift": o.lshift, "RShift": o.rshift,
        }
        if op in ("Div", "FloorDiv", "Mod") and b == 0:
            raise PyRaise("ZeroDivisionError")
        if isinstance(a, float) or isinstance(b, float) or op == "Div":
            # keep floats symbolic-exact: go through z3 in the active float mode
            x, y, s = self.numeric_pair(a, b)
            return self.binop(op, x, y)
        return table[op](a, b)

    def e_Compare(self, node, env, module):
        left = self.eval(node.left, env, module)
        result = None
        for op, rn in zip(node.ops, node.comparators):
            right = self.eval(rn, env, module)
            r = self.compare(type(op).__name__, left, right)
            if result is None:
                result = r
            else:
                if isinstance(result, bool) and isinstance(r, bool):
                    result = result and r
                else:
                    result = z3.And(self.zbool(result), self.zbool(r))
            if result is False:
                return False
            left = right
        return result

    def zbool(self, b):
        return z3.BoolVal(b) if isinstance(b, bool) else b

    def compare(self, op, a, b):
        if (getattr(a, "__cvec__", False) or getattr(b, "__cvec__", False)) and op in ("Lt", "LtE", "Gt", "GtE", "Eq", "NotEq"):
            from .models_jax import CVec, cvec_elementwise

            return cvec_elementwise(self, lambda x, y: self.compare(op, x, y), a, b)
        if op in ("Is", "IsNot"):
            if is_z3(a) or is_z3(b):
                if a is None or b is None:
                    r = False  # a z3 term is never None
                elif is_z3(a) and is_z3(b):
                    if a.sort() != U or b.sort() != U:
                        r = a.eq(b)
                        if not r:
                            raise Unsupported("identity of symbolic scalars")
                    else:
                        # object identity of two array values is independent of their contents: a mutable array that was changed in
                        # place is the SAME object with another value, an equal copy is ANOTHER object with the same value - both
                        # answers are possible, each is explored (per ordered pair of terms once per path)
                        memo = self.ctx.ghost.setdefault("identity_choices", {})
                        k_ = (str(a), str(b))
                        if k_ not in memo:
                            if len(memo) >= 2:  # bound the fork count per path (later pairs: same object iff same term); noted
                                self.ctx.notes.append("object identity of array values: only the first 2 comparisons of a path are explored both ways")
                                memo[k_] = a.eq(b)
                            else:
                                memo[k_] = self.ctx.choose([True, True], "object-identity") == 0
                        r = memo[k_]
                else:
                    r = False
            else:
                r = a is b or (
                    isinstance(a, (int, str, bool, type(None))) and isinstance(b, (int, str, bool, type(None))) and type(a) is type(b) and a == b
                )
            return r if op == "Is" else not r
        if op in ("In", "NotIn"):
            r = self.contains(b, a)
            if op == "In":
                return r
            return (not r) if isinstance(r, bool) else z3.Not(r)
        if op in ("Eq", "NotEq"):
            r = self.equals(a, b)
            if op == "Eq":
                return r
            if is_z3(r) and r.sort() == U:
                return self.uf("elementwise_not", r)
            return (not r) if isinstance(r, bool) else z3.Not(r)
        # ordering
        if not is_z3(a) and not is_z3(b):
            if isinstance(a, (int, float, str, tuple, list)) and isinstance(b, (int, float, str, tuple, list)):
                import operator as o

                if isinstance(a, float) or isinstance(b, float):
                    x, y, s = self.numeric_pair(a, b)
                    return self.order(op, x, y, s)
                return {"Lt": o.lt, "LtE": o.le, "Gt": o.gt, "GtE": o.ge}[op](a, b)
            raise Unsupported(f"compare {op} {a!r} {b!r}")
        if (is_z3(a) and a.sort() == U) or (is_z3(b) and b.sort() == U):
            return self.uf("cmp_" + op, self.to_U(a), self.to_U(b), sort=z3.BoolSort())
        x, y, s = self.numeric_pair(a, b)
        return self.order(op, x, y, s)

    def order(self, op, x, y, s):
        if s == FP32:
            return {"Lt": z3.fpLT, "LtE": z3.fpLEQ, "Gt": z3.fpGT, "GtE": z3.fpGEQ}[op](x, y)
        return {"Lt": lambda: x < y, "LtE": lambda: x <= y, "Gt": lambda: x > y, "GtE": lambda: x >= y}[op]()

    def equals(self, a, b):
        if getattr(a, "__vecop__", False) or getattr(b, "__vecop__", False):
            va, other = (a, b) if getattr(a, "__vecop__", False) else (b, a)
            return va._bin(other, lambda x, y: x == y)
        if is_z3(a) or is_z3(b):
            if a is None or b is None:
                return False
            if (is_z3(a) and a.sort() == U) or (is_z3(b) and b.sort() == U):
                if self.models.get("opaque_elementwise_eq") and not (is_z3(a) and is_z3(b) and a.sort() == b.sort()):
                    return self.models["opaque_elementwise_eq"](self, a, b)
                if isinstance(a, (str, tuple, list, dict)) or isinstance(b, (str, tuple, list, dict)) or (is_z3(a) and is_z3(b)):
                    return self.to_U(a) == self.to_U(b)
                raise Unsupported("== on opaque and number")
            if isinstance(a, str) or isinstance(b, str):
                return False
            x, y, s = self.numeric_pair(a, b)
            if s == FP32:
                return z3.fpEQ(x, y)
            return x == y
        if isinstance(a, Obj) or isinstance(b, Obj):
            for o_, other in ((a, b), (b, a)):
                if isinstance(o_, Obj) and isinstance(o_.cls, RepoClass):
                    _, m = o_.cls.find(self, "__eq__")
                    if m is not None:
                        return self.call(BoundMethod(o_, m), [other], {})
                    if "dataclass" in o_.cls.decorator_names() or "NamedTuple" in {x.split(".")[-1] for x in o_.cls.lib_base_names(self)}:
                        if isinstance(other, Obj) and other.cls is o_.cls:
                            rs = [self.equals(o_.f[k], other.f[k]) for k in o_.f]
                            if all(isinstance(r, bool) for r in rs):
                                return all(rs)
                            return z3.And(*[self.zbool(r) for r in rs])
                        return False
            return a is b
        if isinstance(a, FmtStr) or isinstance(b, FmtStr):
            h = self.models.get("fmt_eq")
            if h:
                return h(self, a, b)
            raise Unsupported("FmtStr equality")
        if isinstance(a, (list, tuple)) and isinstance(b, (list, tuple)) and type(a) is type(b):
            if len(a) != len(b):
                return False
            rs = [self.equals(x, y) for x, y in zip(a, b)]
            if all(isinstance(r, bool) for r in rs):
                return all(rs)
            return z3.And(*[self.zbool(r) for r in rs])
        if isinstance(a, (Closure, RepoClass, LibRef, PyFn, PyObj)) or isinstance(b, (Closure, RepoClass, LibRef, PyFn, PyObj)):
            return a is b or (isinstance(a, LibRef) and a == b)
        return a == b

    def contains(self, container, item):
        if isinstance(container, (list, tuple, set, frozenset)):
            rs = []
            for x in container:
                r = self.equals(x, item)
                if r is True:
                    return True
                if r is not False:
                    rs.append(r)
            if not rs:
                return False
            return z3.Or(*rs)
        if isinstance(container, dict):
            item = self.hashable(item)
            if isinstance(item, FmtStr):
                return self.contains(list(container.keys()), item)
            return item in container
        if isinstance(container, str) and isinstance(item, str):
            return item in container
        if isinstance(container, PyObj) and container.name == "iterator":
            # S-PY: `x in iterator` advances the iterator until it finds x (or to its end): a later test sees only what is left
            items, pos = container.attrs["items"], container.attrs["pos"]
            while pos < len(items):
                r = self.equals(items[pos], item)
                pos += 1
                if r is True:
                    container.attrs["pos"] = pos
                    return True
                if r is not False:
                    raise Unsupported("membership test on an iterator with symbolically-equal elements")
            container.attrs["pos"] = pos
            return False
        if isinstance(container, Obj) and isinstance(container.cls, RepoClass):
            _, m = container.cls.find(self, "__contains__")
            if m is not None:
                return self.call(BoundMethod(container, m), [item], {})
        h = self.models.get("contains")
        if h:
            return h(self, container, item)
        raise Unsupported(f"'in' on {container!r}")

    # attribute access -------------------------------------------------------------
    def e_Attribute(self, node, env, module):
        v = self.eval(node.value, env, module)
        return self.getattr(v, node.attr, node)

    def getattr(self, v, name, node=None):
        if isinstance(v, tuple) and len(v) == 2 and v[0] == "module":
            r = self.module_global(v[1], name)
            if r is _MISSING:
                sub = _module_rel_from_dotted(v[1].package + "." + name) if v[1].rel.endswith("__init__.py") else None
                if sub:
                    return ("module", get_module(sub))
                raise PyRaise("AttributeError", (name,), node)
            return r
        if isinstance(v, Obj):
            if name in v.f:
                return v.f[name]
            if name == "__dict__":
                return v.f  # S-PY: the instance dictionary IS the object's attribute store
            if isinstance(v.cls, RepoClass):
                if name == "_replace" and "NamedTuple" in {x.split(".")[-1] for x in v.cls.lib_base_names(self)}:
                    def _replace(ip2, **kw):
                        bad = [k for k in kw if k not in v.f]
                        if bad:
                            raise PyRaise("ValueError", (f"unexpected field names {bad}",))
                        return Obj(v.cls, {**v.f, **kw}, tag=v.tag)
                    return PyFn(_replace, "NamedTuple._replace")
                if getattr(v, "partial", False) and v.cls.find(self, name)[1] is None:
                    # object laid out by a harness (not by its real constructor): a field the code reads but the harness did not
                    # provide means the representation differs from what the contract assumes - undecided, never a violation
                    raise Unsupported(f"harness-built {v.clsname} object has no field {name!r} (representation differs from the contract's)")
                return self.class_attr(v, v.cls, name, node)
            raise PyRaise("AttributeError", (name,), node)
        if isinstance(v, SuperProxy):
            mro = v.obj.cls.mro(self)
            idx = mro.index(v.after)
            for c in mro[idx + 1 :]:
                mm = c.members(self)
                if name in mm:
                    mem = mm[name]
                    return self.bind_member(v.obj, c, mem, name, node)
            if name == "__init__":
                return PyFn(lambda ip, *a, **k: None, "object.__init__")
            raise PyRaise("AttributeError", (name,), node)
        if isinstance(v, PyObj):
            if name in v.attrs:
                a = v.attrs[name]
                return a
            raise PyRaise("AttributeError", (name,), node)
        if isinstance(v, RepoClass):
            c, mem = v.find(self, name)
            if mem is None:
                if name == "__name__":
                    return v.name
                raise PyRaise("AttributeError", (name,), node)
            if isinstance(mem, Closure):
                if mem.kind == "class":
                    return BoundMethod(v, mem)
                return mem
            if isinstance(mem, PropertyDef):
                return mem
            if mem[0] == "const":
                return self.class_const(c, name, mem[1])
            if mem[0] == "ann":
                return self.class_const(c, name, mem[1].value)
        if isinstance(v, LibRef):
            full = v.dotted + "." + name
            h = self.models.get("const:" + full)
            if h is not None:
                return h(self) if callable(h) else h
            return LibRef(full)
        if isinstance(v, SSeq):
            if name == "append":
                return PyFn(lambda ip, x: v.append(x), "SSeq.append")
            if name == "copy":
                return PyFn(lambda ip: v.copy(), "SSeq.copy")
        h = self.models.get("attr:" + type(v).__name__ + "." + name)
        if h is not None:
            return h(self, v)
        if getattr(v, "__cvec__", False):
            if name == "shape":
                return (len(v),)
            if name == "at":
                from .models_jax import AtProxy

                return AtProxy(v)
        if isinstance(v, (list, dict, tuple, str, set)):
            from .models import container_method

            return container_method(self, v, name)
        if is_z3(v):
            h = self.opaque_attr.get(name) or self.models.get("zattr:" + name)
            if h is not None:
                return h(self, v)
        if isinstance(v, Closure) and name == "__name__":
            return v.node.name if isinstance(v.node, ast.FunctionDef) else "<lambda>"
        if isinstance(v, Partial):
            if name == "func":
                return v.fn
        raise Unsupported(f"getattr({v!r}, {name!r})")

    def class_const(self, cls, name, expr):
        key = ("classconst", cls.name, name)
        if key not in cls.module.cache:
            is_enum = any(d.endswith("IntEnum") or d.endswith("Enum") for d in cls.lib_base_names(self))
            val = self.eval(expr, Env(None, None), cls.module)
            cls.module.cache[key] = val
        return cls.module.cache[key]

    def class_attr(self, obj, cls, name, node=None):
        c, mem = cls.find(self, name)
        if mem is None:
            h = self.models.get("extattr:" + name)  # member inherited from an external (non-repository) base class: trusted model
            if h is not None:
                return h(self, obj)
            raise PyRaise("AttributeError", (name,), node)
        return self.bind_member(obj, c, mem, name, node)

    def bind_member(self, obj, c, mem, name, node=None):
        if isinstance(mem, Closure):
            if mem.kind == "static":
                return mem
            if mem.kind == "class":
                return BoundMethod(obj.cls, mem)
            return BoundMethod(obj, mem)
        if isinstance(mem, PropertyDef):
            if mem.fget is None:
                # setter-only override: find getter further up
                for cc in obj.cls.mro(self):
                    mm = cc.members(self).get(name)
                    if isinstance(mm, PropertyDef) and mm.fget is not None:
                        return self.call(BoundMethod(obj, mm.fget), [], {})
                raise PyRaise("AttributeError", (name,), node)
            if getattr(mem.fget, "cached", False):
                # S-PY: functools.cached_property is a non-data descriptor - the value is computed once per instance and stored in the instance
                # dictionary (where later reads find it first; it is copied with the instance and never recomputed)
                val = self.call(BoundMethod(obj, mem.fget), [], {})
                obj.f[name] = val
                return val
            return self.call(BoundMethod(obj, mem.fget), [], {})
        if mem[0] == "const":
            return self.class_const(c, name, mem[1])
        if mem[0] == "ann":
            return self.class_const(c, name, mem[1].value)
        raise Unsupported(f"member {name}")

    def setattr(self, v, name, val, node=None):
        if isinstance(v, Obj):
            if isinstance(v.cls, RepoClass):
                for cc in v.cls.mro(self):
                    mm = cc.members(self).get(name)
                    if isinstance(mm, PropertyDef):
                        if mm.fset is None and getattr(mm.fget, "cached", False):
                            break  # cached_property: assignment writes the instance attribute
                        if mm.fset is None:
                            raise PyRaise("AttributeError", (name,), node)
                        self.call(BoundMethod(v, mm.fset), [val], {})
                        return
                    if mm is not None:
                        break
                if getattr(v, "frozen", False):
                    raise PyRaise("FrozenInstanceError", (name,), node)
            hook = self.models.get("setattr_hook")
            if hook:
                hook(self, v, name, val)
            v.f[name] = val
            return
        if isinstance(v, PyObj):
            v.attrs[name] = val
            return
        raise Unsupported(f"setattr on {v!r}")

    # subscripts -------------------------------------------------------------------
    @staticmethod
    def canon_index(idx):
        """canonical form of an array index, so that equivalent spellings give the same term: trailing `...` and trailing full slices `:` are
        dropped (x[a:, ...] = x[a:, :] = x[a:]), a one-element index tuple is its element"""
        if isinstance(idx, tuple) and not (idx and idx[0] == "slice"):
            items = list(idx)
            full = lambda x: isinstance(x, tuple) and len(x) == 4 and x[0] == "slice" and x[1] is None and x[2] is None and x[3] is None  # noqa: E731
            while items and (items[-1] is Ellipsis or full(items[-1])):
                items.pop()
            if len(items) == 1:
                return items[0]
            return tuple(items)
        return idx

    def e_Subscript(self, node, env, module):
        v = self.eval(node.value, env, module)
        from .models_jax import AtProxy as _AP

        if isinstance(node.slice, ast.Slice) and isinstance(v, _AP):
            idx = self.e_Slice(node.slice, env, module)
            arr = v.arr
            return PyObj("at_index",
                         set=PyFn(lambda ip2, val: ip2.uf("at_set", arr, ip2.to_U(idx), ip2.to_z3_any(val)), "at.set"),
                         add=PyFn(lambda ip2, val: ip2.uf("at_add", arr, ip2.to_U(idx), ip2.to_z3_any(val)), "at.add"))
        if isinstance(node.slice, ast.Slice):
            lo = self.eval(node.slice.lower, env, module) if node.slice.lower else None
            hi = self.eval(node.slice.upper, env, module) if node.slice.upper else None
            st = self.eval(node.slice.step, env, module) if node.slice.step else None
            return self.getslice(v, lo, hi, st)
        idx = self.eval(node.slice, env, module)
        from .models_jax import AtProxy

        if isinstance(v, AtProxy) or (is_z3(v) and v.sort() == U):
            idx = self.canon_index(idx)
            if is_z3(v) and isinstance(idx, tuple) and len(idx) == 4 and idx[0] == "slice":
                return self.getslice(v, idx[1], idx[2], idx[3])  # x[a:b, ...] is x[a:b]
        if isinstance(v, AtProxy) and getattr(v.arr, "__cvec__", False):
            from .models_jax import CVec

            vec = v.arr
            i = idx[-1] if isinstance(idx, tuple) else idx
            ci = self.conc_int(i)
            if ci is None:
                raise Unsupported("symbolic index into a concrete-length vector")

            def _set(ip2, val):
                out = CVec(vec)
                out[ci] = val
                return out

            return PyObj("at_index", set=PyFn(_set, "at.set"))
        if isinstance(v, AtProxy):
            arr = v.arr
            return PyObj("at_index",
                         set=PyFn(lambda ip2, val: ip2.uf("at_set", arr, ip2.to_U(idx), ip2.to_z3_any(val)), "at.set"),
                         add=PyFn(lambda ip2, val: ip2.uf("at_add", arr, ip2.to_U(idx), ip2.to_z3_any(val)), "at.add"))
        return self.getitem(v, idx, node)

    def e_Slice(self, node, env, module):
        lo = self.eval(node.lower, env, module) if node.lower else None
        hi = self.eval(node.upper, env, module) if node.upper else None
        st = self.eval(node.step, env, module) if node.step else None
        return ("slice", lo, hi, st)

    def getslice(self, v, lo, hi, st):
        if isinstance(v, (list, tuple, str)) and all(x is None or isinstance(x, int) for x in (lo, hi, st)):
            return v[slice(lo, hi, st)]
        if isinstance(v, SSeq) and isinstance(lo, int) and lo >= 0 and hi is None and st is None:
            return v.slice_from(lo)
        h = self.models.get("getslice")
        if h:
            return h(self, v, lo, hi, st)
        raise Unsupported(f"slice of {v!r}")

    def conc_int(self, i):
        if isinstance(i, bool):
            return int(i)
        if isinstance(i, int):
            return i
        if is_z3(i) and i.sort() == z3.IntSort():
            s = z3.simplify(i)
            if z3.is_int_value(s):
                return s.as_long()
        return None

    def getitem(self, v, idx, node=None):
        if isinstance(v, (list, tuple)):
            ci = self.conc_int(idx)
            if ci is not None:
                if -len(v) <= ci < len(v):
                    return v[ci]
                raise PyRaise("IndexError", (), node)
            if is_z3(idx) and idx.sort() == z3.IntSort():
                n = len(v)
                inb = z3.And(idx >= -n, idx < n)
                if self.ctx.choose([inb, z3.Not(inb)], "index") == 1:
                    raise PyRaise("IndexError", (), node)
                # value-select over the list (elements must be z3-compatible of one sort)
                if n == 0:
                    raise PathEnd()
                nidx = z3.If(idx < 0, idx + n, idx)
                if all(is_z3(x) or isinstance(x, (int, float, bool)) for x in v):
                    zs = [self.to_z3_any(x) for x in v]
                    s0 = zs[0].sort()
                    zs = [to_sort(z, s0) for z in zs]
                    r = zs[-1]
                    for k in range(n - 2, -1, -1):
                        r = z3.If(nidx == k, zs[k], r)
                    return r
                k = self.ctx.choose([nidx == j for j in range(n)], "index-split")
                return v[k]
            raise Unsupported(f"list index {idx!r}")
        if isinstance(v, dict):
            k = self.hashable(idx)
            if isinstance(k, FmtStr):
                raise Unsupported("FmtStr dict key")
            if k in v:
                return v[k]
            if hasattr(v, "__missing__"):
                return v[k]
            raise PyRaise("KeyError", (k,), node)
        if isinstance(v, SSeq):
            if not (is_z3(idx) or isinstance(idx, int)):
                raise Unsupported("SSeq index")
            i = idx
            ci = self.conc_int(idx)
            if ci is not None and ci < 0:
                i = v.length + ci
            elif ci is None:
                i = z3.If(idx < 0, v.length + idx, idx)
            inb = z3.And(i >= 0, i < v.length)
            s = z3.simplify(inb)
            if z3.is_false(s):
                raise PyRaise("IndexError", (), node)
            if not z3.is_true(s):
                if self.ctx.choose([inb, z3.Not(inb)], "index") == 1:
                    raise PyRaise("IndexError", (), node)
            return v.get(z3.simplify(i) if is_z3(i) else z3.IntVal(i))
        if isinstance(v, str) and isinstance(idx, int):
            return v[idx]
        if isinstance(v, Obj) and isinstance(v.cls, RepoClass):
            _, m = v.cls.find(self, "__getitem__")
            if m is not None:
                return self.call(BoundMethod(v, m), [idx], {})
            if "NamedTuple" in {x.split(".")[-1] for x in v.cls.lib_base_names(self)}:
                ci = self.conc_int(idx)
                keys = list(v.f.keys())
                return v.f[keys[ci]]
        if isinstance(v, LibRef):
            return v  # generic alias such as dict[str, Array]
        h = self.models.get("getitem")
        if h:
            return h(self, v, idx)
        raise Unsupported(f"getitem({v!r}, {idx!r})")

    def setitem(self, v, idx, val, node=None):
        if isinstance(v, list):
            ci = self.conc_int(idx)
            if ci is None:
                raise Unsupported("symbolic list store")
            if -len(v) <= ci < len(v):
                v[ci] = val
                return
            raise PyRaise("IndexError", (), node)
        if isinstance(v, dict):
            v[self.hashable(idx)] = val
            return
        h = self.models.get("setitem")
        if h:
            return h(self, v, idx, val)
        raise Unsupported(f"setitem on {v!r}")

    # comprehensions ---------------------------------------------------------------
    def comp_iter(self, gens, env, module, emit):
        def rec(i, e):
            if i == len(gens):
                emit(e)
                return
            g = gens[i]
            it = self.eval(g.iter, e, module)
            for x in self.iterate(it):
                self.assign_target(g.target, x, e, module)
                ok = True
                for cond in g.ifs:
                    if not self.branch_on(self.eval(cond, e, module)):
                        ok = False
                        break
                if ok:
                    rec(i + 1, e)

        e = Env(env, None)
        rec(0, e)

    def e_ListComp(self, node, env, module):
        if len(node.generators) == 1 and not node.generators[0].ifs:
            it = self.eval(node.generators[0].iter, env, module)
            if isinstance(it, SSeq):
                j = z3.Int("__cj")
                e = Env(env, None)
                self.assign_target(node.generators[0].target, it.get(j), e, module)
                t = self.eval(node.elt, e, module)
                if not is_z3(t):
                    raise Unsupported("comprehension over symbolic sequence with non-scalar element")
                return SSeq(it.name + ".map", None, None, it.length, {None: z3.Lambda([j], t)})
            out = []
            for x in self.iterate(it):
                e = Env(env, None)
                self.assign_target(node.generators[0].target, x, e, module)
                out.append(self.eval(node.elt, e, module))
            return out
        out = []
        self.comp_iter(node.generators, env, module, lambda e: out.append(self.eval(node.elt, e, module)))
        return out

    e_GeneratorExp = e_ListComp

    def e_SetComp(self, node, env, module):
        out = []
        self.comp_iter(node.generators, env, module, lambda e: out.append(self.eval(node.elt, e, module)))
        res = []
        for x in out:
            if not any(self.equals(x, y) is True for y in res):
                res.append(x)
        return set(res) if all(isinstance(x, (int, str, float, tuple)) for x in res) else res

    def e_DictComp(self, node, env, module):
        out = {}

        def emit(e):
            k = self.hashable(self.eval(node.key, e, module))
            out[k] = self.eval(node.value, e, module)

        self.comp_iter(node.generators, env, module, emit)
        return out

    def iterate(self, it):
        from .models import SetList

        if isinstance(it, (set, frozenset, SetList)) and len(it) >= 2:
            # the iteration order of a set is unspecified (string hashes are randomised per process): every order is a path
            import itertools

            items = list(it)
            if all(isinstance(x, (int, bool)) or x is None for x in items):
                return items  # hashes of small ints are their values: deterministic
            # the orders are not enumerated exhaustively: two representative ones (as inserted / reversed). This is an
            # under-approximation of the nondeterminism: sound for refutations, noted as an assumption for proofs.
            if len(items) > 2:
                self.ctx.notes.append(f"set of {len(items)} elements iterated in 2 of its possible orders")
            # ONE choice per path: every set of this path is iterated as inserted, or every set reversed (2 paths per unit instead of
            # 2^(number of set iterations))
            k = self.ctx.ghost.get("set_order_mode")
            if k is None:
                k = self.ctx.choose([True, True], "set-iteration-order")
                self.ctx.ghost["set_order_mode"] = k
            return items if k == 0 else items[::-1]
        if isinstance(it, (list, tuple, set, frozenset)):
            return list(it)
        if isinstance(it, PyObj) and it.name == "iterator":
            # S-PY: a one-shot iterator (iter(xs), a generator): iterating it yields what is left and leaves it exhausted. (A consumer that stops early -
            # any() / all() / next() on a generator expression - is executed eagerly here: it takes everything.)
            rest = list(it.attrs["items"][it.attrs["pos"]:])
            it.attrs["pos"] = len(it.attrs["items"])
            return rest
        if isinstance(it, dict):
            return list(it.keys())
        if isinstance(it, str):
            return list(it)
        if isinstance(it, range):
            return list(it)
        if isinstance(it, Obj) and isinstance(it.cls, RepoClass):
            _, m = it.cls.find(self, "__iter__")
            if m is not None:
                return self.iterate(self.call(BoundMethod(it, m), [], {}))
        h = self.models.get("iterate")
        if h:
            return h(self, it)
        raise Unsupported(f"iterate({it!r})")

    # calls ------------------------------------------------------------------------
    def e_Call(self, node, env, module):
        # logging / warnings are dropped (effect-free for the properties)
        root = node.func
        while isinstance(root, ast.Attribute):
            root = root.value
        if isinstance(root, ast.Name) and root.id in _SKIP_CALL_ROOTS and isinstance(node.func, ast.Attribute):
            if root.id != "logging" or node.func.attr != "getLogger":
                self.dropped.append(f"{module.rel}:{node.lineno} {root.id}.{node.func.attr}(...)")
                return None
        if isinstance(node.func, ast.Name) and node.func.id == "super" and not node.args:
            slf = env.lookup("self")[1]
            owner = self.owner_stack[-1] if getattr(self, "owner_stack", None) else None
            if owner is None:
                raise Unsupported("super() outside method")
            return SuperProxy(slf, owner)
        if isinstance(node.func, ast.Name) and node.func.id == "locals" and not node.args and "locals" not in env.vars:
            return dict(env.vars)
        if isinstance(node.func, ast.Name) and node.func.id == "cast" and len(node.args) == 2:
            return self.eval(node.args[1], env, module)
        fn = self.eval(node.func, env, module)
        args = self.eval_seq(node.args, env, module)
        kwargs = {}
        for kw in node.keywords:
            if kw.arg is None:
                kwargs.update(self.as_dict(self.eval(kw.value, env, module)))
            else:
                kwargs[kw.arg] = self.eval(kw.value, env, module)
        return self.call(fn, args, kwargs, node)

    def call(self, fn, args, kwargs, node=None):
        self.depth += 1
        if self.depth > self.max_depth:
            self.depth -= 1
            raise Unsupported("call depth exceeded")
        try:
            return self._call(fn, list(args), dict(kwargs), node)
        finally:
            self.depth -= 1

    def _call(self, fn, args, kwargs, node):
        if isinstance(fn, BoundMethod):
            return self._call(fn.fn, [fn.self_] + args, kwargs, node)
        if isinstance(fn, Partial):
            return self._call(fn.fn, fn.args + args, {**fn.kwargs, **kwargs}, node)
        if isinstance(fn, PyFn):
            return fn.f(self, *args, **kwargs)
        if isinstance(fn, Closure):
            return self.call_closure(fn, args, kwargs)
        if isinstance(fn, RepoClass):
            return self.instantiate(fn, args, kwargs)
        if isinstance(fn, LibRef):
            h = self.models.get(fn.dotted)
            if h is None:
                raise Unsupported(f"no model for {fn.dotted}")
            self.used_models.add(fn.dotted)
            if kwargs:
                args, kwargs = _leading_positional(fn.dotted, args, kwargs, h)
            return h(self, *args, **kwargs)
        if isinstance(fn, Obj) and isinstance(fn.cls, RepoClass):
            _, m = fn.cls.find(self, "__call__")
            if m is not None:
                return self._call(m, [fn] + args, kwargs, node)
        if isinstance(fn, PyObj) and "__call__" in fn.attrs:
            return self._call(fn.attrs["__call__"], args, kwargs, node)
        raise Unsupported(f"call of {fn!r}")

    def default_value(self, clo, dnode):
        """S-PY: a default argument value is ONE object per function definition, shared by all calls that omit the argument (evaluated here at
        the first such call of the path instead of at definition time; a mutable default keeps what earlier calls did to it)"""
        cache = self.ctx.ghost.setdefault("__default_values__", {})
        k = (id(clo.node), id(dnode), id(clo.env))
        if k not in cache:
            cache[k] = (self.eval(dnode, Env(clo.env, None), clo.module), dnode, clo.env)  # (node and defining environment are kept alive with the entry)
        return cache[k][0]

    def bind(self, clo, args, kwargs):
        a = clo.node.args
        env = Env(clo.env, clo.node)
        params = [p.arg for p in a.posonlyargs + a.args]
        defaults = a.defaults
        nd = len(defaults)
        args = list(args)
        kwargs = dict(kwargs)
        for i, p in enumerate(params):
            if i < len(args):
                if p in kwargs:
                    raise PyRaise("TypeError", (f"multiple values for {p}",))
                env.vars[p] = args[i]
            elif p in kwargs:
                env.vars[p] = kwargs.pop(p)
            else:
                di = i - (len(params) - nd)
                if di >= 0:
                    env.vars[p] = self.default_value(clo, defaults[di])
                else:
                    raise PyRaise("TypeError", (f"missing argument {p}",))
        extra = args[len(params) :]
        if a.vararg:
            env.vars[a.vararg.arg] = tuple(extra)
        elif extra:
            raise PyRaise("TypeError", ("too many positional arguments",))
        for p, d in zip(a.kwonlyargs, a.kw_defaults):
            if p.arg in kwargs:
                env.vars[p.arg] = kwargs.pop(p.arg)
            elif d is not None:
                env.vars[p.arg] = self.default_value(clo, d)
            else:
                raise PyRaise("TypeError", (f"missing kw-only {p.arg}",))
        if a.kwarg:
            env.vars[a.kwarg.arg] = kwargs
        elif kwargs:
            raise PyRaise("TypeError", (f"unexpected keyword {list(kwargs)}",))
        return env

    def call_closure(self, clo, args, kwargs):
        memo = getattr(clo, "memo", None)
        if memo is not None and not getattr(clo, "_in_memo_call", False):
            mk = (tuple(repr(a) for a in args), tuple(sorted((k, repr(v)) for k, v in kwargs.items())))
            if mk in memo:
                return memo[mk]
            clo._in_memo_call = True
            try:
                memo[mk] = self.call_closure(clo, args, kwargs)
            finally:
                clo._in_memo_call = False
            return memo[mk]
        if clo.key in self.summaries and not getattr(self, "_bypass_summary", None) == clo.key:
            self.used_summaries.add(clo.key)
            return self.summaries[clo.key](self, args, kwargs)
        # in_model/no_model wrappers are real repo functions: apply them by interpretation
        wrappers = getattr(clo, "wrappers", None)
        if wrappers and not getattr(clo, "_unwrapped", False):
            inner = Closure(clo.node, clo.module, clo.env, clo.qualname, clo.owner)
            inner.kind = clo.kind
            inner._unwrapped = True
            inner.wrappers = wrappers
            f = inner
            nodes_mod = get_module("liesel/model/nodes.py")
            for w in reversed(wrappers):
                wf = self.module_global(nodes_mod, w)
                f = self.call(wf, [f], {})
            return self.call(f, args, kwargs)
        env = self.bind(clo, args, kwargs)
        self.inlined.add(clo.key)
        if isinstance(clo.node, ast.Lambda):
            return self.eval(clo.node.body, env, clo.module)
        self.fn_stack.append(clo.qualname)
        if not hasattr(self, "owner_stack"):
            self.owner_stack = []
        self.owner_stack.append(clo.owner)
        try:
            sig = self.exec_block(clo.node.body, env, clo.module, clo)
        finally:
            self.fn_stack.pop()
            self.owner_stack.pop()
        if sig is not None and sig[0] == "return":
            return sig[1]
        return None

    def instantiate(self, cls, args, kwargs):
        libs = {x.split(".")[-1] for x in cls.lib_base_names(self)}
        if "IntEnum" in libs or "Enum" in libs:
            # EpochType(x): value lookup
            return args[0]
        obj = Obj(cls)
        _, init = cls.find(self, "__init__")
        decos = set()
        for c in cls.mro(self):
            decos.update(c.decorator_names())
        if init is not None:
            self.call(BoundMethod(obj, init), args, kwargs)
            return obj
        if "dataclass" in decos or "NamedTuple" in libs:
            fields = self.dataclass_fields(cls)
            ai = 0
            for name, default, init_flag in fields:
                if init_flag:
                    if ai < len(args):
                        obj.f[name] = args[ai]
                        ai += 1
                        continue
                    if name in kwargs:
                        obj.f[name] = kwargs.pop(name)
                        continue
                if default is not _MISSING:
                    obj.f[name] = self.eval(default, Env(None, None), cls.module) if isinstance(default, ast.AST) else default
                elif init_flag:
                    raise PyRaise("TypeError", (f"missing field {name}",))
            if ai < len(args) or kwargs:
                raise PyRaise("TypeError", ("bad dataclass init",))
            _, post = cls.find(self, "__post_init__")
            if post is not None:
                self.call(BoundMethod(obj, post), [], {})
            for c in cls.mro(self):
                for d in c.node.decorator_list:
                    if isinstance(d, ast.Call) and any(k.arg == "frozen" and getattr(k.value, "value", False) for k in d.keywords):
                        obj.frozen = True
            return obj
        if args or kwargs:
            raise PyRaise("TypeError", ("object() takes no arguments",))
        return obj

    def dataclass_fields(self, cls):
        fields = {}
        for c in reversed(cls.mro(self)):
            for st in c.node.body:
                if isinstance(st, ast.AnnAssign) and isinstance(st.target, ast.Name):
                    ann = ast.unparse(st.annotation)
                    if ann.startswith("ClassVar"):
                        continue
                    default = _MISSING
                    init_flag = True
                    if st.value is not None:
                        if isinstance(st.value, ast.Call) and getattr(st.value.func, "id", None) == "field":
                            for k in st.value.keywords:
                                if k.arg == "default":
                                    default = k.value
                                elif k.arg == "init":
                                    init_flag = bool(k.value.value)
                                elif k.arg == "default_factory":
                                    default = ast.Call(func=k.value, args=[], keywords=[])
                        else:
                            default = st.value
                    fields[st.target.id] = (st.target.id, default, init_flag)
        return list(fields.values())

    # ------------------------------------------------------------------ statements
    def exec_block(self, stmts, env, module, clo=None):
        for st in stmts:
            m = getattr(self, "s_" + type(st).__name__, None)
            if m is None:
                raise Unsupported(f"statement {type(st).__name__} at {module.rel}:{st.lineno}")
            sig = m(st, env, module)
            if sig is not None:
                return sig
        return None

    def s_Expr(self, st, env, module):
        if isinstance(st.value, ast.Constant):
            return None
        v = self.eval(st.value, env, module)
        if isinstance(v, Obj) and isinstance(st.value, ast.Call) and isinstance(st.value.func, ast.Name) and isinstance(v.cls, RepoClass) and st.value.func.id == v.cls.name:
            # S4': an object constructed by a bare expression statement is unreferenced and collected at once
            # (CPython reference counting): weak references to it are dead from here on
            v.dead = True

    def s_Pass(self, st, env, module):
        return None

    def s_Import(self, st, env, module):
        for a in st.names:
            env.vars[a.asname or a.name.split(".")[0]] = self.resolve_import(a.name if a.asname else a.name.split(".")[0])

    def s_ImportFrom(self, st, env, module):
        for a in st.names:
            if st.level:
                pkg = module.package.split(".")
                base = pkg[: len(pkg) - (st.level - 1)]
                dotted = ".".join(base + ([st.module] if st.module else []))
            else:
                dotted = st.module
            env.vars[a.asname or a.name] = self.resolve_from(dotted, a.name)

    def s_Return(self, st, env, module):
        return ("return", self.eval(st.value, env, module) if st.value is not None else None)

    def s_Break(self, st, env, module):
        return ("break",)

    def s_Continue(self, st, env, module):
        return ("continue",)

    def s_Global(self, st, env, module):
        raise Unsupported("global")

    def s_Nonlocal(self, st, env, module):
        env.nonlocals.update(st.names)

    def assign_name(self, name, v, env):
        if name in env.nonlocals:
            e = env.parent
            while e is not None:
                if name in e.vars or name in e.local_names:
                    e.vars[name] = v
                    return
                e = e.parent
        env.vars[name] = v

    def assign_target(self, t, v, env, module):
        if isinstance(t, ast.Name):
            self.assign_name(t.id, v, env)
        elif isinstance(t, (ast.Tuple, ast.List)):
            vals = self.unpack(v, len(t.elts), t)
            for tt, vv in zip(t.elts, vals):
                self.assign_target(tt, vv, env, module)
        elif isinstance(t, ast.Attribute):
            o = self.eval(t.value, env, module)
            self.setattr(o, t.attr, v, t)
        elif isinstance(t, ast.Subscript):
            o = self.eval(t.value, env, module)
            if isinstance(t.slice, ast.Slice):
                raise Unsupported("slice store")
            self.setitem(o, self.eval(t.slice, env, module), v, t)
        else:
            raise Unsupported(f"assign target {type(t).__name__}")

    def unpack(self, v, n, node=None):
        if isinstance(v, (list, tuple)):
            if len(v) != n:
                raise PyRaise("ValueError", ("unpack",), node)
            return list(v)
        if isinstance(v, Obj) and isinstance(v.cls, RepoClass) and "NamedTuple" in {x.split(".")[-1] for x in v.cls.lib_base_names(self)}:
            vals = list(v.f.values())
            if len(vals) != n:
                raise PyRaise("ValueError", ("unpack",), node)
            return vals
        h = self.models.get("unpack")
        if h:
            return h(self, v, n)
        raise Unsupported(f"unpack {v!r}")

    def s_Assign(self, st, env, module):
        v = self.eval(st.value, env, module)
        for t in st.targets:
            self.assign_target(t, v, env, module)

    def s_AnnAssign(self, st, env, module):
        if st.value is not None:
            self.assign_target(st.target, self.eval(st.value, env, module), env, module)

    def s_AugAssign(self, st, env, module):
        t = st.target
        if isinstance(t, ast.Name):
            cur = self.e_Name(ast.Name(id=t.id, ctx=ast.Load(), lineno=st.lineno), env, module)
            rhs = self.eval(st.value, env, module)
            self.assign_name(t.id, self.aug(type(st.op).__name__, cur, rhs), env)
        elif isinstance(t, ast.Attribute):
            o = self.eval(t.value, env, module)
            cur = self.getattr(o, t.attr, t)
            rhs = self.eval(st.value, env, module)
            self.setattr(o, t.attr, self.aug(type(st.op).__name__, cur, rhs), t)
        elif isinstance(t, ast.Subscript):
            o = self.eval(t.value, env, module)
            i = self.eval(t.slice, env, module)
            cur = self.getitem(o, i, t)
            rhs = self.eval(st.value, env, module)
            self.setitem(o, i, self.aug(type(st.op).__name__, cur, rhs), t)
        else:
            raise Unsupported("augassign target")

    def aug(self, op, cur, rhs):
        if op == "Add" and isinstance(cur, list):
            cur.extend(self.iterate(rhs))
            return cur
        if op == "BitOr" and isinstance(cur, dict):
            cur.update(rhs)
            return cur
        return self.binop(op, cur, rhs)

    def s_If(self, st, env, module):
        if self.branch_on(self.eval(st.test, env, module)):
            return self.exec_block(st.body, env, module)
        return self.exec_block(st.orelse, env, module)

    def s_Match(self, st, env, module):
        """match/case with class patterns without sub-patterns (`case Cls():`), value patterns, and the wildcard - first matching case wins"""
        subj = self.eval(st.subject, env, module)
        for case in st.cases:
            pat = case.pattern
            if isinstance(pat, ast.MatchAs) and pat.pattern is None:
                if pat.name is not None:
                    env.vars[pat.name] = subj
                hit = True
            elif isinstance(pat, ast.MatchClass) and not pat.patterns and not pat.kwd_patterns:
                cls = self.eval(pat.cls, env, module)
                hit = self.models["builtins.isinstance"](self, subj, cls)
            elif isinstance(pat, ast.MatchValue):
                r = self.compare("Eq", subj, self.eval(pat.value, env, module))
                hit = self.branch_on(r)
            else:
                raise Unsupported(f"match pattern {type(pat).__name__}")
            if hit and (case.guard is None or self.branch_on(self.eval(case.guard, env, module))):
                return self.exec_block(case.body, env, module)
        return None

    def s_Assert(self, st, env, module):
        if not self.branch_on(self.eval(st.test, env, module)):
            raise PyRaise("AssertionError", (), st)

    def s_Raise(self, st, env, module):
        if st.exc is None:
            cur = getattr(self, "handling", None)
            if cur:
                raise cur[-1]  # re-raise the exception being handled
            raise Unsupported("bare raise outside an except block")
        e = st.exc
        name = None
        args = ()
        if isinstance(e, ast.Call):
            f = e.func
            name = f.id if isinstance(f, ast.Name) else f.attr if isinstance(f, ast.Attribute) else None
        elif isinstance(e, ast.Name):
            v = env.lookup(e.id)[1]
            if isinstance(v, PyRaise):
                raise v
            name = e.id
        if name is None:
            raise Unsupported("raise expr")
        raise PyRaise(name, args, st)

    def s_FunctionDef(self, st, env, module):
        qual = (self.fn_stack[-1] if self.fn_stack else "") + ".<locals>." + st.name
        clo = Closure(st, module, env, qual)
        for d in st.decorator_list:
            dn = d.func if isinstance(d, ast.Call) else d
            nm = dn.id if isinstance(dn, ast.Name) else getattr(dn, "attr", None)
            if nm in ("wraps", "jit", "partial"):
                continue
            raise Unsupported(f"decorator on nested def {st.name}")
        env.vars[st.name] = clo

    def s_Try(self, st, env, module):
        if st.finalbody:
            raise Unsupported("try/finally")
        try:
            sig = self.exec_block(st.body, env, module)
        except PyRaise as e:
            for h in st.handlers:
                if self.handler_matches(h, e, env, module):
                    if h.name:
                        env.vars[h.name] = e
                    if not hasattr(self, "handling"):
                        self.handling = []
                    self.handling.append(e)
                    try:
                        return self.exec_block(h.body, env, module)
                    finally:
                        self.handling.pop()
            raise
        if sig is not None:
            return sig
        if st.orelse:
            return self.exec_block(st.orelse, env, module)
        return None

    _EXC_PARENTS = {
        "KeyError": ["LookupError", "Exception"], "IndexError": ["LookupError", "Exception"],
        "RuntimeError": ["Exception"], "ValueError": ["Exception"], "TypeError": ["Exception"],
        "AttributeError": ["Exception"], "AssertionError": ["Exception"], "ZeroDivisionError": ["ArithmeticError", "Exception"],
        "UnboundLocalError": ["NameError", "Exception"], "NameError": ["Exception"], "NotImplementedError": ["RuntimeError", "Exception"],
        "FrozenInstanceError": ["AttributeError", "Exception"], "StopIteration": ["Exception"],
    }

    def handler_matches(self, h, e, env, module):
        if h.type is None:
            return True
        names = []
        if isinstance(h.type, ast.Tuple):
            names = [getattr(x, "id", getattr(x, "attr", None)) for x in h.type.elts]
        else:
            names = [getattr(h.type, "id", getattr(h.type, "attr", None))]
        fam = [e.cls] + self._EXC_PARENTS.get(e.cls, ["Exception"])
        return any(n in fam for n in names)

    def s_With(self, st, env, module):
        raise Unsupported("with statement")

    def s_Delete(self, st, env, module):
        raise Unsupported("del")

    def s_ClassDef(self, st, env, module):
        raise Unsupported("nested class")

    # loops ------------------------------------------------------------------------
    def loop_ordinal(self, st):
        """ordinal of loop `st` among loops of the enclosing function (source order)"""
        return st.lineno

    def find_spec(self, st, module):
        if not self.fn_stack:
            return None
        # look up by (function key, loop index in source order)
        for (key, ordn), spec in self.loop_specs.items():
            rel, qual = key.split("::")
            if rel != module.rel:
                continue
            try:
                m, fnode = self.fn_node(key)
            except Unsupported:
                continue
            loops = [n for n in ast.walk(fnode) if isinstance(n, (ast.For, ast.While))]
            loops.sort(key=lambda n: (n.lineno, n.col_offset))
            if ordn < len(loops) and loops[ordn] is st:
                return key, ordn, spec
        return None

    def s_While(self, st, env, module):
        found = self.find_spec(st, module)
        if found is None:
            # concrete unrolling as long as the guard is decided
            n = 0
            while True:
                t = self.truth(self.eval(st.test, env, module))
                if not isinstance(t, bool):
                    ts = z3.simplify(t)
                    if z3.is_true(ts):
                        t = True
                    elif z3.is_false(ts):
                        t = False
                    else:
                        raise Unsupported(f"while loop with symbolic guard and no invariant at {module.rel}:{st.lineno}")
                if not t:
                    break
                n += 1
                if n > 10000:
                    raise Unsupported("unbounded concrete loop")
                sig = self.exec_block(st.body, env, module)
                if sig is not None:
                    if sig[0] == "break":
                        return None
                    if sig[0] == "continue":
                        continue
                    return sig
            if st.orelse:
                return self.exec_block(st.orelse, env, module)
            return None
        key, ordn, spec = found
        return self.invariant_loop(st, env, module, key, ordn, spec, guard=lambda: self.eval(st.test, env, module), pre_body=None)

    def havoc_value(self, name, v):
        c = self.ctx
        if is_z3(v):
            return c.fresh(f"hv_{name}", v.sort())
        if isinstance(v, bool):
            return c.fresh(f"hv_{name}", z3.BoolSort())
        if isinstance(v, int):
            return c.fresh(f"hv_{name}", z3.IntSort())
        if isinstance(v, float):
            return c.fresh(f"hv_{name}", c.float_sort)
        if isinstance(v, SSeq):
            return v.fresh_like(c.fresh_name(f"hv_{name}"))
        raise Unsupported(f"cannot havoc {name}={v!r}; give the loop spec a custom havoc")

    def invariant_loop(self, st, env, module, key, ordn, spec, guard, pre_body):
        c = self.ctx
        tag = f"{key}#loop{ordn}"
        for nm, (fields, elem_cls, aggs) in spec.promote.items():
            e, v = env.lookup(nm)
            if isinstance(v, list):
                e.vars[nm] = SSeq.from_list(nm, v, fields, elem_cls, aggs)
        for nm, g in spec.inv(self, env):
            c.oblige(f"{tag}.inv_init.{nm}", g)
        # havoc locals assigned in the body (and promoted sequences, which are mutated in place)
        assigned = set(spec.promote)
        for n in ast.walk(ast.Module(body=st.body, type_ignores=[])):
            if isinstance(n, ast.Name) and isinstance(n.ctx, ast.Store):
                assigned.add(n.id)
        for nm in sorted(assigned):
            e, v = env.lookup(nm)
            if v is _MISSING or v is _UNBOUND:
                continue
            e.vars[nm] = self.havoc_value(nm, v)
        if spec.havoc:
            spec.havoc(self, env)
        for nm, g in spec.inv(self, env):
            c.assume(g)
        t = self.truth(guard())
        go = t if isinstance(t, bool) else c.branch(t, "loop-guard")
        if not go:
            if isinstance(st, ast.While) and st.orelse:
                return self.exec_block(st.orelse, env, module)
            return None
        d0 = spec.decreases(self, env) if spec.decreases else None
        if pre_body:
            pre_body()
        sig = self.exec_block(st.body, env, module)
        if sig is not None and sig[0] == "break":
            return None
        if sig is not None and sig[0] == "return":
            return sig
        if getattr(spec, "post_body", None):
            spec.post_body(self, env)
        for nm, g in spec.inv(self, env):
            c.oblige(f"{tag}.inv_step.{nm}", g)
        if d0 is not None:
            d1 = spec.decreases(self, env)
            c.oblige(f"{tag}.decreases", z3.And(d0 >= 0, d1 < d0))
        raise PathDone()

    def s_For(self, st, env, module):
        it = self.eval(st.iter, env, module)
        found = self.find_spec(st, module)
        if found is not None and isinstance(it, (SRange, SSeq)):
            key, ordn, spec = found
            kname = f"__k{ordn}"
            if isinstance(it, SRange):
                lo, hi = it.lo, it.hi
                env.vars[kname] = lo
                getter = lambda k: k
            else:
                lo, hi = z3.IntVal(0), it.length
                env.vars[kname] = lo
                getter = lambda k: it.get(k)

            def guard():
                return env.vars[kname] < hi

            def pre_body():
                k = env.vars[kname]
                self.assign_target(st.target, getter(k), env, module)

            def post_body(ip, e):
                e.vars[kname] = e.vars[kname] + 1

            spec.post_body = post_body
            # the hidden counter must be havocked as well
            orig_havoc = spec.havoc

            def hv(ip, e):
                e.vars[kname] = self.ctx.fresh(f"k{ordn}", z3.IntSort())
                self.ctx.assume(z3.And(e.vars[kname] >= lo, e.vars[kname] <= z3.If(hi >= lo, hi, lo)))
                if orig_havoc:
                    orig_havoc(ip, e)

            spec2 = LoopSpec(spec.inv, spec.decreases, hv, spec.label)
            spec2.post_body = post_body
            return self.invariant_loop(st, env, module, key, ordn, spec2, guard, pre_body)
        if isinstance(it, (SRange, SSeq)):
            raise Unsupported(f"for loop over symbolic range without invariant at {module.rel}:{st.lineno}")
        for x in self.iterate(it):
            self.assign_target(st.target, x, env, module)
            sig = self.exec_block(st.body, env, module)
            if sig is not None:
                if sig[0] == "break":
                    return None
                if sig[0] == "continue":
                    continue
                return sig
        if st.orelse:
            return self.exec_block(st.orelse, env, module)
        return None

    def e_Starred(self, node, env, module):
        raise Unsupported("starred expression outside call/sequence")

    def e_FormattedValue(self, node, env, module):
        return self.eval(node.value, env, module)

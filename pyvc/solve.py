"""Discharging obligations: z3 (python API) first, /usr/bin/cvc5 on whatever z3 leaves open."""
from __future__ import annotations

import os
import subprocess
import tempfile
import time

import z3

CVC5 = "/usr/bin/cvc5"


def _raw_model(m):
    out = {}
    for d in m.decls():
        try:
            v = m[d]
            if d.arity() == 0:
                out[d.name()] = str(v)
            else:
                out[d.name()] = str(v)[:400]
        except Exception:
            pass
    return out


def _witness_dict(m, witnesses):
    from .core import pyval

    out = {}
    for k, v in witnesses.items():
        try:
            out[k] = pyval(m, v)
        except Exception as e:
            out[k] = f"<unevaluable: {e}>"
    out["__raw__"] = _raw_model(m)
    return out


def check_sat(assertions, timeout_ms, want_model=True, use_cvc5=True, witnesses=None):
    """returns (verdict, backend, seconds, model_dict_or_None, reason)"""
    if witnesses is not None:
        _model_to_dict = lambda m: _witness_dict(m, witnesses)  # noqa: E731
    else:
        _model_to_dict = _raw_model
    t0 = time.time()
    s = z3.Solver()
    s.set("timeout", int(timeout_ms))
    for a in assertions:
        s.add(a)
    r = s.check()
    dt = time.time() - t0
    if r == z3.unsat:
        return "unsat", "z3", dt, None, ""
    if r == z3.sat:
        return "sat", "z3", dt, _model_to_dict(s.model()) if want_model else None, ""
    reason = s.reason_unknown()
    # second attempt: different tactic pipeline
    try:
        t1 = time.time()
        g = z3.Goal()
        for a in assertions:
            g.add(a)
        tac = z3.Then("simplify", "solve-eqs", "smt")
        s2 = tac.solver()
        s2.set("timeout", int(timeout_ms))
        for a in assertions:
            s2.add(a)
        r2 = s2.check()
        if r2 == z3.unsat:
            return "unsat", "z3(simplify;solve-eqs;smt)", time.time() - t0, None, ""
        if r2 == z3.sat:
            return "sat", "z3(simplify;solve-eqs;smt)", time.time() - t0, _model_to_dict(s2.model()) if want_model else None, ""
    except z3.Z3Exception:
        pass
    if use_cvc5 and os.path.exists(CVC5):
        smt = "(set-logic ALL)\n" + s.to_smt2()
        with tempfile.NamedTemporaryFile("w", suffix=".smt2", delete=False, dir=os.environ.get("VERIF_TMP", "/var/tmp")) as f:
            f.write(smt)
            path = f.name
        try:
            p = subprocess.run(
                [CVC5, f"--tlimit={int(timeout_ms)}", "--fp-exp", path],
                capture_output=True, text=True, timeout=timeout_ms / 1000 + 10,
            )
            out = p.stdout.strip().splitlines()
            if out and out[0] == "unsat":
                return "unsat", "cvc5", time.time() - t0, None, ""
            if out and out[0] == "sat":
                return "sat", "cvc5", time.time() - t0, {}, "model from cvc5 not extracted"
            reason += " | cvc5: " + (out[0] if out else p.stderr.strip()[:200])
        except subprocess.TimeoutExpired:
            reason += " | cvc5: timeout"
        finally:
            try:
                os.unlink(path)
            except OSError:
                pass
    return "unknown", "z3+cvc5", time.time() - t0, None, reason


def discharge(ob, timeout_ms):
    """validity of pc => goal"""
    verdict, backend, dt, model, reason = check_sat(list(ob.pc) + [z3.Not(ob.goal)], timeout_ms, witnesses=ob.witnesses)
    if verdict == "unsat":
        return "proved", backend, dt, None, ""
    if verdict == "sat":
        return "refuted", backend, dt, model, reason
    return "unknown", backend, dt, None, reason


def smt_head(ob, limit=600):
    s = z3.Solver()
    for a in ob.pc:
        s.add(a)
    s.add(z3.Not(ob.goal))
    txt = s.to_smt2()
    lines = [l for l in txt.splitlines() if l.startswith("(assert")]
    t = "\n".join(lines)
    return t[:limit] + (" ..." if len(t) > limit else "")

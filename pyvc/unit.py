"""Proof units: a unit symbolically executes real functions from /repo inside a harness that
creates fully symbolic inputs satisfying the precondition and states the postcondition as
named obligations.  A unit is the analogue of a function contract + its proof harness."""
from __future__ import annotations

import time
import traceback

import z3

from . import core, interp, solve
from .core import Explorer, PathEnd, PyRaise, Unsupported
from .interp import Interp, PathDone

UNITS = {}


class Unit:
    def __init__(self, uid, prop, fn, functions, float_mode="real", assumptions=(), summaries=(), doc="",
                 expect_refuted=(), max_paths=4000):
        self.id = uid
        self.prop = prop
        self.fn = fn
        self.functions = list(functions)  # repo keys whose *real source* is executed by this unit
        self.float_mode = float_mode
        self.assumptions = list(assumptions)
        self.summaries = list(summaries)  # callee contracts assumed here (proved by other units or trusted)
        self.doc = doc or (fn.__doc__ or "").strip()
        self.max_paths = max_paths


def unit(uid, prop, functions, **kw):
    def deco(fn):
        UNITS[uid] = Unit(uid, prop, fn, functions, **kw)
        return fn

    return deco


def reuse(src_uid, uid, prop):
    """registers the harness of an existing unit again under another property: the other property's statement depends on the same contract,
    so a change that breaks the contract must be reported by that property's check as well"""
    u = UNITS[src_uid]
    UNITS[uid] = Unit(uid, prop, u.fn, u.functions, float_mode=u.float_mode, assumptions=list(u.assumptions) + [f"same harness as {src_uid}"], summaries=u.summaries,
                      doc=u.doc, max_paths=u.max_paths)


def function_info(keys):
    out = []
    ip = Interp(core.Ctx(Explorer(), []))
    for k in keys:
        try:
            m, node = ip.fn_node(k)
            out.append({
                "function": k,
                "lines": [node.lineno, node.end_lineno],
                "sha256": core.fingerprint(m, node)[:16],
            })
        except Exception as e:  # function vanished: obligations become undecided
            out.append({"function": k, "error": f"{type(e).__name__}: {e}"})
    return out


def run_unit(uid, timeout_ms=10000):
    """Runs one unit. Returns a JSON-serialisable dict."""
    u = UNITS[uid]
    t0 = time.time()
    ex = Explorer(float_mode=u.float_mode, max_paths=u.max_paths)
    status = "ok"
    reason = ""
    used_models, used_summaries, inlined, dropped, notes = set(), set(), set(), [], set()

    core.TOUCHED_FIELDS.clear()

    def one_path(ctx):
        # module-level and class-level values of the repository (incl. MUTABLE ones: a dict used as a class-wide cache) start fresh on every path,
        # as in a fresh interpreter process - nothing leaks from another path or unit
        from .interp import _MODULES
        for m_ in _MODULES.values():
            m_.cache.clear()
        core.CURRENT_CTX[0] = ctx
        ip = Interp(ctx)
        try:
            u.fn(ip)
        except PathDone:
            pass
        finally:
            core.CURRENT_CTX[0] = None
            used_models.update(ip.used_models)
            used_summaries.update(ip.used_summaries)
            inlined.update(ip.inlined)
            dropped.extend(d for d in ip.dropped if d not in dropped)
            notes.update(ctx.notes)

    try:
        ex.run(one_path)
    except Unsupported as e:
        status, reason = "unsupported", str(e)
    except PyRaise as e:
        status, reason = "unsupported", f"uncaught python exception in harness: {e.cls} {e.args_} at line {getattr(e.node, 'lineno', '?')}"
    except Exception as e:  # executor bug: never a verdict
        status, reason = "error", f"{type(e).__name__}: {e}\n{traceback.format_exc()[-1500:]}"
    gen_s = time.time() - t0

    by_name = {}
    for ob in ex.obligations:
        by_name.setdefault(ob.name, []).append(ob)
    results = {}
    solver_s = 0.0
    for name, obs in by_name.items():
        verdict = "proved"
        backends = set()
        model = None
        why = ""
        secs = 0.0
        sample = None
        for ob in obs:
            v, be, dt, mdl, rs = solve.discharge(ob, timeout_ms)
            secs += dt
            backends.add(be)
            if sample is None:
                sample = solve.smt_head(ob)
            if v == "refuted":
                mdl = dict(mdl or {})
                if ob.meta:
                    mdl["__meta__"] = {k: str(x)[:2000] for k, x in ob.meta.items()}
                verdict, model, why = "refuted", mdl, rs
                sample = solve.smt_head(ob)
                break
            if v == "unknown":
                verdict, why = "unknown", rs
        solver_s += secs
        results[name] = {
            "verdict": verdict if status == "ok" or verdict == "refuted" else ("undecided" if verdict == "proved" else verdict),
            "instances": len(obs),
            "backend": sorted(backends),
            "solver_s": round(secs, 4),
            "model": model,
            "reason": why,
            "smt_head": sample,
            "structural": any(ob.meta.get("structural") for ob in obs),
        }
    covers = {}
    for name, lst in ex.covers.items():
        ok = False
        for pc, cond in lst:
            v, be, dt, mdl, rs = solve.check_sat(list(pc) + [cond], timeout_ms, want_model=False)
            solver_s += dt
            if v == "sat":
                ok = True
                break
        covers[name] = ok
    harness_only = sorted({k for owner, k in core.TOUCHED_FIELDS if isinstance(k, str) and k not in known_attribute_names(owner)})
    return {
        "unit": uid,
        "harness_only_fields": harness_only,
        "property": u.prop,
        "doc": u.doc,
        "status": status,
        "reason": reason,
        "functions": function_info(u.functions),
        "float_mode": u.float_mode,
        "paths": ex.stats["paths"],
        "pruned": ex.stats["pruned"],
        "obligations": results,
        "covers": covers,
        "models_used": sorted(used_models),
        "summaries_used": sorted(used_summaries),
        "inlined": sorted(inlined),
        "dropped": dropped[:20],
        "assumptions": sorted(set(u.assumptions) | notes),
        "gen_s": round(gen_s, 3),
        "solver_s": round(solver_s, 3),
    }


_KNOWN_ATTRS = {}


def _names_per_file():
    """(identifiers per repository file, file of every class name, base-class names of every class)"""
    import ast
    import os
    root = os.environ.get("VERIF_REPO", "/repo")
    if root in _KNOWN_ATTRS:
        return _KNOWN_ATTRS[root]
    per_file, class_file, class_bases = {}, {}, {}
    for d, _dirs, files in os.walk(os.path.join(root, "liesel")):
        for fn in files:
            if not fn.endswith(".py"):
                continue
            path = os.path.join(d, fn)
            rel = os.path.relpath(path, root)
            try:
                with open(path) as fh:
                    tree = ast.parse(fh.read())
            except (OSError, SyntaxError):
                continue
            names = set()
            for n in ast.walk(tree):
                if isinstance(n, ast.Attribute):
                    names.add(n.attr)
                elif isinstance(n, ast.Name):
                    names.add(n.id)
                elif isinstance(n, ast.arg):
                    names.add(n.arg)
                elif isinstance(n, ast.keyword) and n.arg:
                    names.add(n.arg)
                elif isinstance(n, ast.Constant) and isinstance(n.value, str) and n.value.isidentifier():
                    names.add(n.value)
                elif isinstance(n, ast.FunctionDef):
                    names.add(n.name)
                elif isinstance(n, ast.ClassDef):
                    names.add(n.name)
                    class_file.setdefault(n.name, rel)
                    class_bases[(rel, n.name)] = [ast.unparse(b).split("[")[0].split(".")[-1] for b in n.bases]
            per_file[rel] = names
    _KNOWN_ATTRS[root] = (per_file, class_file, class_bases)
    return _KNOWN_ATTRS[root]


def known_attribute_names(owner=None):
    """the identifiers an object's representation can consist of: every identifier (attribute name, class-level name, parameter / keyword name, identifier-like
    string constant) in the source FILE of the object's class and in the files of its repository base classes; for objects without a repository class, the
    identifiers of the whole tree"""
    per_file, class_file, class_bases = _names_per_file()
    if owner is None or owner[0] not in per_file:
        out = set()
        for v in per_file.values():
            out |= v
        return out
    files, todo, seen = set(), [owner], set()
    while todo:
        rel, cname = todo.pop()
        if (rel, cname) in seen:
            continue
        seen.add((rel, cname))
        files.add(rel)
        for b in class_bases.get((rel, cname), []):
            if b in class_file:
                todo.append((class_file[b], b))
    out = set()
    for f in files:
        out |= per_file[f]
    return out

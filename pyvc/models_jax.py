"""Models of the jax / jax.numpy / jax.lax / jax.random calls that occur in the functions under
contract.  Each model is a few lines; all are part of the trusted base (listed per run in the
evidence) and cross-checked against the installed jax by rtc/selftest_models.py.

Floats are FP32 terms (mode 'fp32') or reals (mode 'real', machine arithmetic treated as
mathematical - assumption A-REAL)."""
from __future__ import annotations

import z3

from .core import FP32, RNE, U, Obj, PyFn, PyObj, PyRaise, Unsupported, is_fp, is_z3, to_sort
from .models import MODELS, model


def fl(ip, v):
    return to_sort(v, ip.ctx.float_sort)


def const_inf(ip):
    if ip.ctx.float_mode != "fp32":
        raise Unsupported("inf in real mode")
    return z3.fpPlusInfinity(FP32)


def const_nan(ip):
    if ip.ctx.float_mode != "fp32":
        raise Unsupported("nan in real mode")
    return z3.fpNaN(FP32)


MODELS["const:jax.numpy.inf"] = const_inf
MODELS["const:jax.numpy.nan"] = const_nan
MODELS["const:numpy.inf"] = const_inf
MODELS["const:numpy.nan"] = const_nan


@model("jax.numpy.finfo", "numpy.finfo")
def _finfo(ip, dtype=None):
    """machine constants of a float type: positive reals with tiny < eps < 1 < max (their values are not needed)"""
    eps, tiny, mx = z3.Real("finfo_eps"), z3.Real("finfo_tiny"), z3.Real("finfo_max")
    ip.ctx.assume(z3.And(tiny > 0, tiny < eps, eps < 1, mx > 1))
    return PyObj("finfo", eps=eps, tiny=tiny, max=mx, min=-mx, smallest_normal=tiny)


@model("jax.numpy.all", "numpy.all")
def _jnp_all(ip, x, *a, **k):
    if isinstance(x, bool) or (is_z3(x) and z3.is_bool(x)):
        return x  # reduction of an elementwise predicate that is modelled per array
    raise Unsupported("jnp.all on a non-boolean value")


@model("jax.numpy.zeros_like", "numpy.zeros_like")
def _zeros_like(ip, x, *a, **k):
    if is_z3(x) and x.sort() == U:
        return ip.uf("zeros_like", x)
    raise Unsupported("zeros_like")


@model("jax.numpy.isfinite", "numpy.isfinite")
def _isfinite(ip, x):
    if is_fp(x):
        return z3.And(z3.Not(z3.fpIsNaN(x)), z3.Not(z3.fpIsInf(x)))
    if is_z3(x) and x.sort() in (z3.RealSort(), z3.IntSort()):
        return True  # A-REAL: a real-sorted value has no infinities / NaN
    if isinstance(x, (int, float)):
        return x == x and x not in (float("inf"), float("-inf"))
    if is_z3(x) and x.sort() == U:
        # an array of unknown content: whether all its entries are finite is a fact about the array (some arrays contain +-inf, e.g. the
        # image of a support-boundary value under an unconstraining bijector) - an uninterpreted predicate, decided per path
        return z3.Function("all_entries_finite", U, z3.BoolSort())(x)
    raise Unsupported("isfinite")


@model("jax.numpy.isinf", "numpy.isinf")
def _isinf(ip, x):
    if is_fp(x):
        return z3.fpIsInf(x)
    if is_z3(x) and x.sort() in (z3.RealSort(), z3.IntSort()):
        return False
    if isinstance(x, (int, float)):
        return x in (float("inf"), float("-inf"))
    raise Unsupported("isinf")


@model("jax.numpy.eye", "numpy.eye", "jax.numpy.identity", "numpy.identity")
def _eye(ip, n, *a, **kw):
    """the identity matrix as an uninterpreted function of its size (and of whatever else is passed)"""
    return ip.uf("eye", ip.to_U(n), *[ip.to_U(x) for x in a], *[ip.to_U(kw[k]) for k in sorted(kw)])


@model("jax.numpy.nan_to_num", "numpy.nan_to_num")
def _nan_to_num(ip, x, *a, **kw):
    """the identity on finite values; NaN / +-inf are replaced. A-REAL: a real-sorted value is finite, so this is the identity there (what the function does to
    non-finite values is visible to the bounded stand-ins only); binary32 values and opaque arrays get an uninterpreted result that equals the input when it is finite"""
    if is_fp(x):
        r = z3.Const(f"nan_to_num_{ip.ctx.fresh_id() if hasattr(ip.ctx, 'fresh_id') else id(x)}", x.sort())
        ip.ctx.assume(z3.Implies(z3.And(z3.Not(z3.fpIsNaN(x)), z3.Not(z3.fpIsInf(x))), r == x))
        return r
    if is_z3(x) and x.sort() == U:
        r = ip.uf("nan_to_num", x, *[ip.to_U(v) for v in a], *[ip.to_U(kw[k]) for k in sorted(kw)])
        ip.ctx.assume(z3.Implies(z3.Function("all_entries_finite", U, z3.BoolSort())(x), r == x))
        return r
    return x


def _signed_inf(name, negative):
    @model(f"jax.numpy.{name}", f"numpy.{name}")
    def _m(ip, x):
        if is_fp(x):
            return z3.And(z3.fpIsInf(x), z3.fpIsNegative(x) if negative else z3.fpIsPositive(x))
        if is_z3(x) and x.sort() in (z3.RealSort(), z3.IntSort()):
            return False  # A-REAL
        if isinstance(x, (int, float)):
            return x == (float("-inf") if negative else float("inf"))
        raise Unsupported(name)
    return _m


_signed_inf("isneginf", True)
_signed_inf("isposinf", False)


@model("jax.numpy.isnan", "numpy.isnan")
def _isnan(ip, x):
    if is_fp(x):
        return z3.fpIsNaN(x)
    if is_z3(x) and x.sort() in (z3.RealSort(), z3.IntSort()):
        return False
    if isinstance(x, float):
        return x != x
    if isinstance(x, int):
        return False
    raise Unsupported("isnan")


@model("jax.lax.cond")
def _cond(ip, pred, true_fun, false_fun, *operands):
    """A-COND: lax.cond(p, f, g, *xs) == f(*xs) if p else g(*xs) for pure f, g."""
    if ip.branch_on(pred, "lax.cond"):
        return ip.call(true_fun, list(operands), {})
    return ip.call(false_fun, list(operands), {})


def exp_fp(ip, x):
    c = ip.ctx
    e = c.fresh("exp", FP32)
    zero, one = z3.FPVal(0.0, FP32), z3.FPVal(1.0, FP32)
    c.assume(z3.fpIsNaN(e) == z3.fpIsNaN(x))
    c.assume(z3.Implies(z3.Not(z3.fpIsNaN(x)), z3.And(
        z3.fpGEQ(e, zero), z3.Not(z3.fpIsNegative(e)),
        z3.Implies(z3.And(z3.fpIsInf(x), z3.fpIsNegative(x)), z3.fpIsZero(e)),
        z3.Implies(z3.And(z3.fpIsInf(x), z3.fpIsPositive(x)), z3.And(z3.fpIsInf(e), z3.fpIsPositive(e))),
        z3.Implies(z3.fpGEQ(x, zero), z3.fpGEQ(e, one)),
        z3.Implies(z3.fpLEQ(x, zero), z3.fpLEQ(e, one)),
        z3.Implies(z3.fpIsZero(x), z3.fpEQ(e, one)),
    )))
    # monotone w.r.t. earlier applications on this path (ground instances, no quantifier)
    for (x0, e0) in c.mono.setdefault("exp", []):
        c.assume(z3.Implies(z3.fpLEQ(x0, x), z3.fpLEQ(e0, e)))
        c.assume(z3.Implies(z3.fpLEQ(x, x0), z3.fpLEQ(e, e0)))
        c.assume(z3.Implies(z3.fpEQ(x, x0), z3.fpEQ(e, e0)))
    c.mono["exp"].append((x, e))
    c.notes.append("A-EXP(fp32): exp abstracted relationally: NaN<->NaN, exp(-inf)=+0, exp(+inf)=+inf, result >= +0, "
                   "x>=0 => exp>=1, x<=0 => exp<=1, exp(0)=1, monotone")
    return e


def mono_uf(ip, name, x, increasing=True, extra=None):
    """uninterpreted real function with ground monotonicity instances"""
    c = ip.ctx
    f = z3.Function(name, z3.RealSort(), z3.RealSort())
    x = to_sort(x, z3.RealSort())
    r = f(x)
    for (x0, r0) in c.mono.setdefault(name, []):
        if increasing:
            c.assume(z3.Implies(x0 <= x, r0 <= r))
            c.assume(z3.Implies(x <= x0, r <= r0))
            c.assume(z3.Implies(x0 < x, r0 < r))
            c.assume(z3.Implies(x < x0, r < r0))
    c.mono[name].append((x, r))
    if extra:
        extra(c, x, r)
    return r


@model("jax.numpy.exp", "numpy.exp", "math.exp")
def _exp(ip, x):
    if ip.ctx.float_mode == "fp32":
        return exp_fp(ip, fl(ip, x))
    ip.ctx.notes.append("A-REAL: exp is an uninterpreted strictly increasing positive real function with exp(0)=1")
    return mono_uf(ip, "exp", x, extra=lambda c, a, r: (c.assume(r > 0), c.assume((a == 0) == (r == 1))))


@model("jax.numpy.log", "numpy.log", "math.log")
def _log(ip, x):
    if ip.ctx.float_mode == "fp32":
        raise Unsupported("log in fp32 mode")
    ip.ctx.notes.append("A-REAL: log is an uninterpreted strictly increasing real function with log(1)=0 (used on positive arguments)")
    return mono_uf(ip, "log", x, extra=lambda c, a, r: c.assume((a == 1) == (r == 0)))


@model("jax.numpy.sqrt", "numpy.sqrt", "math.sqrt")
def _sqrt(ip, x):
    if ip.ctx.float_mode == "fp32":
        raise Unsupported("sqrt in fp32 mode")
    ip.ctx.notes.append("A-REAL: sqrt(x) is the non-negative real r with r*r = x (for x >= 0)")
    c = ip.ctx
    x = to_sort(x, z3.RealSort())
    f = z3.Function("sqrt", z3.RealSort(), z3.RealSort())
    r = f(x)
    c.assume(z3.Implies(x >= 0, z3.And(r >= 0, r * r == x)))
    return r


@model("jax.numpy.clip", "numpy.clip")
def _clip(ip, x, min=None, max=None, **kw):
    x = fl(ip, x)
    if "a_min" in kw:
        min = kw["a_min"]
    if "a_max" in kw:
        max = kw["a_max"]
    if is_fp(x):
        r = x
        if min is not None:
            m = fl(ip, min)
            r = z3.If(z3.fpIsNaN(r), r, z3.If(z3.fpLT(r, m), m, r))
        if max is not None:
            m = fl(ip, max)
            r = z3.If(z3.fpIsNaN(r), r, z3.If(z3.fpGT(r, m), m, r))
        return r
    r = x
    if min is not None:
        m = fl(ip, min)
        r = z3.If(r < m, m, r)
    if max is not None:
        m = fl(ip, max)
        r = z3.If(r > m, m, r)
    return r


def uniform_fn():
    return z3.Function("uniform", U, FP32)


@model("jax.random.uniform")
def _uniform(ip, key, shape=(), *a, **k):
    """A-RNG: uniform(key) is a function of the key with value in [0, 1), never NaN."""
    if shape not in ((), None) or a or k:
        raise Unsupported("uniform with shape/dtype/bounds")
    c = ip.ctx
    if c.float_mode == "fp32":
        u = uniform_fn()(ip.to_U(key))
        c.assume(z3.And(z3.Not(z3.fpIsNaN(u)), z3.fpGEQ(u, z3.FPVal(0.0, FP32)), z3.fpLT(u, z3.FPVal(1.0, FP32))))
    else:
        u = z3.Function("uniform_r", U, z3.RealSort())(ip.to_U(key))
        c.assume(z3.And(u >= 0, u < 1))
    c.notes.append("A-RNG: jax.random.uniform(key) in [0,1), not NaN, a function of the key")
    use_key(ip, key)
    return u


# ---------------------------------------------------------------------- PRNG key ownership


def use_key(ip, key):
    """ownership discipline: a key may be consumed (split / sampled from) at most once"""
    used = ip.ctx.ghost.setdefault("keys_used", [])
    ku = ip.to_U(key)
    for k0 in used:
        if k0.eq(ku):
            ip.ctx.ghost.setdefault("key_reuse", []).append(str(ku))
    used.append(ku)


@model("jax.random.split")
def _split(ip, key, num=2):
    """A-RNG: split(key, n) consumes key and returns n keys that are distinct uninterpreted
    functions of (key, index)."""
    use_key(ip, key)
    n = ip.conc_int(num)
    ku = ip.to_U(key)
    if n is None:
        return ip.uf("split_n", ku, to_sort(num, z3.IntSort()))
    return [ip.uf("split", ku, z3.IntVal(i)) for i in range(n)]


@model("jax.random.PRNGKey", "jax.random.key")
def _prngkey(ip, seed):
    return ip.uf("PRNGKey", ip.to_z3_any(seed))


@model("jax.random.normal")
def _normal(ip, key, shape=(), *a, **k):
    use_key(ip, key)
    return ip.uf("normal", ip.to_U(key), ip.to_U(shape))


@model("jax.random.categorical")
def _categorical(ip, key, logits, *a, **k):
    use_key(ip, key)
    return ip.uf("categorical", ip.to_U(key), ip.to_U(logits))


@model("jax.random.gamma")
def _gamma(ip, key, a, *rest, **k):
    use_key(ip, key)
    return ip.uf("gamma", ip.to_U(key), ip.to_z3_any(a))


@model("jax.random.permutation")
def _permutation(ip, key, x, *a, **k):
    use_key(ip, key)
    return ip.uf("permutation", ip.to_U(key), ip.to_z3_any(x))


@model("jax.jit")
def _jit(ip, f=None, **kw):
    """A-JIT: jax.jit preserves values."""
    if f is None:
        return PyFn(lambda ip2, g: g, "jit-identity")
    return f


DTYPE_OF = z3.Function("dtype_of", U, U)
CAST = z3.Function("cast_to_dtype", U, U, U)


@model("jax.numpy.array", "jax.numpy.asarray", "numpy.array", "numpy.asarray")
def _array(ip, x, *a, **k):
    d = k.get("dtype", a[0] if a else None)
    if d is None:
        return x
    if is_z3(x) and x.sort() in (U, z3.RealSort()) and not (is_z3(d) and d.sort() == U):
        from .core import LibRef
        nm = d.dotted if isinstance(d, LibRef) else d if isinstance(d, str) else None
        if nm is not None:  # a CONCRETE dtype (jnp.uint8, "int32", ...) applied to an array of unknown dtype: a named dtype constant
            d = z3.Const("dtype:" + nm.split(".")[-1], U)
    if is_z3(x) and x.sort() == U and is_z3(d) and d.sort() == U:
        # a cast is the identity when the value already has that dtype; otherwise some other array (truncation, rounding, widening, wrap-around)
        r = CAST(x, d)
        ip.ctx.assume(z3.Implies(d == DTYPE_OF(x), r == x))
        return r
    if is_z3(d) and d.sort() == U and ((is_z3(x) and x.sort() == z3.RealSort()) or (isinstance(x, float) and x != int(x))):
        # a REAL scalar cast to the dtype of some array: value-preserving for a floating-point dtype (A-REAL), truncation / wrap-around for an integer
        # or boolean one - and what kind of dtype an arbitrary array has is not known
        nm = str(d)
        if nm.startswith("dtype:") and any(nm[6:].startswith(p_) for p_ in ("float", "bfloat", "double", "single", "half", "complex")):
            return x
        r = z3.Function("cast_real_to_dtype", z3.RealSort(), U, z3.RealSort())(to_sort(x, z3.RealSort()), d)
        if not nm.startswith("dtype:"):
            ip.ctx.assume(z3.Implies(IS_FLOAT_DTYPE(d), r == to_sort(x, z3.RealSort())))
        return r
    return x  # integers and python scalars into a float dtype: value-preserving conversion (A-REAL)


IS_FLOAT_DTYPE = z3.Function("is_floating_dtype", U, z3.BoolSort())


@model("jax.numpy.promote_types", "numpy.promote_types")
def _promote_types(ip, a, b):
    """T: the promoted type of two dtypes is some dtype (uninterpreted; float constants of it stay symbolic positive reals)"""
    return ip.uf("promote_types", ip.to_U(a), ip.to_U(b))


@model("jax.numpy.result_type", "numpy.result_type")
def _result_type(ip, *xs):
    if len(xs) == 1 and is_z3(xs[0]) and xs[0].sort() == U:
        return DTYPE_OF(xs[0])
    raise Unsupported("result_type")


# ---------------------------------------------------------------------- arrays


class SliceView:
    """view arr[start : start+size] of a symbolic 1-d array (SSeq scalar)"""

    def __init__(self, seq, start, size):
        self.seq, self.start, self.size = seq, start, size


@model("jax.lax.dynamic_slice")
def _dynamic_slice(ip, operand, start_indices, slice_sizes):
    """jax.lax.dynamic_slice on a 1-d array: negative starts are normalised (+n), then the start is
    clamped into [0, n - size] (checked natively: start -2, n 5, size 3 -> start 2)."""
    from .core import SSeq

    if not isinstance(operand, SSeq) or operand.fields is not None:
        raise Unsupported("dynamic_slice on non-symbolic array")
    (start,), (size,) = start_indices, slice_sizes
    n = operand.length
    start = to_sort(start, z3.IntSort())
    size = to_sort(size, z3.IntSort())
    norm = z3.If(start < 0, start + n, start)
    hi = n - size
    clamped = z3.If(norm < 0, z3.IntVal(0), z3.If(norm > hi, hi, norm))
    return SliceView(operand, clamped, size)


def _minwin(view):
    arr = view.seq.arrays[None]
    f = z3.Function("minwin", arr.sort(), z3.IntSort(), z3.IntSort(), arr.sort().range())
    return f(arr, view.start, view.size)


def _argminwin(view):
    arr = view.seq.arrays[None]
    f = z3.Function("argminwin", arr.sort(), z3.IntSort(), z3.IntSort(), z3.IntSort())
    return f(arr, view.start, view.size)


@model("jax.numpy.min", "numpy.min")
def _jmin(ip, x, *a, **k):
    if isinstance(x, SliceView):
        ip.ctx.notes.append("jnp.min over a window is the uninterpreted minwin(array, start, size): only the window indices are decided")
        return _minwin(x)
    if isinstance(x, (list, tuple)):
        r = ip.to_z3_any(x[0])
        for y in x[1:]:
            y = ip.to_z3_any(y)
            r = z3.If(y < r, y, r)
        return r
    raise Unsupported("jnp.min")


@model("jax.numpy.max", "numpy.max")
def _jmax(ip, x, *a, **k):
    if isinstance(x, (list, tuple)):
        r = ip.to_z3_any(x[0])
        for y in x[1:]:
            y = ip.to_z3_any(y)
            r = z3.If(y > r, y, r)
        return r
    raise Unsupported("jnp.max")


@model("jax.numpy.argmin", "numpy.argmin")
def _jargmin(ip, x, *a, **k):
    if isinstance(x, SliceView):
        r = _argminwin(x)
        ip.ctx.assume(z3.And(r >= 0, r < x.size))
        ip.ctx.notes.append("jnp.argmin over a window is the uninterpreted argminwin(array, start, size) in [0, size)")
        return r
    raise Unsupported("jnp.argmin")


@model("jax.numpy.array_equal", "numpy.array_equal")
def _array_equal(ip, a, b, equal_nan=False):
    """True iff the two arrays have the same shape and entries: for opaque arrays, equality of the terms (either answer possible unless implied)"""
    if is_z3(a) and is_z3(b) and a.sort() == b.sort():
        return a == b
    if not is_z3(a) and not is_z3(b) and isinstance(a, (int, float, bool)) and isinstance(b, (int, float, bool)):
        return a == b
    raise Unsupported("array_equal")


@model("jax.numpy.isclose", "numpy.isclose")
def _isclose(ip, a, b, rtol=1e-05, atol=1e-08, equal_nan=False):
    """numpy semantics: |a - b| <= atol + rtol * |b|, or a == b (equal infinities); NaN is close to nothing (equal_nan=False)"""
    if equal_nan:
        raise Unsupported("isclose(equal_nan=True)")
    diff = _jabs(ip, ip.binop("Sub", a, b))
    bound = ip.binop("Add", atol, ip.binop("Mult", rtol, _jabs(ip, b)))
    le, eq = ip.compare("LtE", diff, bound), ip.compare("Eq", a, b)
    if isinstance(le, bool) and isinstance(eq, bool):
        return le or eq
    tz = lambda v: z3.BoolVal(v) if isinstance(v, bool) else v  # noqa: E731
    return z3.Or(tz(le), tz(eq))


@model("jax.numpy.abs", "numpy.abs")
def _jabs(ip, x):
    return MODELS["builtins.abs"](ip, x)


def _sliceview_getitem(ip, v, idx):
    if isinstance(v, SliceView):
        i = to_sort(idx, z3.IntSort())
        return z3.Select(v.seq.arrays[None], v.start + i)
    if is_z3(v) and v.sort() == U:
        return ip.uf("getitem", v, ip.to_U(idx) if not (is_z3(idx) and idx.sort() != U) else idx)
    raise Unsupported(f"getitem({v!r}, {idx!r})")


MODELS["getitem"] = _sliceview_getitem


def _u_getslice(ip, v, lo, hi, st):
    if is_z3(v) and v.sort() == U:
        return ip.uf("getslice", v, ip.to_U(("slice", lo, hi, st)))
    raise Unsupported(f"slice of {v!r}")


MODELS["getslice"] = _u_getslice


class AtProxy:
    def __init__(self, arr):
        self.arr = arr


def _zattr_at(ip, v):
    return AtProxy(v)


MODELS["zattr:at"] = _zattr_at


@model("jax.numpy.where", "numpy.where")
def _where(ip, cond, x=None, y=None):
    if x is None or y is None:
        raise Unsupported("one-argument where")
    cb = ip.truth(cond)
    if isinstance(cb, bool):
        return x if cb else y
    a, b = ip.to_z3_any(x), ip.to_z3_any(y)
    if a.sort() != b.sort():
        a, b, _ = ip.numeric_pair(a, b)
    return z3.If(cb, a, b)


@model("jax.numpy.minimum", "numpy.minimum")
def _minimum(ip, a, b):
    x, y, s = ip.numeric_pair(a, b)
    if s == FP32:
        return z3.If(z3.fpIsNaN(x), x, z3.If(z3.fpIsNaN(y), y, z3.If(z3.fpLT(y, x), y, x)))
    return z3.If(y < x, y, x)


@model("jax.numpy.maximum", "numpy.maximum")
def _maximum(ip, a, b):
    x, y, s = ip.numeric_pair(a, b)
    if s == FP32:
        return z3.If(z3.fpIsNaN(x), x, z3.If(z3.fpIsNaN(y), y, z3.If(z3.fpGT(y, x), y, x)))
    return z3.If(y > x, y, x)


def _zattr_name(ip, v):
    """`.name` of an enum-typed symbolic int (only used for log messages)"""
    return ip.uf("enum_name", v)


MODELS["zattr:name"] = _zattr_name


# ---------------------------------------------------------------------- numpy index vectors


class IdxVec:
    """symbolic 1-d integer/bool vector of length n given elementwise: elem(i) -> z3 term"""

    __vecop__ = True

    def __init__(self, n, elem):
        self.n, self.elem = n, elem

    def _bin(self, other, f):
        if isinstance(other, IdxVec):
            return IdxVec(self.n, lambda i: f(self.elem(i), other.elem(i)))
        return IdxVec(self.n, lambda i: f(self.elem(i), other))


def _vec_binop(op):
    import operator as o

    table = {"Add": o.add, "Sub": o.sub, "Mult": o.mul,
             "Mod": lambda a, b: z3.If(b > 0, a % b, -((-a) % (-b))) if is_z3(a) or is_z3(b) else a % b}

    def h(ip, a, b):
        f = table[op]
        if isinstance(a, IdxVec):
            return a._bin(b, lambda x, y: f(x, y))
        if isinstance(b, IdxVec):
            return b._bin(a, lambda y, x: f(x, y))
        raise Unsupported(f"binop {op} on {a!r}, {b!r}")
    return h


for _op in ("Add", "Sub", "Mult", "Mod"):
    MODELS["binop:" + _op] = _vec_binop(_op)


class FilteredIdx:
    """np.arange(n)[mask] / np.arange(start, stop, step): the increasing sequence of i in [0,n) with keep(i)"""

    def __init__(self, n, keep):
        self.n, self.keep = n, keep


@model("numpy.arange")
def _np_arange(ip, *args):
    args = [to_sort(a, z3.IntSort()) for a in args]
    if len(args) == 1:
        return IdxVec(args[0], lambda i: i)
    if len(args) == 3:
        start, stop, step = args
        ip.ctx.notes.append("np.arange(start, stop, step) with step > 0: the i in [0, stop) with i >= start and (i - start) % step == 0")
        ip.ctx.assume(step > 0)
        return FilteredIdx(stop, lambda i: z3.And(i >= start, (i - start) % step == 0))
    raise Unsupported("np.arange with 2 arguments")


def _s_getitem(ip, idx):
    return idx


MODELS["const:numpy.s_"] = lambda ip: PyObj("np.s_", __getitem__=PyFn(_s_getitem, "np.s_[]"))


def vec_len(ip, x):
    if isinstance(x, FilteredIdx):
        c = ip.ctx
        n = c.fresh("n_kept", z3.IntSort())
        i = z3.Int("__fi")
        c.assume(n >= 0)
        c.assume((n > 0) == z3.Exists([i], z3.And(i >= 0, i < x.n, x.keep(i))))
        return n
    if isinstance(x, IdxVec):
        return x.n
    if is_z3(x) and x.sort() == U:
        return ip.uf("len", x, sort=z3.IntSort())
    raise Unsupported(f"len({x!r})")


MODELS["len"] = vec_len

_prev_getitem = MODELS["getitem"]


def _getitem2(ip, v, idx):
    if isinstance(v, IdxVec) and isinstance(idx, IdxVec):
        # boolean-mask selection from arange: valid when v is the identity vector
        i0 = z3.Int("__id")
        if not z3.is_true(z3.simplify(v.elem(i0) == i0)):
            raise Unsupported("mask selection on non-arange vector")
        return FilteredIdx(v.n, lambda i: ip.ctx.as_bool(idx.elem(i)))
    if isinstance(v, PyObj) and "__getitem__" in v.attrs:
        return ip.call(v.attrs["__getitem__"], [idx], {})
    return _prev_getitem(ip, v, idx)


MODELS["getitem"] = _getitem2


# ---------------------------------------------------------------------- small concrete-length vectors


class CVec(list):
    """vector of known length with symbolic entries; arithmetic / comparisons are elementwise (numpy broadcasting with scalars)"""

    __cvec__ = True

    @property
    def shape(self):
        return (len(self),)


def cvec_elementwise(ip, op, a, b):
    la = a if isinstance(a, CVec) else None
    lb = b if isinstance(b, CVec) else None
    n = len(la if la is not None else lb)
    out = CVec()
    for i in range(n):
        x = la[i] if la is not None else a
        y = lb[i] if lb is not None else b
        out.append(op(x, y))
    return out


def _cvec_binop(op):
    prev = MODELS.get("binop:" + op)

    def h(ip, a, b):
        if isinstance(a, CVec) or isinstance(b, CVec):
            # array semantics: an entry divided by zero is some unspecified value, not a ZeroDivisionError (jnp yields inf / nan there)
            ip.array_division = getattr(ip, "array_division", 0) + 1
            try:
                return cvec_elementwise(ip, lambda x, y: ip.binop(op, x, y), a, b)
            finally:
                ip.array_division -= 1
        if prev:
            return prev(ip, a, b)
        raise Unsupported(f"binop {op}")
    return h


for _op in ("Add", "Sub", "Mult", "Div", "Mod"):
    MODELS["binop:" + _op] = _cvec_binop(_op)

_prev_where = MODELS["jax.numpy.where"]


def _where_vec(ip, cond, x=None, y=None):
    if isinstance(cond, CVec):
        out = CVec()
        for i, cb in enumerate(cond):
            out.append(_prev_where(ip, cb, x[i] if isinstance(x, CVec) else x, y[i] if isinstance(y, CVec) else y))
        return out
    return _prev_where(ip, cond, x, y)


MODELS["jax.numpy.where"] = _where_vec
MODELS["numpy.where"] = _where_vec

MODELS["jax.numpy.log1p"] = MODELS["numpy.log1p"] = lambda ip, x: MODELS["jax.numpy.log"](ip, ip.binop("Add", 1, x))  # log1p(x) = log(1 + x) over the reals
_prev_log = MODELS["jax.numpy.log"]
MODELS["jax.numpy.log"] = lambda ip, x: CVec([_prev_log(ip, e) for e in x]) if isinstance(x, CVec) else _prev_log(ip, x)
_prev_sqrt = MODELS["jax.numpy.sqrt"]
MODELS["jax.numpy.sqrt"] = lambda ip, x: CVec([_prev_sqrt(ip, e) for e in x]) if isinstance(x, CVec) else _prev_sqrt(ip, x)


def _jnp_sum(ip, x, axis=None, **kw):
    if isinstance(x, CVec):
        acc = None
        for e in x:
            e = to_sort(e, z3.IntSort()) if is_z3(e) and z3.is_bool(e) else (int(e) if isinstance(e, bool) else e)
            acc = e if acc is None else ip.binop("Add", acc, e)
        return acc if acc is not None else 0
    h = MODELS.get("jax.numpy.sum:fallback")
    if h:
        return h(ip, x, axis=axis, **kw)
    raise Unsupported("jnp.sum")


MODELS["jax.numpy.sum"] = _jnp_sum


@model("jax.lax.fori_loop")
def _fori(ip, lower, upper, body_fun, init_val):
    """A-LOOP: fori_loop(lo, hi, f, x) = f(hi-1, ... f(lo, x)) for concrete bounds"""
    lo, hi = ip.conc_int(lower), ip.conc_int(upper)
    if lo is None or hi is None:
        raise Unsupported("fori_loop with symbolic bounds")
    x = init_val
    for i in range(lo, hi):
        x = ip.call(body_fun, [i, x], {})
    return x


def _logical(op):
    def h(ip, a, b=None):
        def one(x, y=None):
            bx = ip.truth(x)
            bx = z3.BoolVal(bx) if isinstance(bx, bool) else bx
            if op == "not":
                return z3.Not(bx)
            by = ip.truth(y)
            by = z3.BoolVal(by) if isinstance(by, bool) else by
            return z3.And(bx, by) if op == "and" else z3.Or(bx, by)
        if isinstance(a, CVec) or isinstance(b, CVec):
            if op == "not":
                return CVec([one(x) for x in a])
            return cvec_elementwise(ip, one, a, b)
        return one(a, b)
    return h


for _n, _o in (("logical_and", "and"), ("logical_or", "or"), ("logical_not", "not")):
    MODELS[f"jax.numpy.{_n}"] = _logical(_o)
    MODELS[f"numpy.{_n}"] = _logical(_o)

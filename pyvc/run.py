"""python -m pyvc.run <PROPERTY|unit-id>... [--timeout-ms N] [--json out] : run proof units."""
import importlib, json, os, pkgutil, sys, time
from multiprocessing import Pool

def load_contracts():
    import contracts
    for m in pkgutil.iter_modules(contracts.__path__):
        importlib.import_module("contracts." + m.name)

def _run(args):
    uid, tmo = args
    from pyvc import unit as U
    load_contracts()
    return U.run_unit(uid, tmo)

def run_units(selectors, timeout_ms=10000, procs=None):
    from pyvc import unit as U
    load_contracts()
    ids = [u for u in U.UNITS if any(u == s or U.UNITS[u].prop == s or u.startswith(s + ".") for s in selectors)]
    procs = procs or min(16, max(1, len(ids)))
    if len(ids) <= 1 or procs == 1:
        return [_run((i, timeout_ms)) for i in ids]
    with Pool(procs) as p:
        return p.map(_run, [(i, timeout_ms) for i in ids], chunksize=1)

if __name__ == "__main__":
    sel = [a for a in sys.argv[1:] if not a.startswith("--")]
    tmo = 10000
    out = None
    for i, a in enumerate(sys.argv):
        if a == "--timeout-ms": tmo = int(sys.argv[i + 1]); sel.remove(sys.argv[i + 1])
        if a == "--json": out = sys.argv[i + 1]; sel.remove(sys.argv[i + 1])
    t0 = time.time()
    res = run_units(sel, tmo)
    for r in res:
        print(f"== {r['unit']}: {r['status']} {r['reason'][:300]} paths={r['paths']} pruned={r['pruned']} gen={r['gen_s']}s solve={r['solver_s']}s")
        for n, o in r["obligations"].items():
            flag = {"proved": "ok ", "refuted": "REF", "unknown": "unk", "undecided": "und"}[o["verdict"]]
            print(f"   [{flag}] {n} x{o['instances']} {o['backend']} {o['solver_s']}s {o['reason'][:100]}")
            if o["verdict"] == "refuted":
                print("        model:", json.dumps(o["model"])[:600])
        for n, ok in r["covers"].items():
            if not ok: print(f"   [VACUOUS] cover {n} unreachable")
    print(f"total {time.time()-t0:.1f}s")
    if out: json.dump(res, open(out, "w"), indent=1)

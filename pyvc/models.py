"""Models of python builtins / stdlib calls (the trusted base of the executor).

Every entry is cross-checked against CPython by pyvc/selftest.py on concrete values.
"""
from __future__ import annotations

import math

import z3

from .core import (
    BoundMethod,
    Closure,
    LibRef,
    Obj,
    Partial,
    PathEnd,
    PyFn,
    PyObj,
    PyRaise,
    RepoClass,
    SSeq,
    U,
    Unsupported,
    is_fp,
    is_z3,
    to_sort,
)

MODELS = {}


def model(*names):
    def deco(f):
        for n in names:
            MODELS[n] = f
        return f

    return deco


# ------------------------------------------------------------------ builtins


@model("builtins.len")
def _len(ip, x):
    if isinstance(x, (list, tuple, dict, str, set, frozenset, range)):
        return len(x)
    if isinstance(x, SSeq):
        return x.length
    if isinstance(x, Obj) and isinstance(x.cls, RepoClass):
        _, m = x.cls.find(ip, "__len__")
        if m is not None:
            return ip.call(BoundMethod(x, m), [], {})
    h = ip.models.get("len")
    if h:
        return h(ip, x)
    raise Unsupported(f"len({x!r})")


@model("builtins.range")
def _range(ip, *args):
    from .interp import SRange

    cs = [ip.conc_int(a) for a in args]
    if all(c is not None for c in cs):
        return list(range(*cs))
    if len(args) == 1:
        return SRange(z3.IntVal(0), to_sort(args[0], z3.IntSort()))
    if len(args) == 2:
        return SRange(to_sort(args[0], z3.IntSort()), to_sort(args[1], z3.IntSort()))
    raise Unsupported("symbolic range with step")


@model("builtins.enumerate")
def _enumerate(ip, xs, start=0):
    return [(i + start, x) for i, x in enumerate(ip.iterate(xs))]


@model("builtins.zip")
def _zip(ip, *xs):
    return [tuple(t) for t in zip(*[ip.iterate(x) for x in xs])]


@model("builtins.tuple")
def _tuple(ip, xs=()):
    return tuple(ip.iterate(xs))


@model("builtins.list")
def _list(ip, xs=()):
    if isinstance(xs, SSeq):
        return xs.copy()
    return list(ip.iterate(xs))


@model("builtins.dict")
def _dict(ip, xs=None, **kw):
    d = {}
    if xs is not None:
        if isinstance(xs, dict):
            d.update(xs)
        elif isinstance(xs, PyObj) and "keys" in xs.attrs and "__getitem__" in xs.attrs:  # S-PY: the mapping protocol (keys() + [])
            for k in ip.iterate(ip.call(xs.attrs["keys"], [], {})):
                d[ip.hashable(k)] = ip.call(xs.attrs["__getitem__"], [k], {})
        else:
            for k, v in ip.iterate(xs):
                d[ip.hashable(k)] = v
    d.update(kw)
    return d


@model("builtins.set", "builtins.frozenset")
def _set(ip, xs=()):
    out = []
    for x in ip.iterate(xs):
        dup = False
        for y in out:
            r = ip.equals(x, y)
            if r is True:
                dup = True
                break
            if r is not False:
                raise Unsupported("set of symbolically-equal elements")
        if not dup:
            out.append(x)
    return SetList(out)


class SetList(list):
    """A set represented as duplicate-free list (elements may be unhashable symbolic)."""

    def add(self, x):
        if x not in self:
            self.append(x)


@model("builtins.isinstance")
def _isinstance(ip, x, cls):
    if isinstance(cls, (tuple, list)):
        rs = [_isinstance(ip, x, c) for c in cls]
        return any(rs)
    if isinstance(cls, RepoClass):
        if isinstance(x, Obj) and isinstance(x.cls, RepoClass):
            return cls in x.cls.mro(ip)
        if isinstance(x, Obj):
            return False
        if isinstance(x, PyObj):
            return cls.name in x.attrs.get("__classes__", ())
        return False
    if isinstance(cls, LibRef):
        n = cls.dotted
        if n == "builtins.int":
            return isinstance(x, int) or (is_z3(x) and x.sort() in (z3.IntSort(), z3.BoolSort()))
        if n == "builtins.bool":
            return isinstance(x, bool) or (is_z3(x) and z3.is_bool(x))
        if n == "builtins.float":
            return isinstance(x, float) or (is_z3(x) and (is_fp(x) or x.sort() == z3.RealSort()))
        if n == "builtins.str":
            from .interp import FmtStr

            return isinstance(x, (str, FmtStr))
        if n == "builtins.dict":
            return isinstance(x, dict)
        if n == "builtins.list":
            return isinstance(x, list)
        if n == "builtins.tuple":
            return isinstance(x, tuple)
        if n == "builtins.type":
            h = ip.models.get("isinstance:builtins.type")
            return h(ip, x) if h else isinstance(x, RepoClass)
        h = ip.models.get("isinstance:" + n)
        if h:
            return h(ip, x)
        if n in ("collections.abc.Container", "typing.Container", "collections.abc.Collection", "collections.abc.Sized"):
            # S-PY: lists, tuples, sets, dicts and strings define __contains__ / __len__; one-shot iterators and generators do not
            from .interp import FmtStr

            if isinstance(x, (list, tuple, set, frozenset, dict, str, FmtStr, SetList)):
                return True
            if isinstance(x, PyObj) and x.name == "iterator":
                return False
        if n in ("collections.abc.Iterator", "collections.abc.Generator", "typing.Iterator"):
            if isinstance(x, (list, tuple, set, frozenset, dict, str, SetList)):
                return False
            if isinstance(x, PyObj) and x.name == "iterator":
                return True
    raise Unsupported(f"isinstance(_, {cls!r})")


@model("builtins.hasattr")
def _hasattr(ip, x, name):
    if is_z3(x):
        if x.sort() != U:
            return False  # python scalars have no array attributes
        if ip.opaque_attr.get(name) or ip.models.get("zattr:" + name):
            return True
    try:
        ip.getattr(x, name)
        return True
    except PyRaise as e:
        if e.cls == "AttributeError":
            return False
        raise


@model("builtins.getattr")
def _getattr(ip, x, name, *default):
    try:
        return ip.getattr(x, name)
    except PyRaise as e:
        if e.cls == "AttributeError" and default:
            return default[0]
        raise


@model("builtins.setattr")
def _setattr(ip, x, name, v):
    ip.setattr(x, name, v)


def _quant_seq(ip, xs, exists):
    j = z3.Int("__qj")
    el = z3.Select(xs.arrays[None], j)
    b = ip.ctx.as_bool(el)
    rng = z3.And(j >= 0, j < xs.length)
    return z3.Exists([j], z3.And(rng, b)) if exists else z3.ForAll([j], z3.Implies(rng, b))


@model("builtins.any")
def _any(ip, xs):
    if isinstance(xs, SSeq) and xs.fields is None:
        return _quant_seq(ip, xs, True)
    for x in ip.iterate(xs):
        if ip.branch_on(x):
            return True
    return False


@model("builtins.all")
def _all(ip, xs):
    if isinstance(xs, SSeq) and xs.fields is None:
        return _quant_seq(ip, xs, False)
    for x in ip.iterate(xs):
        if not ip.branch_on(x):
            return False
    return True


@model("builtins.sum")
def _sum(ip, xs, start=0):
    acc = start
    for x in ip.iterate(xs):
        if isinstance(acc, int) and not isinstance(acc, bool) and acc == 0 and is_z3(x) and x.sort() == U:
            acc = x  # 0 + array = array
        else:
            acc = ip.binop("Add", acc, x)
    return acc


@model("builtins.abs")
def _abs(ip, x):
    if isinstance(x, (int, float)):
        return abs(x)
    if is_fp(x):
        return z3.fpAbs(x)
    if is_z3(x):
        return z3.If(x >= 0, x, -x)
    raise Unsupported("abs")


def _minmax(ip, which, xs, kw):
    """A-PY: max(a, b, ...) / max(iterable) keeps the FIRST extremal element: m = x if x > m else m (min: x < m); numbers only"""
    if "key" in kw:
        raise Unsupported("min/max with key=")
    items = list(ip.iterate(xs[0])) if len(xs) == 1 else list(xs)
    if not items:
        if "default" in kw:
            return kw["default"]
        raise PyRaise("ValueError", (f"{which}() arg is an empty sequence",))
    num = lambda v: (isinstance(v, (int, float)) and not isinstance(v, bool)) or (is_z3(v) and (z3.is_int(v) or z3.is_real(v)))
    if not all(num(v) for v in items):
        raise Unsupported("min/max of non-numeric values")
    m = items[0]
    for x in items[1:]:
        if not is_z3(x) and not is_z3(m):
            m = x if (x > m if which == "max" else x < m) else m
        else:
            srt = z3.RealSort() if any(isinstance(v, float) or (is_z3(v) and z3.is_real(v)) for v in (x, m)) else z3.IntSort()
            a, b = to_sort(x, srt), to_sort(m, srt)
            m = z3.If(a > b if which == "max" else a < b, a, b)
    return m


@model("collections.OrderedDict")
def _ordered_dict(ip, src=(), **kw):
    """collections.OrderedDict: a dict subclass (type(x) is not dict; JAX flattens it in insertion order, a plain dict in sorted-key order)"""
    import collections

    out = collections.OrderedDict()
    if isinstance(src, dict):
        out.update(src)
    else:
        for pair in ip.iterate(src):
            k, v = list(ip.iterate(pair))
            out[k] = v
    out.update(kw)
    return out


@model("builtins.max")
def _max(ip, *xs, **kw):
    return _minmax(ip, "max", xs, kw)


@model("builtins.min")
def _min(ip, *xs, **kw):
    return _minmax(ip, "min", xs, kw)


@model("builtins.int")
def _int(ip, x=0):
    if isinstance(x, (int, bool)):
        return int(x)
    if is_z3(x) and x.sort() == z3.IntSort():
        return x
    if is_z3(x) and z3.is_bool(x):
        return to_sort(x, z3.IntSort())
    if is_z3(x) and x.sort() == z3.RealSort():
        return z3.If(x >= 0, z3.ToInt(x), -z3.ToInt(-x))  # S-PY: int() of a float truncates towards zero
    if isinstance(x, float):
        return int(x)
    raise Unsupported("int()")


@model("builtins.bool")
def _bool(ip, x=False):
    return ip.truth(x)


@model("builtins.float")
def _float(ip, x=0.0):
    return to_sort(x, ip.ctx.float_sort) if is_z3(x) else float(x)


@model("builtins.str", "builtins.repr")
def _str(ip, x=""):
    from .interp import FmtStr

    if isinstance(x, (str, int, float, bool)) or x is None:
        return str(x)
    if isinstance(x, (list, tuple)) and all(isinstance(e, (str, int, float, bool)) or e is None for e in x):
        return str(list(x)) if isinstance(x, list) else str(tuple(x))
    return FmtStr([("v", x, None)])


@model("builtins.type")
def _type(ip, x):
    if isinstance(x, Obj):
        return x.cls
    raise Unsupported("type()")


@model("builtins.sorted")
def _sorted(ip, xs, **kw):
    xs = list(xs) if isinstance(xs, (set, frozenset, SetList)) else ip.iterate(xs)
    if all(isinstance(x, (int, str)) for x in xs) and not kw:
        return sorted(xs)
    raise Unsupported("sorted on symbolic values")


@model("builtins.reversed")
def _reversed(ip, xs):
    return list(reversed(ip.iterate(xs)))


@model("builtins.iter")
def _iter(ip, xs):
    return PyObj("iterator", items=ip.iterate(xs), pos=0)


@model("builtins.next")
def _next(ip, it, *default):
    if isinstance(it, PyObj) and it.name == "iterator":
        if it.attrs["pos"] < len(it.attrs["items"]):
            v = it.attrs["items"][it.attrs["pos"]]
            it.attrs["pos"] += 1
            return v
        if default:
            return default[0]
        raise PyRaise("StopIteration")
    raise Unsupported("next()")


@model("builtins.map")
def _map(ip, f, *xs):
    return [ip.call(f, list(t), {}) for t in zip(*[ip.iterate(x) for x in xs])]


@model("builtins.callable")
def _callable(ip, x):
    return isinstance(x, (Closure, BoundMethod, PyFn, Partial, LibRef, RepoClass))


@model("builtins.print")
def _print(ip, *a, **k):
    return None


@model("builtins.id")
def _id(ip, x):
    return id(x)


# ------------------------------------------------------------------ stdlib


@model("functools.partial")
def _partial(ip, fn, *args, **kwargs):
    return Partial(fn, args, kwargs)


@model("functools.wraps")
def _wraps(ip, fn):
    return PyFn(lambda ip2, g: g, "wraps-identity")


@model("typing.cast")
def _cast(ip, t, v):
    return v


@model("logging.getLogger")
def _get_logger(ip, *a):
    nop = PyFn(lambda ip2, *a, **k: None, "log")
    return PyObj("logger", info=nop, warning=nop, debug=nop, error=nop)


@model("math.gcd")
def _gcd(ip, *xs):
    from .interp import StarSeq

    cs = [None if isinstance(x, StarSeq) else ip.conc_int(x) for x in xs]
    if all(c is not None for c in cs):
        return math.gcd(*cs)
    c = ip.ctx
    g = c.fresh("gcd", z3.IntSort())
    c.assume(g >= 0)
    zeros = []
    for i, x in enumerate(xs):
        if isinstance(x, StarSeq):
            sq = x.seq
            j = z3.Int("__gj")
            el = z3.Select(sq.arrays[None], j)
            c.assume(z3.ForAll([j], z3.Implies(z3.And(j >= 0, j < sq.length), z3.If(g == 0, el == 0, el % g == 0))))
            zeros.append(z3.ForAll([j], z3.Implies(z3.And(j >= 0, j < sq.length), el == 0)))
        else:
            xi = to_sort(x, z3.IntSort())
            c.assume(z3.If(g == 0, xi == 0, xi % g == 0))
            zeros.append(to_sort(x, z3.IntSort()) == 0)
    c.assume((g == 0) == (z3.And(*zeros) if zeros else z3.BoolVal(True)))
    c.notes.append("A-GCD: math.gcd(*xs) = g with g>=0, g==0 iff all xs==0, every x a multiple of g (maximality not used)")
    return g


def deep_copy(ip, x, memo=None):
    """A-PY: copy.deepcopy duplicates the object graph preserving sharing; functions, classes, strings, numbers and
    symbolic terms are shared (immutable)"""
    memo = {} if memo is None else memo
    if id(x) in memo:
        return memo[id(x)]
    if isinstance(x, Obj):
        o = Obj(x.cls, {}, tag=x.tag)
        memo[id(x)] = o
        for k, v in x.f.items():
            o.f[k] = deep_copy(ip, v, memo)
        if hasattr(x, "frozen"):
            o.frozen = x.frozen
        if getattr(x, "partial", False):
            o.partial = True
        return o
    if isinstance(x, list):
        l = type(x)() if type(x) is not list else []
        memo[id(x)] = l
        for v in x:
            list.append(l, deep_copy(ip, v, memo))
        return l
    if isinstance(x, tuple):
        return tuple(deep_copy(ip, v, memo) for v in x)
    if isinstance(x, dict):
        d = {}
        memo[id(x)] = d
        for k, v in x.items():
            d[k] = deep_copy(ip, v, memo)
        return d
    if isinstance(x, PyObj) and "__deepcopy_hook__" in x.attrs:
        o = x.attrs["__deepcopy_hook__"](ip, memo)
        memo[id(x)] = o
        return o
    if isinstance(x, PyFn) and getattr(x, "weak_target", None) is not None:
        # weakref to an object inside the copied graph points to the copy (Node.__getstate__ / __setstate__ re-wrap the referent); a DEAD reference
        # (its referent was collected) stays dead: the copy has no model
        if getattr(x.weak_target, "dead", False):
            return PyFn(lambda ip2: None, "dead-weakref")
        tgt = deep_copy(ip, x.weak_target, memo)
        f = PyFn(lambda ip2: None if getattr(tgt, "dead", False) else tgt, "weakref")
        f.weak_target = tgt
        return f
    return x


@model("copy.deepcopy")
def _deepcopy(ip, x, memo=None):
    """copy.deepcopy(x, memo): a caller-supplied memo (id -> replacement) is honoured like CPython does - including for interned singletons
    (True, False, None, small ints), whose id is shared by EVERY occurrence in the object graph"""
    return deep_copy(ip, x, dict(memo) if isinstance(memo, dict) else None)


@model("copy.copy")
def _copy(ip, x):
    if isinstance(x, Obj):
        o = Obj(x.cls, dict(x.f), tag=x.tag)
        for a in ("dc", "partial", "frozen"):
            if hasattr(x, a):
                setattr(o, a, getattr(x, a))
        return o
    if isinstance(x, dict):
        return dict(x)
    if isinstance(x, list):
        return list(x)
    if is_z3(x) or isinstance(x, (int, float, str, tuple)):
        return x
    raise Unsupported("copy.copy")


@model("dataclasses.replace")
def _dc_replace(ip, obj, **changes):
    """A-PY dataclasses.replace: a NEW instance built by the class constructor from the init fields (changed ones replaced);
    fields declared init=False cannot be named and come back with their constructor-time (default / __post_init__) value."""
    meta = getattr(obj, "dc", None)
    if not isinstance(obj, Obj) or meta is None:
        raise Unsupported("dataclasses.replace on an object without dataclass metadata")
    for k in changes:
        if k in meta["noinit"]:
            raise PyRaise("ValueError", (f"field {k} is declared with init=False, it cannot be specified with replace()",))
        if k not in meta["init"]:
            raise PyRaise("TypeError", (f"unexpected keyword argument {k}",))
    o = Obj(obj.cls, {k: changes.get(k, obj.f[k]) for k in meta["init"]}, tag=obj.tag)
    for k, dflt in meta["noinit"].items():
        o.f[k] = dflt(ip, o) if callable(dflt) else dflt
    o.dc = meta
    return o


@model("dataclasses.asdict")
def _dc_asdict(ip, obj, dict_factory=None):
    """A-PY dataclasses.asdict: a dict of ALL fields, RECURSIVELY - dataclass instances inside field values (also inside lists, tuples, dicts)
    are converted to dicts as well; other values are deep-copied (symbolic terms are immutable and shared)"""
    def conv(x):
        if isinstance(x, Obj) and getattr(x, "dc", None) is not None:
            return {k: conv(x.f[k]) for k in list(x.dc["init"]) + list(x.dc["noinit"])}
        if isinstance(x, list):
            return [conv(v) for v in x]
        if isinstance(x, tuple):
            return tuple(conv(v) for v in x)
        if isinstance(x, dict):
            return {k: conv(v) for k, v in x.items()}
        return x
    if not isinstance(obj, Obj) or getattr(obj, "dc", None) is None:
        raise Unsupported("dataclasses.asdict on an object without dataclass metadata")
    return conv(obj)


@model("dataclasses.fields")
def _dc_fields(ip, obj):
    meta = getattr(obj, "dc", None)
    if meta is None:
        raise Unsupported("dataclasses.fields on an object without dataclass metadata")
    return tuple(PyObj("Field", name=k, init=k in meta["init"]) for k in list(meta["init"]) + list(meta["noinit"]))


@model("itertools.chain")
def _chain(ip, *xs):
    out = []
    for x in xs:
        out.extend(ip.iterate(x))
    return out


@model("dict.fromkeys", "builtins.dict.fromkeys")
def _fromkeys(ip, xs, value=None):
    out = {}
    keys = []
    for x in ip.iterate(xs):
        if not any(y is x for y in keys):
            keys.append(x)
    return IdDict(keys, value)


class IdDict(dict):
    """dict keyed by object identity, insertion ordered (for dict.fromkeys over nodes)"""

    def __init__(self, keys, value=None):
        super().__init__()
        self._keys = list(keys)
        for k in keys:
            super().__setitem__(id(k), value)

    def keys(self):
        return list(self._keys)

    def __iter__(self):
        return iter(self._keys)

    def __len__(self):
        return len(self._keys)


# ------------------------------------------------------------------ container methods


def seq_index(ip, seq, x):
    """list.index with python's == semantics (dataclasses compare by value): the first position whose element equals x"""
    for i, y in enumerate(seq):
        r = y is x or ip.equals(y, x)
        if r is True:
            return i
        if r is not False and ip.ctx.branch(r, "index-eq"):
            return i
    raise PyRaise("ValueError", ("not in list",))


def container_method(ip, v, name):
    if isinstance(v, list):
        if name == "append":
            return PyFn(lambda ip2, x: v.append(x), "list.append")
        if name == "extend":
            return PyFn(lambda ip2, xs: v.extend(ip2.iterate(xs)), "list.extend")
        if name == "copy":
            return PyFn(lambda ip2: SetList(list(v)) if isinstance(v, SetList) else list(v), "list.copy")
        if name == "pop":
            def pop(ip2, i=-1):
                if not v:
                    raise PyRaise("IndexError")
                return v.pop(i)
            return PyFn(pop, "list.pop")
        if name == "clear":
            return PyFn(lambda ip2: v.clear(), "list.clear")
        if name == "add" and hasattr(v, "add"):
            def add(ip2, x):
                for y in v:
                    r = ip2.equals(x, y)
                    if r is True:
                        return None
                    if r is not False:
                        raise Unsupported("set.add with symbolic equality")
                v.append(x)
            return PyFn(add, "set.add")
        if name == "index":
            return PyFn(lambda ip2, x: seq_index(ip2, v, x), "list.index")
        if name == "union" and isinstance(v, SetList):
            def union(ip2, *others):
                out = SetList(list(v))
                for o in others:
                    for x in ip2.iterate(o):
                        if not any(x is y or (not isinstance(x, (Obj, PyObj)) and ip2.equals(x, y) is True) for y in out):
                            out.append(x)
                return out
            return PyFn(union, "set.union")
        if name in ("update", "discard", "remove", "difference", "intersection", "issubset", "isdisjoint", "copy") and isinstance(v, SetList):
            same = lambda ip2, x, y: x is y or (not isinstance(x, (Obj, PyObj)) and ip2.equals(x, y) is True)  # noqa: E731

            def decided(ip2, x, y):
                if x is y:
                    return True
                if isinstance(x, (Obj, PyObj)) or isinstance(y, (Obj, PyObj)):
                    return False
                r = ip2.equals(x, y)
                if r is True or r is False:
                    return r
                raise Unsupported(f"set.{name} with symbolic equality")

            if name == "update":
                def update(ip2, *others):
                    for o in others:
                        for x in ip2.iterate(o):
                            if not any(decided(ip2, x, y) for y in v):
                                v.append(x)
                return PyFn(update, "set.update")
            if name in ("discard", "remove"):
                def discard(ip2, x):
                    for i, y in enumerate(v):
                        if decided(ip2, x, y):
                            del v[i]
                            return None
                    if name == "remove":
                        raise PyRaise("KeyError", (x,))
                return PyFn(discard, "set." + name)
            if name == "difference":
                return PyFn(lambda ip2, *others: SetList([x for x in v if not any(decided(ip2, x, y) for o in others for y in ip2.iterate(o))]), "set.difference")
            if name == "intersection":
                return PyFn(lambda ip2, *others: SetList([x for x in v if all(any(decided(ip2, x, y) for y in ip2.iterate(o)) for o in others)]), "set.intersection")
            if name == "isdisjoint":
                return PyFn(lambda ip2, other: not any(decided(ip2, x, y) for y in ip2.iterate(other) for x in v), "set.isdisjoint")
            if name == "issubset":
                return PyFn(lambda ip2, other: all(any(decided(ip2, x, y) for y in ip2.iterate(other)) for x in v), "set.issubset")
            if name == "copy":
                return PyFn(lambda ip2: SetList(list(v)), "set.copy")
    if isinstance(v, dict):
        if name == "items":
            return PyFn(lambda ip2: [(k, v[k if not hasattr(v, "_keys") else id(k)]) for k in (v.keys())], "dict.items")
        if name == "keys":
            return PyFn(lambda ip2: list(v.keys()), "dict.keys")
        if name == "values":
            return PyFn(lambda ip2: [v[k if not hasattr(v, "_keys") else id(k)] for k in v.keys()], "dict.values")
        if name == "get":
            return PyFn(lambda ip2, k, d=None: v.get(ip2.hashable(k), d), "dict.get")
        if name == "update":
            def upd(ip2, other=None, **kw):
                if other is not None:
                    v.update(other if isinstance(other, dict) else {ip2.hashable(k): x for k, x in ip2.iterate(other)})
                v.update(kw)
            return PyFn(upd, "dict.update")
        if name == "copy":
            return PyFn(lambda ip2: dict(v), "dict.copy")
        if name == "clear":
            return PyFn(lambda ip2: v.clear(), "dict.clear")
        if name == "pop":
            def dpop(ip2, k, *d):
                k = ip2.hashable(k)
                if k in v:
                    return v.pop(k)
                if d:
                    return d[0]
                raise PyRaise("KeyError", (k,))
            return PyFn(dpop, "dict.pop")
        if name == "setdefault":
            return PyFn(lambda ip2, k, d=None: v.setdefault(ip2.hashable(k), d), "dict.setdefault")
    if isinstance(v, str):
        if name in ("startswith", "endswith", "join", "format", "lower", "upper", "split", "strip"):
            def sm(ip2, *a):
                if all(isinstance(x, (str, int, tuple, list)) for x in a):
                    return getattr(v, name)(*a)
                raise Unsupported(f"str.{name} on symbolic")
            return PyFn(sm, "str." + name)
    if isinstance(v, tuple):
        if name == "index":
            return PyFn(lambda ip2, x: seq_index(ip2, v, x), "tuple.index")
        if name == "count":
            return PyFn(lambda ip2, x: v.count(x), "tuple.count")
    raise Unsupported(f"method {type(v).__name__}.{name}")


@model("typing.NewType")
def _newtype(ip, name, tp):
    return PyFn(lambda ip2, x: x, f"NewType:{name}")


@model("typing.TypeVar")
def _typevar(ip, *a, **k):
    return None


@model("types.MappingProxyType")
def _mapping_proxy(ip, d):
    """read-only view: reads go to the underlying dict"""
    return d


@model("weakref.ref")
def _weakref(ip, o):
    """S4: weakref.ref(m)() is m while the model is alive"""
    f = PyFn(lambda ip2: None if getattr(o, "dead", False) else o, "weakref")
    f.weak_target = o
    return f


@model("math.ceil")
def _ceil(ip, x):
    if isinstance(x, (int, float)):
        return math.ceil(x)
    if is_z3(x) and x.sort() == z3.IntSort():
        return x
    if is_z3(x) and x.sort() == z3.RealSort():
        return -z3.ToInt(-x)
    raise Unsupported("math.ceil")


@model("math.floor")
def _floor(ip, x):
    if isinstance(x, (int, float)):
        return math.floor(x)
    if is_z3(x) and x.sort() == z3.IntSort():
        return x
    if is_z3(x) and x.sort() == z3.RealSort():
        return z3.ToInt(x)
    raise Unsupported("math.floor")


def _re_obj(ip, pattern, flags=0):
    """S-PY: the `re` module on CONCRETE strings (pattern and subject): the real implementation is used; symbolic strings are outside the subset"""
    import re as _re

    if not isinstance(pattern, str) or not isinstance(flags, int):
        raise Unsupported("re with a symbolic pattern")
    rx = _re.compile(pattern, flags)

    def wrap(fn):
        def f(ip_, s, *a):
            if not isinstance(s, str) or any(not isinstance(x, (int, str)) for x in a):
                raise Unsupported("re on a symbolic string")
            m = fn(s, *a)
            if m is None or isinstance(m, (str, list, tuple)):
                return m
            return PyObj("re.Match", group=PyFn(lambda ip2, *g: m.group(*g), "group"), groups=PyFn(lambda ip2: m.groups(), "groups"), start=PyFn(lambda ip2, *g: m.start(*g), "start"),
                         end=PyFn(lambda ip2, *g: m.end(*g), "end"), span=PyFn(lambda ip2, *g: m.span(*g), "span"))
        return f
    return PyObj("re.Pattern", pattern=pattern, search=PyFn(wrap(rx.search), "search"), match=PyFn(wrap(rx.match), "match"), fullmatch=PyFn(wrap(rx.fullmatch), "fullmatch"),
                 findall=PyFn(wrap(rx.findall), "findall"), sub=PyFn(lambda ip_, repl, s_, count=0: rx.sub(repl, s_, count) if isinstance(repl, str) and isinstance(s_, str) else (_ for _ in ()).throw(Unsupported("re.sub")), "sub"))


MODELS["re.compile"] = _re_obj
for _nm in ("search", "match", "fullmatch", "findall"):
    MODELS[f"re.{_nm}"] = (lambda nm: lambda ip, pattern, s, flags=0: ip.call(_re_obj(ip, pattern, flags).attrs[nm], [s], {}))(_nm)
MODELS["re.sub"] = lambda ip, pattern, repl, s, count=0, flags=0: ip.call(_re_obj(ip, pattern, flags).attrs["sub"], [repl, s, count], {})

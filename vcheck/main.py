"""Check driver:  python -m vcheck.main <ID> --tier quick|thorough

1. runs every proof unit of the property (pyvc: VCs from the current /repo source, z3/cvc5);
2. runs the property's bounded stand-in (rtc: the same claims evaluated natively on the real
   functions over an explicitly bounded input space) - labelled bounded, never counted as proved;
3. replays solver counter-models natively where a replay is implemented;
4. filters known findings, writes evidence/<ID>.json, prints VIOLATION / KNOWN-FINDING lines.

Exit codes: 0 property held on everything explored; 1 violation (VIOLATION line) or broken check
infrastructure (CHECK-BROKEN line, no VIOLATION line).
"""
from __future__ import annotations

import fnmatch
import importlib
import json
import os
import re
import sys
import time
import traceback

ROOT = os.path.dirname(os.path.dirname(os.path.abspath(__file__)))
# development aid (tools/seed_recheck.sh): evidence and replay files of runs against scratch copies go elsewhere, so that
# /verif/evidence always describes a run against /repo itself
OUT = os.environ.get("VERIF_OUT", ROOT)


def load_json(path, default):
    try:
        with open(path) as f:
            return json.load(f)
    except FileNotFoundError:
        return default


def sanitize(s):
    return re.sub(r"[^A-Za-z0-9_.-]+", "_", s)[:120]


def main(argv):
    pid = argv[1]
    tier = os.environ.get("VERIF_TIER", "quick")
    if "--tier" in argv:
        tier = argv[argv.index("--tier") + 1]
    seed = int(os.environ.get("VERIF_SEED", "0"))
    update_baseline = "--update-baseline" in argv
    t0 = time.time()
    os.makedirs(os.path.join(OUT, "evidence"), exist_ok=True)
    os.makedirs(os.environ.setdefault("VERIF_TMP", "/var/tmp"), exist_ok=True)

    from pyvc import run as pyrun
    from pyvc import unit as U

    os.environ["VERIF_TIER"] = tier
    timeout_ms = 10000 if tier == "quick" else 60000
    broken = []
    try:
        results = pyrun.run_units([pid], timeout_ms)
    except Exception as e:  # infrastructure
        results = []
        broken.append(f"pyvc crashed: {type(e).__name__}: {e}")

    baseline_all = load_json(os.path.join(ROOT, "expected_obligations.json"), {})
    baseline = set(baseline_all.get(pid, []))

    proved, refuted, undecided = [], [], []
    harness_fields_base = baseline_all.get("__harness_fields__", {}).get(pid, {})
    harness_fields_now = {}
    seen = set()
    functions = {}
    trusted, assumptions = set(), set()
    solver_s = 0.0
    backends = {}
    samples = []
    vacuous = []
    unreached = []
    unit_status = {}
    executed = set()
    for r in results:
        executed.update(r.get("inlined", []))
        unit_status[r["unit"]] = {"status": r["status"], "reason": r["reason"][:500], "paths": r["paths"],
                                  "gen_s": r["gen_s"], "solver_s": r["solver_s"]}
        solver_s += r["solver_s"]
        for f in r["functions"]:
            functions[f["function"]] = f
        trusted.update("model:" + m for m in r["models_used"])
        trusted.update("assumed-contract:" + m for m in r["summaries_used"])
        assumptions.update(r["assumptions"])
        for d in r["dropped"]:
            assumptions.add("dropped (effect-free logging): " + d)
        if r["status"] == "error":
            # an exception inside the executor while it interprets (possibly changed) source is a tool limit: the unit's obligations are
            # undecided (they are missing against the baseline below) - never a violation, and not a broken check either
            assumptions.add(f"unit {r['unit']}: executor exception, obligations undecided: {r['reason'][:200]}")
        harness_fields_now[r["unit"]] = list(r.get("harness_only_fields", []))
        # attribute names this unit's harness uses that occur NOWHERE in the source at hand, although they did on the source the baseline was recorded
        # for: the representation the harness prepares / inspects is no longer the code's. What such a unit refutes is undecided, not a violation
        stale_repr = sorted(set(r.get("harness_only_fields", [])) - set(harness_fields_base[r["unit"]])) if r["unit"] in harness_fields_base else []
        for name, o in r["obligations"].items():
            full = f"{r['unit']}::{name}"
            seen.add(full)
            if stale_repr and o["verdict"] == "refuted":
                o = dict(o, verdict="undecided", reason=f"representation changed: the unit's harness refers to attribute(s) {stale_repr} that the source no longer has")
            for b in o["backend"]:
                backends[b] = backends.get(b, 0) + 1
            if o["verdict"] == "proved":
                proved.append(full)
                if len(samples) < 4 and o["smt_head"]:
                    samples.append({"obligation": full, "verdict": "proved", "backend": o["backend"], "smt_head": o["smt_head"][:400]})
            elif o["verdict"] == "refuted":
                refuted.append((full, r["unit"], name, o))
            else:
                undecided.append((full, o["verdict"], o["reason"] or r["reason"]))
        for cname, ok in r["covers"].items():
            if not ok and r["status"] == "ok":
                # only precondition covers are vacuity guards; path covers depend on the code's shape
                (vacuous if cname.startswith("pre") else unreached).append(f"{r['unit']}::cover.{cname}")
    for full in sorted(baseline - seen):
        unit_id = full.split("::")[0]
        why = unit_status.get(unit_id, {}).get("reason", "unit missing")
        undecided.append((full, "missing", why))
    def src_digest():
        import hashlib
        h = hashlib.sha256()
        root = os.path.join(os.environ.get("VERIF_REPO", "/repo"), "liesel")
        for d, _dirs, files in sorted(os.walk(root)):
            for fn in sorted(files):
                if fn.endswith(".py"):
                    with open(os.path.join(d, fn), "rb") as fh:
                        h.update(fn.encode() + b"\0" + fh.read())
        return h.hexdigest()

    if update_baseline:
        # a unit that did not run to completion on this tree keeps its recorded obligations (they show up as missing): updating the baseline must never
        # silently drop what a broken unit used to prove
        not_ok = {u_ for u_, st_ in unit_status.items() if st_.get("status") != "ok"}
        kept = {full for full in baseline if full.split("::")[0] in not_ok}
        for u_ in sorted(not_ok):
            print(f"BASELINE-WARNING unit {u_} status={unit_status[u_].get('status')}: {str(unit_status[u_].get('reason'))[:160]}")
        baseline_all[pid] = sorted(seen | kept)
        baseline_all.setdefault("__source_digest__", {})[pid] = src_digest()
        baseline_all.setdefault("__harness_fields__", {})[pid] = {u_: v_ for u_, v_ in sorted(harness_fields_now.items())}
        with open(os.path.join(ROOT, "expected_obligations.json"), "w") as f:
            json.dump(baseline_all, f, indent=1, sort_keys=True)
        baseline = set(seen)
    if vacuous:
        broken.append("vacuous preconditions (cover unreachable): " + ", ".join(vacuous))
    if results and not seen:
        # vacuity guard: on the source the baseline was recorded for, a run that generates no obligation is a broken checker; on CHANGED source
        # every unit may legitimately leave the subset - then everything is undecided (listed above as missing), which is not a violation
        if not baseline or baseline_all.get("__source_digest__", {}).get(pid) in (None, src_digest()):
            broken.append("zero obligations generated")

    # ---- bounded stand-in + replay
    rtc = None
    bounded = None
    try:
        rtc = importlib.import_module(f"rtc.{pid.lower()}")
    except ModuleNotFoundError as e:
        if f"rtc.{pid.lower()}" not in str(e):
            broken.append(f"rtc import failed: {e}")
    except Exception as e:
        broken.append(f"rtc import failed: {type(e).__name__}: {e}")
    violations = []  # dicts: sig, what, input, source
    if rtc is not None and hasattr(rtc, "bounded"):
        try:
            bounded = rtc.bounded(tier, seed)
            for v in bounded.get("violations", []):
                v = dict(v)
                v["source"] = "bounded(native)"
                violations.append(v)
        except Exception as e:
            tb = traceback.extract_tb(e.__traceback__)
            inner = tb[-1] if tb else None
            repo_root = os.environ.get("VERIF_REPO", "/repo")
            if inner is not None and os.path.realpath(inner.filename).startswith(os.path.realpath(repo_root) + os.sep):
                # the REAL code raised on a scenario that runs cleanly on the unchanged tree: a native failure
                where = f"{os.path.relpath(inner.filename, repo_root)}:{inner.name}"
                violations.append({"sig": f"native::exception::{type(e).__name__}@{where}", "source": "bounded(native)",
                                   "what": f"the real code raised {type(e).__name__}: {str(e)[:300]} at {where}:{inner.lineno} during the bounded stand-in",
                                   "input": {"traceback": traceback.format_exc()[-1500:]}})
                bounded = {"evaluations": 1, "distinct_nontrivial": 0, "rule": "bounded stand-in aborted by an exception raised inside the code under test", "samples": [], "exhaustive": False}
            else:
                broken.append(f"bounded stand-in crashed: {type(e).__name__}: {e}\n{traceback.format_exc()[-1200:]}")
    kf = load_json(os.path.join(ROOT, "known_findings.json"), {"findings": []})

    def is_known(v):
        return any(k.get("property") == pid and k.get("status") == "open" and any(fnmatch.fnmatch(v["sig"], p) for p in k.get("sig_patterns", [])) for k in kf.get("findings", []))

    structural_undecided = []
    for full, unit_id, name, o in refuted:
        rep = None
        if rtc is not None and hasattr(rtc, "replay"):
            try:
                rep = rtc.replay(unit_id, name, o.get("model") or {})
            except Exception as e:
                rep = None
                assumptions.add(f"replay of {full} crashed: {type(e).__name__}: {e}")
        v = {"sig": f"obligation::{full}", "what": f"obligation {full} refuted by {o['backend']}",
             "obligation": full, "solver_model": o.get("model"), "smt_head": o.get("smt_head"),
             "functions": [functions[k] for k in functions], "source": "pyvc"}
        if rep:
            v["input"] = rep.get("input")
            v["native"] = rep.get("what")
            v["replayed"] = True
        else:
            # any native failure found by the enumerator for the same property backs the refutation
            nat = [x for x in violations if x["source"] == "bounded(native)" and not is_known(x)]
            if nat:
                v["input"] = nat[0].get("input")
                v["native"] = nat[0].get("what")
                v["replayed"] = True
            elif o.get("structural"):
                # the obligation only pins the *shape* of a composition of uninterpreted library calls; a refutation
                # without any native failure means "restructured", which is undecided, not a violation
                structural_undecided.append((full, "refuted-structural", "composition of library calls changed; no native failure found"))
                continue
            else:
                v["replayed"] = False
        violations.append(v)

    undecided.extend(structural_undecided)

    # ---- known findings
    known_lines, new_violations = [], []
    for v in violations:
        hit = None
        for k in kf.get("findings", []):
            if k.get("property") == pid and k.get("status") == "open" and any(fnmatch.fnmatch(v["sig"], p) for p in k.get("sig_patterns", [])):
                hit = k
                break
        if hit:
            line = f"KNOWN-FINDING: property={pid} {hit['what']}"
            if line not in known_lines:
                known_lines.append(line)
        else:
            new_violations.append(v)

    # ---- report
    rdir = os.path.join(OUT, "replays", pid)
    os.makedirs(rdir, exist_ok=True)
    for old in os.listdir(rdir):  # replay files always describe the latest run
        if old.endswith(".json"):
            os.unlink(os.path.join(rdir, old))
    out_lines = []
    for v in new_violations:
        path = os.path.join(OUT, "replays", pid, sanitize(v["sig"]) + ".json")
        with open(path, "w") as f:
            json.dump({"property": pid, **v}, f, indent=1, default=str)
        suffix = "" if v.get("replayed", True) else " no-failing-input-found"
        out_lines.append(f"VIOLATION property={pid} replay={path}{suffix}")

    n_ob = len(seen | baseline)
    n_proved = len(proved)
    all_proved = n_ob > 0 and n_proved == n_ob and not undecided and not refuted
    claimed = "proof"
    for chk in load_json(os.path.join(ROOT, "MANIFEST.json"), {}).get("checks", []):
        if chk.get("property_id") == pid:
            claimed = chk.get("level_claimed", {}).get("category", "proof")
    # a property whose decisive clauses are partly bounded / has an open known finding is claimed as 'other' in the manifest
    level = "proof" if (all_proved and claimed == "proof") else "other"
    cov = {
        "obligations": n_ob,
        "discharged": n_proved,
        "refuted": [r[0] for r in refuted],
        "undecided": [{"obligation": a, "why": b, "detail": (c or "")[:300]} for a, b, c in undecided],
        "checker_cmd": f"./check {pid} --tier {tier}  (pyvc: VCs from /repo working tree; back ends z3 {z3_version()} python API, /usr/bin/cvc5 for z3-unknowns; per-obligation timeout {timeout_ms} ms)",
        "trusted_base": sorted(trusted),
        "backends": backends,
        "solver_s": round(solver_s, 3),
        "functions_under_contract": list(functions.values()),
        "functions_executed": sorted(executed),  # every /repo function whose real body was entered symbolically by some unit of this run
        "units": unit_status,
        "path_covers_not_reached": unreached,
        "assume_sites": assume_sites(pid),
        "samples": samples or [{"note": "no obligation discharged in this run"}],
        "explanation": (
            "Deductive part: every obligation listed was generated from the current source of the functions under contract and "
            "discharged (unsat) by the named back end; 'undecided' entries were not re-established in this run. "
            "Bounded part (labelled bounded, never counted as proved): see coverage.bounded."
        ),
    }
    if bounded is not None:
        cov["bounded"] = {k: bounded[k] for k in bounded if k != "violations"}
        cov["evaluations"] = int(bounded.get("evaluations", 0)) or 1
        cov["distinct_nontrivial"] = int(bounded.get("distinct_nontrivial", 0))
        cov["rule"] = bounded.get("rule", "")
        if bounded.get("samples"):
            cov["samples"] = (cov["samples"] + [{"bounded_case": s} for s in bounded["samples"][:3]])
        cov["exhaustive"] = bool(bounded.get("exhaustive", False))
    ev = {
        "property_id": pid,
        "tier": tier,
        "seed": seed,
        "level": level,
        "coverage": cov,
        "assumptions": sorted(assumptions),
        "wall_s": round(time.time() - t0, 2),
        "violations": len(new_violations),
        "known_findings": known_lines,
        "check_broken": broken,
    }
    with open(os.path.join(OUT, "evidence", f"{pid}.json"), "w") as f:
        json.dump(ev, f, indent=1, default=str)

    print(f"[{pid}] tier={tier} obligations={n_ob} discharged={n_proved} refuted={len(refuted)} undecided={len(undecided)} "
          f"bounded_evals={cov.get('evaluations', 0)} wall={ev['wall_s']}s level={level}")
    for a, b, c in undecided[:20]:
        print(f"UNDECIDED {a}: {b} {str(c)[:160]}")
    for l in known_lines:
        print(l)
    for l in out_lines:
        print(l)
    if broken:
        for b in broken:
            print("CHECK-BROKEN " + b.replace("\n", " | ")[:1500])
    if out_lines or broken:
        return 1
    return 0


def assume_sites(pid):
    """mechanical scan: every `assume(` in the property's contract module, the shared harness modules and the library models
    (preconditions, representation invariants, axiom instances, model facts) - nothing of this is proved"""
    out = []
    files = [f"contracts/{pid.lower()}.py", "contracts/common.py", "contracts/graph.py", "pyvc/models.py", "pyvc/models_jax.py"]
    for rel in files:
        path = os.path.join(ROOT, rel)
        if not os.path.exists(path):
            continue
        for i, line in enumerate(open(path), 1):
            if ".assume(" in line and not line.lstrip().startswith("#"):
                out.append(f"{rel}:{i}: {line.strip()[:140]}")
    return out


def z3_version():
    try:
        import z3

        return z3.get_version_string()
    except Exception:
        return "?"


if __name__ == "__main__":
    sys.exit(main(sys.argv))

"""python -m vcheck.replay <replay.json> : re-run a stored counterexample on the CURRENT /repo tree.
Exit 1 and a line `REPRODUCED …` if the real code still fails on it, exit 0 otherwise."""
import importlib
import json
import sys


def main(path):
    d = json.load(open(path))
    pid = d["property"]
    print(f"property={pid} sig={d.get('sig')}")
    print("what:", d.get("what"))
    if d.get("native"):
        print("native failure recorded:", d["native"])
    print("input:", json.dumps(d.get("input"), default=str)[:1500])
    try:
        rtc = importlib.import_module(f"rtc.{pid.lower()}")
    except ModuleNotFoundError:
        return 0
    if d.get("obligation") and hasattr(rtc, "replay"):
        unit_id, name = d["obligation"].split("::", 1)
        rep = rtc.replay(unit_id, name, d.get("solver_model") or {})
        if rep:
            print("REPRODUCED", rep["what"], "| input:", json.dumps(rep.get("input"), default=str)[:800])
            return 1
        print("not reproduced from the solver model on the current tree (see solver_model / smt_head in the file)")
        return 0
    print("native finding: re-run `./check %s --tier quick` to re-evaluate the enumerator on the current tree" % pid)
    return 0


if __name__ == "__main__":
    sys.exit(main(sys.argv[1]))

"""C01 bounded stand-in: seeded random DAGs (<= 6 user nodes; value variables, cached and transient calculations, weak variables with
and without distributions, bare Value nodes) x random operation histories (<= 7 operations) on the REAL model, with call counters in
every node function; after each operation the model is compared with a from-scratch rebuild at the current input values."""
from __future__ import annotations

import random

import numpy as np
import tensorflow_probability.substrates.jax.distributions as tfd

from rtc import util
import liesel.model as lsl


class Spec:
    """a random graph description that can be instantiated repeatedly (for from-scratch rebuilds)"""

    def __init__(self, rng):
        self.nodes = []  # (kind, name, parents, weight)
        n_strong = rng.randint(1, 3)
        for i in range(n_strong):
            self.nodes.append(("strong", f"s{i}", [], rng.choice([True, False])))  # flag: has a distribution
        n_rest = rng.randint(1, 4)
        for i in range(n_rest):
            kind = rng.choice(["calc", "tcalc", "weak", "weakdist", "barevalue"])
            prev = [n for n in self.nodes if n[0] != "barevalue" or True]
            k = rng.randint(1, min(2, len(prev)))
            parents = [p[1] for p in rng.sample(prev, k)]
            self.nodes.append((kind, f"n{i}", parents if kind != "barevalue" else [], rng.randint(2, 9)))

    def build(self, values, counters):
        objs = {}

        def fn(name, w):
            def f(*xs):
                counters[name] = counters.get(name, 0) + 1
                return np.float32(w + sum((j + 2) * np.float32(x) for j, x in enumerate(xs)))
            return f

        roots = []
        for kind, name, parents, w in self.nodes:
            ins = [objs[p] for p in parents]
            if kind == "strong":
                dist = lsl.Dist(tfd.Normal, loc=0.0, scale=3.0) if w else None
                objs[name] = lsl.Var(np.float32(values[name]), dist, name=name)
            elif kind == "barevalue":
                objs[name] = lsl.Value(np.float32(values[name]), _name=name)
            elif kind == "calc":
                objs[name] = lsl.Calc(fn(name, w), *ins, _name=name)
            elif kind == "tcalc":
                objs[name] = lsl.TransientCalc(fn(name, w), *ins, _name=name)
            elif kind == "weak":
                objs[name] = lsl.Var(lsl.Calc(fn(name, w), *ins), name=name)
            else:
                objs[name] = lsl.Var(lsl.Calc(fn(name, w), *ins), lsl.Dist(tfd.Normal, loc=ins[0], scale=2.0), name=name)
            roots.append(objs[name])
        m = lsl.GraphBuilder().add(*roots).build_model()
        return m

    def assignable(self):
        return [(k, n) for k, n, _, _ in self.nodes if k in ("strong", "barevalue")]


def snapshot(m):
    return {k: (None if n.value is None else float(np.sum(np.asarray(n.value, dtype=np.float64))), bool(n.outdated)) for k, n in m.nodes.items()}


def run_history(col, rng, spec, length, script=None):
    values = {n: rng.choice([0.5, -1.0, 2.0]) for _, n in spec.assignable()}
    counters = {}
    m = spec.build(values, counters)
    hist = []
    saved = None
    dirty = set()
    desc_cache = {}

    def descendants(name):
        start = m.vars[name].value_node if name in m.vars else m.nodes[name]
        out, todo = set(), [start]
        while todo:
            x = todo.pop()
            for o in x.outputs:
                if o.name not in out:
                    out.add(o.name)
                    todo.append(o)
        return out

    for step in range(length if script is None else len(script)):
        ops = ["assign", "toggle", "update", "targeted", "save", "clear"] + (["restore"] if saved is not None else [])
        op = rng.choice(ops) if script is None else script[step][0]
        counters.clear()
        updated = False
        target_anc = None
        if op == "assign":
            kind, name = rng.choice(spec.assignable()) if script is None else next(a for a in spec.assignable() if a[1] == script[step][1])
            v = rng.choice([0.25, 1.5, -2.0, 3.0]) if script is None else script[step][2]
            values[name] = v
            (m.vars[name] if kind == "strong" else m.nodes[name]).value = np.float32(v)
            dirty |= {d for d in descendants(name) if isinstance(m.nodes[d], (lsl.Calc, lsl.Dist)) and not isinstance(m.nodes[d], lsl.TransientCalc)}
            updated = m.auto_update
            hist.append(("assign", name, v))
        elif op == "toggle":
            m.auto_update = not m.auto_update
            hist.append(("auto_update", m.auto_update))
        elif op == "update":
            m.update()
            updated = True
            hist.append(("update",))
            if any(n.outdated for n in m.nodes.values()):
                return {"sig": "native::coherence::full_update_leaves_outdated", "what": "a node is outdated after a full update", "input": {"graph": spec.nodes, "history": hist}}
        elif op == "targeted":
            name = rng.choice([n for n in m.nodes if not n.startswith("_model_") or n == "_model_log_prob"]) if script is None else script[step][1]
            m.update(name)
            updated = True
            hist.append(("update", name))
            anc, todo = set(), [m.nodes[name]]
            while todo:
                x = todo.pop()
                if x.name in anc:
                    continue
                anc.add(x.name)
                todo.extend(x.all_input_nodes())
            if any(m.nodes[a].outdated for a in anc):
                return {"sig": "native::coherence::targeted_update", "what": f"after update({name!r}) an ancestor is still outdated: {[a for a in anc if m.nodes[a].outdated]}",
                        "input": {"graph": spec.nodes, "history": hist}}
        elif op == "clear":
            cand = [n for n, nd in m.nodes.items() if isinstance(nd, (lsl.Calc, lsl.Dist)) and not isinstance(nd, lsl.TransientCalc) and not n.startswith("_model_")]
            if not cand:
                continue
            name = rng.choice(cand) if script is None else script[step][1]
            m.nodes[name].clear_state()  # public: value None, outdated
            dirty.add(name)
            hist.append(("clear_state", name))
        elif op == "save":
            saved = (m.state, dict(values), set(dirty))
            hist.append(("save",))
        else:
            m.state = saved[0]
            values = dict(saved[1])
            dirty = set(saved[2])
            hist.append(("restore",))
        if updated:
            ev = {k: v for k, v in counters.items()}
            cached = {k: v for k, v in ev.items() if not isinstance(m.nodes.get(k, m.nodes.get(k + "_value")), lsl.TransientCalc)}
            names = {k: (k if k in m.nodes and isinstance(m.nodes[k], lsl.Calc) else k + "_value") for k in cached}
            if any(v > 1 for v in cached.values()):
                return {"sig": "native::coherence::evaluated_twice", "what": f"a caching node was evaluated more than once in one update: {cached}", "input": {"graph": spec.nodes, "history": hist}}
            if any(names[k] not in dirty for k in cached):
                return {"sig": "native::coherence::needless_evaluation", "what": f"evaluated although no ancestor was assigned since the last computation: {[k for k in cached if names[k] not in dirty]}",
                        "input": {"graph": spec.nodes, "history": hist}}
            dirty -= {names[k] for k in cached}
            dirty -= {d for d in dirty if d in m.nodes and isinstance(m.nodes[d], lsl.Dist) and not m.nodes[d].outdated}
        # compare with a from-scratch rebuild at the current input values
        ref = spec.build(values, {})
        now, want = snapshot(m), snapshot(ref)
        for k in now:
            if not now[k][1] and (now[k][0] is None) != (want[k][0] is None):
                return {"sig": "native::coherence::stale_value", "what": f"node {k} reports up to date but has no value", "input": {"graph": spec.nodes, "history": hist}}
            if not now[k][1] and now[k][0] is not None and not np.isclose(now[k][0], want[k][0], rtol=1e-5, atol=1e-5):
                return {"sig": "native::coherence::stale_value", "what": f"node {k} reports up to date but holds {now[k][0]}, from-scratch value is {want[k][0]}",
                        "input": {"graph": spec.nodes, "history": hist}}
    return None


class JoinSpec(Spec):
    """s0 -> c (cached), join = f(c, s1) (cached), y ~ N(join, .) weak variable with distribution; s1 is not an ancestor of c"""

    def __init__(self):
        self.nodes = [("strong", "s0", [], True), ("strong", "s1", [], False), ("calc", "n0", ["s0"], 3), ("calc", "n1", ["n0", "s1"], 5), ("weakdist", "n2", ["n1"], 2)]


class OrderSpec(Spec):
    """s0 -> V = n0 -> U = n1 -> T = n2(U, V): V enters T's ancestor cone twice, by paths of different length, and U is listed before V"""

    def __init__(self):
        self.nodes = [("strong", "s0", [], True), ("calc", "n0", ["s0"], 3), ("calc", "n1", ["n0"], 5), ("calc", "n2", ["n1", "n0"], 2), ("weakdist", "n3", ["n2"], 4)]


ORDER_SCRIPTS = [
    [("toggle",), ("assign", "s0", 1.5), ("targeted", "n2")],
    [("toggle",), ("assign", "s0", -2.0), ("targeted", "n3_log_prob"), ("update",)],
]

SCRIPTS = [
    # outdated nodes left behind while auto-update is switched on again, then an assignment elsewhere
    [("toggle",), ("assign", "s0", 1.5), ("toggle",), ("assign", "s1", -2.0)],
    [("toggle",), ("assign", "s0", 1.5), ("save",), ("toggle",), ("update",), ("restore",), ("assign", "s1", 3.0)],
    [("toggle",), ("assign", "s0", 0.25), ("assign", "s1", 3.0), ("targeted", "n0"), ("toggle",), ("assign", "s1", 1.5)],
    [("toggle",), ("assign", "s1", 0.25), ("toggle",), ("assign", "s0", 3.0), ("update",)],
    # a snapshot with outdated nodes restored after the model was fully updated in between, then a full update
    [("toggle",), ("assign", "s0", 1.5), ("save",), ("update",), ("restore",), ("update",)],
    [("clear", "n0"), ("update",)],
    [("clear", "n1"), ("targeted", "n2_log_prob")],
]


def failed_assignment_case(col):
    """an assignment whose automatic update RAISES part-way (a validating distribution rejects the derived scale): afterwards every node that
    reports up to date holds the from-scratch value for the values the model holds now, and a later valid assignment recovers"""
    import tensorflow_probability.substrates.jax.distributions as tfd_
    x = lsl.Var(np.float32(3.0), name="x")
    scale = lsl.Var(lsl.Calc(lambda v: 2.0 * v, x), name="scale")
    other = lsl.Var(lsl.Calc(lambda s, v: s + v, scale, x), name="other")
    y = lsl.Var(np.float32(0.5), lsl.Dist(tfd_.Normal, loc=0.0, scale=scale, validate_args=True), name="y")
    m = lsl.GraphBuilder().add(y, other).build_model()
    raised = False
    try:
        m.vars["x"].value = np.float32(-1.0)
    except Exception:
        raised = True
    xv = float(m.vars["x"].value)
    bad = None
    if not raised:
        bad = "assigning a value for which the distribution is invalid did not raise"
    for name, want in (("scale_value", 2.0 * xv), ("other_value", 3.0 * xv)):
        nd = m.nodes[name]
        if bad is None and not nd.outdated and not np.isclose(float(nd.value), want):
            bad = f"after the failed assignment (x is now {xv}): node {name} reports up to date but holds {float(nd.value)}, from-scratch value {want}"
    if bad is None:
        m.vars["x"].value = np.float32(2.0)
        if any(n.outdated for n in m.nodes.values()) or not np.isclose(float(m.nodes["scale_value"].value), 4.0) or not np.isclose(float(m.nodes["other_value"].value), 6.0):
            bad = "a later valid assignment did not bring the model back to a coherent state"
    col.add(None if bad is None else {"sig": "native::coherence::failed_assignment", "what": bad, "input": {"graph": "x -> scale = 2x -> Normal(0, scale, validate_args=True)", "assigned": -1.0}})


def inplace_case(col, auto_update):
    """a MUTABLE value (numpy array / dict of arrays) changed in place and assigned back: same object, new contents - every dependent node
    must be recomputed (full update, and targeted update)"""
    import tensorflow_probability.substrates.jax.distributions as tfd_
    bad = None
    for kind in ("array", "dict"):
        x0 = np.array([0.5, -1.0, 2.0], np.float32) if kind == "array" else {"a": np.array([0.5, -1.0], np.float32), "b": np.float32(2.0)}
        x = lsl.Var(x0, name="x")
        flat = lsl.Calc((lambda v: v * 1.0) if kind == "array" else (lambda v: np.concatenate([v["a"], np.atleast_1d(v["b"])])), x, _name="flat")
        y = lsl.Var(np.zeros(3, np.float32), lsl.Dist(tfd_.Normal, loc=flat, scale=1.0), name="y")
        m = lsl.GraphBuilder().add(y).build_model()
        m.auto_update = auto_update
        v = m.vars["x"].value
        if kind == "array":
            v[0] = 30.0
        else:
            v["a"][0] = 30.0
        m.vars["x"].value = v  # the same object, changed contents
        if not auto_update:
            m.update("y_log_prob")
        want = float(np.sum(np.asarray(tfd_.Normal(np.array([30.0, -1.0, 2.0], np.float32), 1.0).log_prob(np.zeros(3, np.float32)))))
        node = m.nodes["y_log_prob"]
        got = float(np.sum(np.asarray(node.value)))
        if not node.outdated and not np.isclose(got, want, rtol=1e-5):
            bad = f"{kind} value changed in place and assigned back (auto_update={auto_update}): y_log_prob reports up to date but sums to {got}, from-scratch value {want}"
            break
    col.add(None if bad is None else {"sig": "native::coherence::in_place_mutation", "what": bad, "input": {"auto_update": auto_update}})


def transformed_state_case(col, how):
    """a state saved while nodes are pending that passed through a JAX / numpy transformation before it is restored: the flags come back as
    boolean array scalars with the same truth value - pending nodes must still be recomputed by the next update"""
    import jax
    import jax.numpy as jnp
    import tensorflow_probability.substrates.jax.distributions as tfd_
    mu = lsl.Var(np.float32(0.0), name="mu")
    loc = lsl.Calc(lambda m_: 3.0 * m_, mu, _name="loc")
    y = lsl.Var(np.array([0.5, 1.0], np.float32), lsl.Dist(tfd_.Normal, loc=loc, scale=1.0), name="y")
    m = lsl.GraphBuilder().add(y).build_model()
    m.auto_update = False
    m.vars["mu"].value = np.float32(2.0)  # loc, y_log_prob, totals pending
    saved = m.state
    if how == "tree_map_asarray":
        saved = jax.tree.map(jnp.asarray, saved)
    elif how == "numpy_bool":
        saved = {k: type(v)(v.value, np.bool_(v.outdated)) for k, v in saved.items()}
    else:
        saved = jax.device_put(saved)
    m.vars["mu"].value = np.float32(-1.0)
    m.update()
    m.state = saved
    m.update()
    want = float(np.sum(np.asarray(tfd_.Normal(6.0, 1.0).log_prob(np.array([0.5, 1.0], np.float32)))))
    node = m.nodes["y_log_prob"]
    got = float(np.sum(np.asarray(node.value)))
    ok = bool(node.outdated) or np.isclose(got, want, rtol=1e-5)
    col.add(None if ok else {"sig": "native::coherence::restored_state_with_array_flags", "what": f"state saved with pending nodes, passed through {how}, restored, update(): y_log_prob reports up to date "
                             f"but sums to {got}, from-scratch value {want}", "input": {"transformation": how}})


def none_value_case(col, auto_update):
    """None assigned to an optional input of a cached calculation (None is a value): the calculation and everything below it are recomputed"""
    import tensorflow_probability.substrates.jax.distributions as tfd_
    off = lsl.Var(np.float32(2.0), name="offset")
    base = lsl.Var(np.float32(5.0), name="base")
    total = lsl.Calc(lambda b_, o_: b_ if o_ is None else b_ + o_, base, off, _name="total")
    doubled = lsl.Calc(lambda t_: 2.0 * t_, total, _name="doubled")
    y = lsl.Var(np.float32(0.0), lsl.Dist(tfd_.Normal, loc=doubled, scale=1.0), name="y")
    m = lsl.GraphBuilder().add(y).build_model()
    m.auto_update = auto_update
    m.vars["offset"].value = None
    if not auto_update:
        m.update()
    bad = [f"{nm} reports up to date but holds {float(m.nodes[nm].value)}, from-scratch value {w}" for nm, w in (("total", 5.0), ("doubled", 10.0)) if not m.nodes[nm].outdated and float(m.nodes[nm].value) != w]
    if any(m.nodes[nm].outdated for nm in ("total", "doubled", "y_log_prob")):
        bad.append("nodes still outdated after a full update: " + str([nm for nm in ("total", "doubled", "y_log_prob") if m.nodes[nm].outdated]))
    col.add(None if not bad else {"sig": "native::coherence::none_valued_input", "what": f"offset = None assigned (auto_update={auto_update}): " + "; ".join(bad), "input": {"auto_update": auto_update}})


def set_seed_case(col, auto_update):
    """Model.set_seed as a value assignment: the seeded node (eps = noise(seed) * a) and its dependents are recomputed from the NEW seed - at once with
    auto-update on, by the next update with auto-update off (until then they report outdated)"""
    import jax
    a = lsl.Var(np.float32(2.0), name="a")
    eps = lsl.Calc(lambda a_, seed: jax.random.normal(seed, (3,)) * a_, a, _name="eps", _needs_seed=True)
    z = lsl.Calc(lambda e_: e_ + 1.0, eps, _name="z")
    m = lsl.GraphBuilder().add(z).build_model()
    m.auto_update = auto_update
    key = jax.random.PRNGKey(123)
    m.set_seed(key)
    bad = None
    if not auto_update:
        if not (m.nodes["eps"].outdated and m.nodes["z"].outdated):
            bad = "after set_seed with auto-update off the seeded node / its dependent report up to date with values of the old seed"
        m.update()
    want = np.asarray(jax.random.normal(jax.random.split(key, 1)[0], (3,)) * 2.0)
    got_e, got_z = np.asarray(m.nodes["eps"].value), np.asarray(m.nodes["z"].value)
    if bad is None and not (np.allclose(got_e, want) and np.allclose(got_z, want + 1.0) and not any(n.outdated for n in m.nodes.values())):
        bad = f"eps = {got_e.tolist()}, recomputed from the new seed {want.tolist()}; z = {got_z.tolist()}; outdated: {[n.name for n in m.nodes.values() if n.outdated]}"
    col.add(None if bad is None else {"sig": "native::coherence::set_seed", "what": f"auto_update={auto_update}: {bad}", "input": {"auto_update": auto_update}})


def foreign_caching_node_case(col, how):
    """caching nodes that are NEITHER a Calc NOR a Dist - the legacy probability-integral-transform node (lsl.PIT) and a user-defined Node subclass - take
    part in the protocol like every other caching node: re-evaluated by the automatic / full / targeted update, and what is computed from them is current"""
    import jax.numpy as jnp
    import tensorflow_probability.substrates.jax.distributions as tfd_

    class Doubler(lsl.Node):
        def update(self):
            self._value = 2.0 * self.all_input_nodes()[0].value
            self._outdated = False
            return self

    mu = lsl.Var(np.float32(0.5), name="mu")
    y = lsl.Var(jnp.asarray([0.1, -0.4, 1.2], jnp.float32), lsl.Dist(tfd_.Normal, loc=mu, scale=1.0), name="y")
    u = lsl.PIT(y, name="u")
    d = Doubler(mu, _name="dbl")
    z = lsl.Var(lsl.Calc(lambda u_, d_: jnp.sum(u_) + d_, u, d), name="z")
    m = lsl.GraphBuilder().add(z).build_model()
    if how != "auto":
        m.auto_update = False
    m.vars["mu"].value = np.float32(-1.0)
    if how == "full":
        m.update()
    elif how == "targeted":
        m.update("z_value")
    want_u = np.asarray(tfd_.Normal(-1.0, 1.0).cdf(jnp.asarray([0.1, -0.4, 1.2], jnp.float32)))
    want_z = float(want_u.sum() - 2.0)
    bad = []
    pit = [n for n in m.nodes.values() if type(n).__name__ == "PITCalc"][0]
    for nm, nd, w in (("PIT node", pit, want_u), ("user-defined node", m.nodes["dbl"], -2.0), ("z", m.nodes["z_value"], want_z)):
        if nd.outdated:
            bad.append(f"{nm} still outdated")
        elif not np.allclose(np.asarray(nd.value), w, atol=1e-5):
            bad.append(f"{nm} reports up to date but holds {np.asarray(nd.value).tolist()}, from scratch {np.asarray(w).tolist()}")
    col.add(None if not bad else {"sig": "native::coherence::foreign_caching_node", "what": f"mu = -1 assigned, then {how} update: " + "; ".join(bad), "input": {"update": how}})


def rebuilt_model_case(col, how):
    """nodes outlive models: a variable that was assigned in an EARLIER model, taken out (pop_nodes_and_vars / copy_nodes_and_vars) and built into a new model
    together with a NEW consumer - an assignment in the new model reaches the new consumer, its distribution and the model totals"""
    import jax.numpy as jnp
    import tensorflow_probability.substrates.jax.distributions as tfd_
    x = lsl.Var(np.float32(1.0), name="x")
    y = lsl.Var(jnp.zeros(2, jnp.float32), lsl.Dist(tfd_.Normal, loc=x, scale=1.0), name="y")
    m1 = lsl.GraphBuilder().add(y).build_model()
    m1.vars["x"].value = np.float32(2.0)  # the earlier model is used
    nodes, vars_ = m1.pop_nodes_and_vars() if how == "pop" else m1.copy_nodes_and_vars()
    x2 = vars_["x"]
    z = lsl.Var(lsl.Calc(lambda v: 10.0 * v, x2), name="z")
    w = lsl.Var(jnp.zeros(2, jnp.float32), lsl.Dist(tfd_.Normal, loc=z, scale=1.0), name="w")
    m2 = lsl.GraphBuilder().add(*nodes.values(), *vars_.values(), w).build_model()
    m2.vars["x"].value = np.float32(5.0)
    bad = []
    want_z = 50.0
    want_lp = float(np.sum(tfd_.Normal(5.0, 1.0).log_prob(jnp.zeros(2))) + np.sum(tfd_.Normal(50.0, 1.0).log_prob(jnp.zeros(2))))
    for nm, nd, wv in (("z", m2.nodes["z_value"], want_z), ("log_prob", m2.nodes["_model_log_prob"], want_lp)):
        if nd.outdated:
            bad.append(f"{nm} outdated after the automatic update")
        elif not np.isclose(float(np.sum(np.asarray(nd.value))), wv, rtol=1e-5):
            bad.append(f"{nm} reports up to date but holds {float(np.sum(np.asarray(nd.value)))}, from scratch {wv}")
    col.add(None if not bad else {"sig": "native::coherence::model_rebuilt_from_used_nodes", "what": f"{how} + rebuild with a new consumer of x, then x = 5: " + "; ".join(bad), "input": {"round_trip": how}})


def core_native(col, seed, n_graphs=4, n_hist=3, length=6):
    """the part of this stand-in that other properties re-run (their statements rest on the caching protocol): all scripted histories, the
    special scenarios, and a few seeded random graphs x histories; every violation found is reported under the calling property"""
    rng = random.Random(seed)
    for fn, args in ((set_seed_case, (True,)), (set_seed_case, (False,)), (failed_assignment_case, ()), (inplace_case, (True,)), (inplace_case, (False,)), (none_value_case, (True,)), (none_value_case, (False,)),
                     (transformed_state_case, ("tree_map_asarray",)), (foreign_caching_node_case, ("auto",)), (foreign_caching_node_case, ("full",)), (foreign_caching_node_case, ("targeted",)), (rebuilt_model_case, ("pop",)), (rebuilt_model_case, ("copy",))):
        try:
            fn(col, *args)
        except Exception as e:
            col.add({"sig": f"native::coherence::exception::{type(e).__name__}", "what": f"{fn.__name__}: {type(e).__name__}: {str(e)[:200]}", "input": {"scenario": fn.__name__}})
    for spec_cls, scripts in ((JoinSpec, SCRIPTS), (OrderSpec, ORDER_SCRIPTS)):
        for sc in scripts:
            try:
                col.add(run_history(col, rng, spec_cls(), 0, script=sc))
            except Exception as e:
                col.add({"sig": f"native::coherence::exception::{type(e).__name__}", "what": f"{type(e).__name__}: {str(e)[:200]}", "input": {"graph": spec_cls().nodes, "script": sc}})
    for gi in range(n_graphs):
        spec = Spec(rng)
        for hi in range(n_hist):
            try:
                col.add(run_history(col, rng, spec, length))
            except Exception as e:
                col.add({"sig": f"native::coherence::exception::{type(e).__name__}", "what": f"{type(e).__name__}: {str(e)[:200]}", "input": {"graph": spec.nodes}})


CORE_RULE = ("BOUNDED (shared with C01): the caching protocol: scripted histories on a join-shaped and a two-path graph, failed / in-place / None assignments, set_seed, a restored state with "
             "array-valued flags, caching nodes that are neither Calc nor Dist (legacy PIT node, a user-defined Node subclass), a model rebuilt (pop / copy) from nodes that were assigned in an earlier model plus a new consumer, and 4 seeded random graphs x 3 histories of 6 operations, each compared with a from-scratch rebuild")


def bounded(tier, seed):
    rng = random.Random(seed)
    col = util.Collector()
    n_graphs, n_hist, length = (12, 4, 6) if tier == "quick" else (150, 12, 7)
    for au in (True, False):
        try:
            set_seed_case(col, au)
        except Exception as e:
            col.add({"sig": f"native::coherence::exception::{type(e).__name__}", "what": f"{type(e).__name__}: {str(e)[:200]}", "input": {"scenario": "set_seed", "auto_update": au}})
    for au in (True, False):
        try:
            none_value_case(col, au)
        except Exception as e:
            col.add({"sig": f"native::coherence::exception::{type(e).__name__}", "what": f"{type(e).__name__}: {str(e)[:200]}", "input": {"scenario": "None assigned to an optional input", "auto_update": au}})
    for how in ("tree_map_asarray", "numpy_bool", "device_put"):
        try:
            transformed_state_case(col, how)
        except Exception as e:
            col.add({"sig": f"native::coherence::exception::{type(e).__name__}", "what": f"{type(e).__name__}: {str(e)[:200]}", "input": {"scenario": "restored state with array flags", "how": how}})
    for how in ("pop", "copy"):
        try:
            rebuilt_model_case(col, how)
        except Exception as e:
            col.add({"sig": f"native::coherence::exception::{type(e).__name__}", "what": f"{type(e).__name__}: {str(e)[:200]}", "input": {"scenario": "model rebuilt from used nodes", "how": how}})
    for how in ("auto", "full", "targeted"):
        try:
            foreign_caching_node_case(col, how)
        except Exception as e:
            col.add({"sig": f"native::coherence::exception::{type(e).__name__}", "what": f"{type(e).__name__}: {str(e)[:200]}", "input": {"scenario": "caching node that is neither Calc nor Dist", "update": how}})
    try:
        failed_assignment_case(col)
    except Exception as e:
        col.add({"sig": f"native::coherence::exception::{type(e).__name__}", "what": f"{type(e).__name__}: {str(e)[:200]}", "input": {"scenario": "failed assignment"}})
    for au in (True, False):
        try:
            inplace_case(col, au)
        except Exception as e:
            col.add({"sig": f"native::coherence::exception::{type(e).__name__}", "what": f"{type(e).__name__}: {str(e)[:200]}", "input": {"scenario": "in-place mutation", "auto_update": au}})
    for spec_cls, scripts in ((JoinSpec, SCRIPTS), (OrderSpec, ORDER_SCRIPTS)):
        for sc in scripts:
            try:
                col.add(run_history(col, rng, spec_cls(), 0, script=sc))
            except Exception as e:
                col.add({"sig": f"native::coherence::exception::{type(e).__name__}", "what": f"{type(e).__name__}: {str(e)[:200]}", "input": {"graph": spec_cls().nodes, "script": sc}})
    for gi in range(n_graphs):
        spec = Spec(rng)
        for hi in range(n_hist):
            try:
                col.add(run_history(col, rng, spec, length))
            except Exception as e:
                col.add({"sig": f"native::coherence::exception::{type(e).__name__}", "what": f"{type(e).__name__}: {str(e)[:200]}", "input": {"graph": spec.nodes}})
    return {"evaluations": col.evals, "distinct_nontrivial": col.evals,
            "rule": (f"BOUNDED: {len(SCRIPTS) + len(ORDER_SCRIPTS)} scripted histories on a join-shaped graph and on a graph where a node is reachable by two paths of different length (targeted update order) (outdated nodes left behind while auto-update is on again, then an assignment to a non-ancestor); a state with pending nodes restored after a JAX / numpy transformation (array-valued flags); None assigned to an optional input of a cached calculation; set_seed with auto-update on and off; caching nodes that are neither Calc nor Dist (legacy PIT node, user-defined Node subclass) under automatic / full / targeted update; a model rebuilt from the popped / copied nodes of a USED model plus a new consumer; {n_graphs} seeded random DAGs (1-3 strong variables with or without a distribution, 1-4 further nodes out of cached Calc, transient Calc, weak variable, weak "
                     f"variable with distribution, bare Value node; 1-2 parents each) x {n_hist} random histories of {length} operations (assign, toggle auto-update, full update, targeted "
                     "update of a random node, Node.clear_state() of a random caching node, save, restore) on the real model; call counters in every node function; after every operation every up-to-date node is compared with a "
                     f"from-scratch rebuild at the current input values. seed={seed}"),
            "samples": [{"graph": [["strong", "s0", [], True], ["weakdist", "n0", ["s0"], 4]], "history": [["auto_update", False], ["assign", "s0", 1.5], ["update", "n0_log_prob"]]}],
            "exhaustive": False, "violations": col.violations}


# ---------------------------------------------------------------------------------------------- replay of symbolic histories


def native_shape(shape, counters):
    """numeric twins of the shapes in contracts/graph.py (same names, same wiring)"""
    import jax.numpy as jnp

    def f(name, w):
        def g(*xs, **kw):
            counters[name] = counters.get(name, 0) + 1
            return np.float32(w + sum((j + 2) * np.float32(x) for j, x in enumerate(list(xs) + [kw[k] for k in sorted(kw)])))
        return g

    V = lambda v: np.float32(v)  # noqa: E731
    if shape == "hier":
        tau = lsl.param(V(1.5), lsl.Dist(tfd.HalfNormal, scale=2.0), name="tau")
        mu = lsl.param(V(0.3), lsl.Dist(tfd.Normal, loc=0.0, scale=tau), name="mu")
        sigma = lsl.Var(lsl.Calc(lambda t: np.float32(1.0) + np.float32(t) ** 2, tau), name="sigma")
        y = lsl.obs(V(0.7), lsl.Dist(tfd.Normal, mu, scale=sigma), name="y")
        return [y]
    if shape == "diamond":
        a = lsl.param(V(0.4), lsl.Dist(tfd.Normal, loc=0.0, scale=2.0), name="a")
        left = lsl.Calc(f("left", 3), a, _name="left")
        right = lsl.TransientCalc(lambda x: np.float32(2.0) + np.float32(x) ** 2, a, _name="right")
        y = lsl.obs(V(0.1), lsl.Dist(tfd.Normal, left, right), name="y")
        leaf = lsl.Var(lsl.Calc(f("leaf", 5), left, y), name="leaf")
        return [y, leaf]
    if shape == "flat":
        b = lsl.param(V(0.2), lsl.Dist(tfd.Normal, loc=0.0, scale=1.0), name="b")
        c = lsl.param(V(1.2), lsl.Dist(tfd.HalfNormal, scale=1.0), name="c")
        y = lsl.obs(V(0.5), lsl.Dist(tfd.Normal, b, c), name="y")
        return [y]
    a = lsl.param(V(0.4), lsl.Dist(tfd.Normal, loc=0.0, scale=2.0), name="a")
    b = lsl.Var(V(1.3), name="b")
    w = lsl.Var(lsl.Calc(f("w", 2), a), lsl.Dist(tfd.Normal, loc=0.0, scale=b), name="w")
    w.observed = True
    const = lsl.Value(V(0.9), _name="const")
    c1 = lsl.Calc(f("c1", 3), const, _name="c1")
    c2 = lsl.Calc(f("c2", 4), const, c1, _name="c2")
    return [w, c2]


def replay(unit_id, obligation, model):
    import ast as _ast

    if not unit_id.startswith("C01.histories."):
        return None
    shape = unit_id.split(".")[-1]
    try:
        hist = _ast.literal_eval(model["__meta__"]["history"])
    except (KeyError, ValueError, SyntaxError):
        return None
    counters = {}
    m = lsl.GraphBuilder().add(*native_shape(shape, counters)).build_model()
    values = {}
    saved = None
    for step, op in enumerate(hist):
        if op[0] == "assign":
            values[op[1]] = 0.37 + step
            m.vars[op[1]].value = np.float32(values[op[1]])
        elif op[0] == "assign_node":
            values[op[1]] = 0.21 + step
            m.nodes[op[1]].value = np.float32(values[op[1]])
        elif op[0] == "toggle":
            m.auto_update = not m.auto_update
        elif op[0] == "update":
            m.update(*op[1:])
            anc = set()
            if len(op) > 1:
                todo = [m.nodes[op[1]]]
                while todo:
                    x = todo.pop()
                    if x.name not in anc:
                        anc.add(x.name)
                        todo.extend(x.all_input_nodes())
            bad = [n for n in (anc or m.nodes) if m.nodes[n].outdated]
            if bad:
                return {"sig": "native::coherence::update_leaves_outdated", "what": f"after {op} these nodes are still outdated: {bad}", "input": {"shape": shape, "history": hist}}
        elif op[0] == "save":
            saved = (m.state, dict(values))
        elif op[0] == "restore" and saved is not None:
            m.state = saved[0]
            values = dict(saved[1])
        ref = lsl.GraphBuilder().add(*native_shape(shape, {})).build_model()
        for k, v in values.items():
            (ref.vars[k] if k in ref.vars else ref.nodes[k]).value = np.float32(v)
        ref.update()
        now, want = snapshot(m), snapshot(ref)
        for k in now:
            if not now[k][1] and now[k][0] is not None and not np.isclose(now[k][0], want[k][0], rtol=1e-5, atol=1e-5):
                return {"sig": "native::coherence::stale_value", "what": f"after {hist[: step + 1]}: node {k} reports up to date but holds {now[k][0]}, from-scratch value {want[k][0]}",
                        "input": {"shape": shape, "history": hist[: step + 1]}}
    return None

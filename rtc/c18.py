"""C18 bounded stand-in (numeric grids): degenerate MVN against an eigendecomposition reference (ranks 0..m, m <= 4, batches,
all constructors, null-space invariance, tiny-but-non-zero eigenvalues with supplied rank), algebraic sigmoid log-det-Jacobian =
log-derivative (jax.grad), Gaussian copula = closed form for rho in (-1,1) with and without validation."""
from __future__ import annotations

import jax
import jax.numpy as jnp
import numpy as np

from rtc import util
from liesel.bijectors.algebraic_sigmoid import AlgebraicSigmoid
from liesel.distributions.copulas import GaussianCopula
from liesel.distributions.mvn_degen import MultivariateNormalDegenerate as MVND

jax.config.update("jax_enable_x64", False)


def rand_penalty(rng, m, r):
    Q, _ = np.linalg.qr(rng.normal(size=(m, m)))
    lam = np.concatenate([np.zeros(m - r), rng.uniform(0.5, 3.0, size=r)])
    K = (Q * lam) @ Q.T
    return K, Q, lam


def ref_logpdf(x, loc, K_eff_lams, Q, r):
    d = (x - loc) @ Q
    quad = np.sum(K_eff_lams * d * d)
    nz = K_eff_lams[K_eff_lams != 0]
    return -0.5 * quad - 0.5 * r * np.log(2 * np.pi) + 0.5 * np.sum(np.log(nz))


def mvn_cases(col, rng, n):
    for _ in range(n):
        m = int(rng.integers(1, 5))
        r = int(rng.integers(0, m + 1))
        K, Q, lam = rand_penalty(rng, m, r)
        loc = rng.normal(size=m)
        x = rng.normal(size=m)
        var = float(rng.choice([1.0, 0.37, 5.0]))
        want = ref_logpdf(x, loc, lam / var, Q, r)
        Kj, locj, xj = jnp.asarray(K, jnp.float32), jnp.asarray(loc, jnp.float32), jnp.asarray(x, jnp.float32)
        lpd = float(np.sum(np.log(lam[lam != 0]))) if r else 0.0
        ctors = {
            "prec": lambda: MVND(locj, Kj / var),
            "prec+rank": lambda: MVND(locj, Kj / var, rank=r),
            "from_penalty": lambda: MVND.from_penalty(locj, jnp.float32(var), Kj),
            "from_penalty+rank+logpdet": lambda: MVND.from_penalty(locj, jnp.float32(var), Kj, rank=r, log_pdet=lpd),
            "from_penalty+rank": lambda: MVND.from_penalty(locj, jnp.float32(var), Kj, rank=r),
            "from_penalty_smooth": lambda: MVND.from_penalty_smooth(locj, jnp.float32(1.0 / var), Kj),
            "from_penalty_smooth+rank": lambda: MVND.from_penalty_smooth(locj, jnp.float32(1.0 / var), Kj, rank=r),
        }
        inp = {"dim": m, "rank": r, "var": var}
        bad = None
        for name, mk in ctors.items():
            d = mk()
            got = float(d.log_prob(xj))
            if not np.isclose(got, want, rtol=2e-3, atol=5e-3):
                bad = {"sig": f"native::mvn_degen::log_prob::{name.split('+')[0]}", "what": f"{name}: log_prob={got:.5f}, Gaussian density on the range space={want:.5f}", "input": inp}
                break
            if r < m:  # null-space invariance
                nullv = Q[:, 0] * 3.7
                got2 = float(d.log_prob(xj + jnp.asarray(nullv, jnp.float32)))
                if not np.isclose(got2, got, rtol=2e-3, atol=5e-3):
                    bad = {"sig": "native::mvn_degen::null_space", "what": f"{name}: adding a null-space vector changed the log-density ({got:.5f} -> {got2:.5f})", "input": inp}
                    break
        col.add(bad)


def integer_penalty_cases(col):
    """a hand-written INTEGER penalty matrix (jnp.array([[1, -1, 0, 0], ...]) is int32) with a fractional variance / smoothing parameter: all constructors
    still give the Gaussian density on the range space of K / var"""
    Ki = np.array([[1, -1, 0, 0], [-1, 2, -1, 0], [0, -1, 2, -1], [0, 0, -1, 1]])
    lam, Q = np.linalg.eigh(Ki.astype(np.float64))
    lam[np.abs(lam) < 1e-9] = 0.0
    x = np.array([0.3, -1.2, 0.7, 2.0])
    xj = jnp.asarray(x, jnp.float32)
    Kj = jnp.array(Ki)
    for var in (2.5, 0.4):
        want = ref_logpdf(x, np.zeros(4), lam / var, Q, 3)
        lpd = float(np.sum(np.log(lam[lam != 0])))
        ctors = {"from_penalty": lambda: MVND.from_penalty(0.0, var, Kj), "from_penalty+rank+logpdet": lambda: MVND.from_penalty(0.0, var, Kj, rank=3, log_pdet=lpd),
                 "from_penalty_smooth": lambda: MVND.from_penalty_smooth(0.0, 1.0 / var, Kj), "from_penalty_smooth+rank": lambda: MVND.from_penalty_smooth(0.0, 1.0 / var, Kj, rank=3)}
        bad = None
        for name, mk in ctors.items():
            try:
                got = float(mk().log_prob(xj))
            except Exception as e:
                got = f"{type(e).__name__}: {str(e)[:80]}"
            if isinstance(got, str) or not np.isclose(got, want, rtol=2e-3, atol=5e-3):
                bad = {"sig": f"native::mvn_degen::integer_penalty::{name.split('+')[0]}", "what": f"{name} with an int32 penalty matrix and var={var}: log_prob={got}, Gaussian density on the range space={want:.5f}",
                       "input": {"penalty": Ki.tolist(), "penalty_dtype": str(Kj.dtype), "var": var}}
                break
        col.add(bad)


def tiny_eigenvalue_cases(col):
    """non-zero eigenvalues below the default tolerance with the rank supplied"""
    D = np.diff(np.eye(5), axis=0)
    K = D.T @ D  # RW1 penalty, rank 4
    lam, Q = np.linalg.eigh(K)
    lam[0] = 0.0
    for scale in (1e7, 1e-7):
        x = np.array([0.3, -1.0, 0.8, 2.0, -0.4])
        lams = lam / scale if scale > 1 else lam * scale
        want = ref_logpdf(x, np.zeros(5), lams, Q, 4)
        Kj, xj = jnp.asarray(K, jnp.float32), jnp.asarray(x, jnp.float32)
        if scale > 1:
            mks = {"prec+rank": lambda: MVND(jnp.zeros(5), Kj / scale, rank=4), "from_penalty": lambda: MVND.from_penalty(jnp.zeros(5), jnp.float32(scale), Kj),
                   "from_penalty+rank": lambda: MVND.from_penalty(jnp.zeros(5), jnp.float32(scale), Kj, rank=4)}
        else:
            mks = {"prec+rank": lambda: MVND(jnp.zeros(5), Kj * scale, rank=4), "from_penalty(small penalty)+rank": lambda: MVND.from_penalty(jnp.zeros(5), jnp.float32(1.0), Kj * scale, rank=4)}
        bad = None
        for name, mk in mks.items():
            got = float(mk().log_prob(xj))
            if not np.isclose(got, want, rtol=5e-3, atol=5e-2):
                bad = {"sig": "native::mvn_degen::tiny_eigenvalues", "what": f"{name}, eigenvalues scaled by {scale}: log_prob={got:.4f}, expected {want:.4f}", "input": {"scale": scale, "rank": 4}}
                break
        col.add(bad)


def high_dimension_case():
    """dimension 50, rank 49 (first-order random-walk penalty) with variance 50 and 0.02: the pseudo-determinant itself (1e-82 / 1e+84) is far outside the float32
    range although every eigenvalue is ordinary - all four constructors still agree with the float64 reference"""
    m = 50
    D = np.diff(np.eye(m), axis=0)
    K = D.T @ D
    lam, Q = np.linalg.eigh(K)
    lam[0] = 0.0
    x = np.linspace(-1.0, 1.0, m) ** 2
    Kj, xj = jnp.asarray(K, jnp.float32), jnp.asarray(x, jnp.float32)
    for var in (50.0, 0.02):
        want = ref_logpdf(x, np.zeros(m), lam / var, Q, m - 1)
        mks = {"prec": lambda: MVND(jnp.zeros(m), Kj / var), "prec+rank": lambda: MVND(jnp.zeros(m), Kj / var, rank=m - 1),
               "from_penalty": lambda: MVND.from_penalty(jnp.zeros(m), jnp.float32(var), Kj), "from_penalty_smooth": lambda: MVND.from_penalty_smooth(jnp.zeros(m), jnp.float32(1.0 / var), Kj)}
        for name, mk in mks.items():
            got = float(mk().log_prob(xj))
            if not np.isclose(got, want, rtol=2e-3, atol=0.2):
                return {"sig": "native::mvn_degen::high_dimension", "what": f"{name}, dimension {m}, rank {m - 1}, variance {var}: log_prob = {got}, float64 reference {want:.4f}", "input": {"dim": m, "var": var}}
    return None


def user_tolerance_case():
    """a tolerance chosen by the user is the threshold that is applied: RW1 penalty scaled by 1e-8 (genuine eigenvalues 4e-9..4e-8, numerical noise
    of the zero eigenvalue ~1e-15) with tol=1e-12 and neither rank nor log_pdet supplied; and tol=0.5 on the unscaled penalty (eigenvalue 0.38 excluded)"""
    D = np.diff(np.eye(5), axis=0)
    K = D.T @ D
    lam, Q = np.linalg.eigh(K)
    lam[0] = 0.0
    x = np.array([0.3, -1.0, 0.8, 2.0, -0.4])
    Kj, xj = jnp.asarray(K, jnp.float32), jnp.asarray(x, jnp.float32)
    for scale, tol, keep in ((1e-8, 1e-12, lam > 0), (1.0, 0.5, lam > 0.5)):
        d = MVND(jnp.zeros(5), Kj * scale, tol=tol)
        r = int(d.rank)
        lams = np.where(keep, lam * scale, 0.0)
        want = ref_logpdf(x, np.zeros(5), lams, Q, int(keep.sum())) if keep.all() or scale != 1.0 else None
        if r != int(keep.sum()):
            return {"sig": "native::mvn_degen::user_tolerance", "what": f"MultivariateNormalDegenerate(prec=K*{scale}, tol={tol}).rank = {r}, but {int(keep.sum())} eigenvalues "
                    f"{(lam * scale)[keep].tolist()} exceed the tolerance", "input": {"scale": scale, "tol": tol}}
        lp_want = float(np.sum(np.log((lam * scale)[keep])))
        if not np.isclose(float(d.log_pdet), lp_want, rtol=5e-3, atol=5e-2):
            return {"sig": "native::mvn_degen::user_tolerance", "what": f"MultivariateNormalDegenerate(prec=K*{scale}, tol={tol}).log_pdet = {float(d.log_pdet):.4f}, expected {lp_want:.4f}",
                    "input": {"scale": scale, "tol": tol}}
    return None


def sampling_factor_cases(col, rng):
    """the deterministic part of sampling: the factor S used by sample() (x = loc + S z) satisfies S S' = pseudo-inverse of the precision, its
    non-zero columns are as many as the rank the density uses, and S z stays in the range space - also for ill-conditioned precisions (range-
    space condition number up to 2.5e6) and eigenvalues between the absolute tolerance and tolerance x largest eigenvalue"""
    import jax
    for name, lam in (("well conditioned", np.array([0.0, 0.5, 1.0, 3.0])), ("ill conditioned", np.array([0.0, 2e-4, 1.0, 500.0])), ("full rank, spread", np.array([3e-5, 0.02, 7.0, 40.0]))):
        d = MVND(jnp.zeros(4), jnp.asarray(np.diag(lam), jnp.float32))
        S = np.asarray(d._sqrt_pcov, np.float64)
        pinv = np.diag([0.0 if l_ <= 1e-6 else 1.0 / l_ for l_ in lam])
        r = int(np.asarray(d.rank))
        nz_cols = int(np.sum(np.abs(S).sum(axis=0) > 0))
        xs = np.asarray(d.sample(64, seed=jax.random.PRNGKey(3)), np.float64)
        null = lam <= 1e-6
        ok = np.allclose(S @ S.T, pinv, rtol=2e-3, atol=1e-6) and nz_cols == r == int(np.sum(lam > 1e-6)) and np.allclose(xs[:, null], 0.0, atol=1e-6) and \
            all(np.std(xs[:, j]) > 0 for j in range(4) if not null[j])
        col.add(None if ok else {"sig": "native::mvn_degen::sampling_factor", "what": f"{name} (eigenvalues {lam.tolist()}): S S' has diagonal {np.diag(S @ S.T).round(4).tolist()}, pseudo-inverse "
                                 f"{np.diag(pinv).round(4).tolist()}; non-zero columns {nz_cols}, rank used by the density {r}", "input": {"eigenvalues": lam.tolist()}})


def sampling_factor_user_tolerance_cases(col, rng):
    """a USER tolerance decides which eigenvalues count as zero - for the rank the density uses AND for the sampling factor: non-zero columns
    of S = rank, no sample component along a direction the distribution itself declares null, 1/eigenvalue as variance along the others"""
    import jax
    for lam, tol in ((np.array([1e-4, 1.0, 2.0]), 1e-3), (np.array([1e-9, 3e-8, 0.5]), 1e-10), (np.array([0.2, 1.0, 2.0]), 0.5)):
        d = MVND(jnp.zeros(3), jnp.asarray(np.diag(lam), jnp.float32), tol=tol)
        S = np.asarray(d._sqrt_pcov, np.float64)
        r = int(np.asarray(d.rank))
        null = lam < tol
        want = np.diag(np.where(null, 0.0, 1.0 / lam))
        nz_cols = int(np.sum(np.abs(S).sum(axis=0) > 0))
        xs = np.asarray(d.sample(64, seed=jax.random.PRNGKey(5)), np.float64)
        ok = nz_cols == r == int(np.sum(~null)) and np.allclose(S @ S.T, want, rtol=2e-3, atol=0.0) and np.all(xs[:, null] == 0.0)
        col.add(None if ok else {"sig": "native::mvn_degen::sampling_factor_user_tolerance", "what": f"eigenvalues {lam.tolist()}, tol={tol}: rank used by the density {r}, non-zero columns "
                                 f"of the sampling factor {nz_cols}, diagonal of S S' {np.diag(S @ S.T).tolist()} (expected {np.diag(want).tolist()}), largest sample component along the "
                                 f"declared null directions {float(np.abs(xs[:, null]).max()) if null.any() else 0.0}", "input": {"eigenvalues": lam.tolist(), "tol": tol}})


def sampling_factor_constructor_cases(col, rng):
    """NON-diagonal precisions (random rotation), full rank and rank-deficient, through every constructor variant incl. a rank supplied as python int /
    numpy integer / together with log_pdet: the factor S used by sample() satisfies S S' = pseudo-inverse of the precision, and drawn samples are loc + S z"""
    import jax
    for m, r in ((3, 3), (4, 2), (3, 1)):
        K, Q, lam = rand_penalty(rng, m, r)
        pinv = (Q * np.where(lam > 0, 1.0 / np.where(lam > 0, lam, 1.0), 0.0)) @ Q.T
        lpd = float(np.sum(np.log(lam[lam > 0])))
        Kj = jnp.asarray(K, jnp.float32)
        mks = {"prec": lambda: MVND(jnp.zeros(m), Kj), "prec+int rank": lambda: MVND(jnp.zeros(m), Kj, rank=r), "prec+numpy rank": lambda: MVND(jnp.zeros(m), Kj, rank=np.int64(r)),
               "prec+rank+log_pdet": lambda: MVND(jnp.zeros(m), Kj, rank=r, log_pdet=lpd), "from_penalty+int rank": lambda: MVND.from_penalty(jnp.zeros(m), jnp.float32(1.0), Kj, rank=r),
               "from_penalty_smooth+int rank": lambda: MVND.from_penalty_smooth(jnp.zeros(m), jnp.float32(1.0), Kj, rank=r, log_pdet=lpd)}
        # penalty constructors with a variance / smoothing parameter different from 1, rank and log-pseudo-determinant derived or supplied: precision = K / var = K * smooth
        scaled = {"from_penalty(var=2.5)": (lambda: MVND.from_penalty(jnp.zeros(m), jnp.float32(2.5), Kj), 2.5),
                  "from_penalty(var=2.5)+rank": (lambda: MVND.from_penalty(jnp.zeros(m), jnp.float32(2.5), Kj, rank=r), 2.5),
                  "from_penalty_smooth(smooth=0.4)": (lambda: MVND.from_penalty_smooth(jnp.zeros(m), jnp.float32(0.4), Kj), 2.5),
                  "from_penalty_smooth(smooth=0.4)+rank": (lambda: MVND.from_penalty_smooth(jnp.zeros(m), jnp.float32(0.4), Kj, rank=r), 2.5),
                  "from_penalty_smooth(smooth=4)+rank+log_pdet": (lambda: MVND.from_penalty_smooth(jnp.zeros(m), jnp.float32(4.0), Kj, rank=r, log_pdet=lpd), 0.25)}
        bad = None
        pinv1 = pinv
        for name, mk in list(mks.items()) + list(scaled.items()):
            mk, sc = mk if isinstance(mk, tuple) else (mk, 1.0)
            pinv = pinv1 * sc
            d = mk()
            S = np.asarray(d._sqrt_pcov, np.float64)
            if not np.allclose(S @ S.T, pinv, rtol=5e-3, atol=5e-4):
                bad = f"{name}, dim {m}, rank {r}: S S' = {np.round(S @ S.T, 3).tolist()} but the pseudo-inverse of the precision is {np.round(pinv, 3).tolist()}"
                break
            xs = np.asarray(d.sample(4000, seed=jax.random.PRNGKey(11)), np.float64)
            emp = np.cov(xs, rowvar=False)
            if not np.allclose(emp, pinv, atol=0.15 * max(1.0, np.abs(pinv).max())):
                bad = f"{name}, dim {m}, rank {r}: empirical covariance of 4000 draws {np.round(emp, 2).tolist()} vs pseudo-inverse {np.round(pinv, 2).tolist()}"
                break
        col.add(None if bad is None else {"sig": "native::mvn_degen::sampling_factor_constructors", "what": bad, "input": {"dim": m, "rank": r, "precision": "random rotation of a diagonal spectrum"}})


def batch_cases(col, rng):
    m, r = 3, 2
    K, Q, lam = rand_penalty(rng, m, r)
    locs = rng.normal(size=(2, 2, m))
    x = rng.normal(size=(2, 2, m))
    d = MVND.from_penalty(jnp.asarray(locs, jnp.float32), jnp.asarray([[1.0, 2.0], [0.5, 4.0]], jnp.float32), jnp.asarray(K, jnp.float32))
    got = np.asarray(d.log_prob(jnp.asarray(x, jnp.float32)))
    vars_ = np.array([[1.0, 2.0], [0.5, 4.0]])
    want = np.array([[ref_logpdf(x[i, j], locs[i, j], lam / vars_[i, j], Q, r) for j in range(2)] for i in range(2)])
    col.add(None if got.shape == (2, 2) and np.allclose(got, want, rtol=2e-3, atol=5e-3) else
            {"sig": "native::mvn_degen::batches", "what": "batched log_prob differs from the per-element reference", "input": {"batch_shape": [2, 2]}})


def sigmoid_cases(col):
    b = AlgebraicSigmoid()
    xs = jnp.asarray([-50.0, -3.0, -1.0, -0.2, 0.0, 1e-3, 0.7, 2.5, 40.0], jnp.float32)
    f = np.asarray(b.forward(xs))
    inv = np.asarray(b.inverse(b.forward(xs[1:-1])))
    der = np.asarray(jax.vmap(jax.grad(lambda t: b.forward(t)))(xs))
    fl = np.asarray(b.forward_log_det_jacobian(xs, event_ndims=0))
    ys = jnp.asarray([-0.99, -0.5, 0.0, 0.3, 0.9], jnp.float32)
    dinv = np.asarray(jax.vmap(jax.grad(lambda t: b.inverse(t)))(ys))
    il = np.asarray(b.inverse_log_det_jacobian(ys, event_ndims=0))
    ok = (np.all(np.abs(f) <= 1.0) and np.allclose(inv, np.asarray(xs[1:-1]), rtol=1e-3, atol=1e-4)
          and np.allclose(fl, np.log(der), rtol=1e-3, atol=1e-4) and np.allclose(il, np.log(dinv), rtol=1e-3, atol=1e-4))
    col.add(None if ok else {"sig": "native::sigmoid", "what": "inverse/forward or log-det-Jacobian = log-derivative fails on the grid", "input": {"grid": [float(v) for v in xs]}})
    # tails: log f'(x) = -1.5 log(1 + x^2) and log (f^-1)'(y) = -1.5 log(1 - y^2) in closed form (float64 reference), eager and jit
    tails = np.array([-9999.0, -2000.0, -300.0, -100.0, 100.0, 300.0, 2000.0, 9999.0])
    want = -1.5 * np.log1p(tails ** 2)
    ytail = np.array([-0.9999, -0.999, 0.999, 0.9999])
    wanty = -1.5 * np.log1p(-ytail.astype(np.float32).astype(np.float64) ** 2)
    bad = None
    for how, run in (("eager", lambda fn, v: fn(v)), ("jit", lambda fn, v: jax.jit(fn)(v))):
        got = np.asarray(run(lambda t: AlgebraicSigmoid().forward_log_det_jacobian(t, event_ndims=0), jnp.asarray(tails, jnp.float32)), dtype=np.float64)
        if not np.allclose(got, want, rtol=2e-4, atol=1e-4):
            j = int(np.argmax(np.abs(got - want)))
            bad = f"{how}: forward_log_det_jacobian({tails[j]}) = {got[j]}, log-derivative of the forward map is {want[j]}"
            break
        goty = np.asarray(run(lambda t: AlgebraicSigmoid().inverse_log_det_jacobian(t, event_ndims=0), jnp.asarray(ytail, jnp.float32)), dtype=np.float64)
        if not np.allclose(goty, wanty, rtol=2e-3, atol=1e-3):
            j = int(np.argmax(np.abs(goty - wanty)))
            bad = f"{how}: inverse_log_det_jacobian({ytail[j]}) = {goty[j]}, log-derivative of the inverse map is {wanty[j]}"
            break
    col.add(None if bad is None else {"sig": "native::sigmoid_tails", "what": bad, "input": {"x": tails.tolist(), "y": ytail.tolist()}})


def copula_cases(col):
    from scipy.stats import norm

    # interior points incl. coordinates far out in the corners of the open unit square (1e-8, 1e-10, the largest float32 below 1)
    us = np.array([[0.05, 0.9], [0.5, 0.5], [0.3, 0.6], [0.99, 0.02], [0.7, 0.71], [1e-8, 0.5], [0.4, 1e-10], [float(np.float32(1.0) - np.float32(6e-8)), 0.3]])
    us = np.asarray(us.astype(np.float32), np.float64)  # the reference is evaluated at exactly the float32 points
    for rho in (-0.95, -0.5, -0.1, 0.0, 0.3, 0.8, 0.99):
        for validate in (False, True):
            inp = {"dependence": rho, "validate_args": validate}
            try:
                d = GaussianCopula(rho, validate_args=validate)
                got = np.asarray(d.log_prob(jnp.asarray(us, jnp.float32)))
            except Exception as e:
                col.add({"sig": "native::copula::raises", "what": f"GaussianCopula({rho}, validate_args={validate}) raised {type(e).__name__}", "input": inp})
                continue
            a, b = norm.ppf(us[:, 0]), norm.ppf(us[:, 1])
            want = -0.5 * np.log(1 - rho**2) - (rho**2 * (a**2 + b**2) - 2 * rho * a * b) / (2 * (1 - rho**2))
            col.add(None if np.allclose(got, want, rtol=5e-3, atol=5e-3) else
                    {"sig": "native::copula::density", "what": f"log-density {got.round(4).tolist()} vs closed form {want.round(4).tolist()}", "input": inp})
    # batches of dependences (1, 2 and 3 batch axes, non-symmetric, non-square): every batch member against the closed form
    u0 = np.array([0.3, 0.6])
    a, b = norm.ppf(u0[0]), norm.ppf(u0[1])
    for rho in (np.array([-0.3, 0.2, 0.5]), np.array([[-0.3, 0.2], [0.5, 0.8]]), np.array([[0.1, 0.5, -0.7], [-0.3, 0.8, 0.0]]), np.arange(-3, 5).reshape(2, 2, 2) / 10.0):
        for validate in (False, True):
            inp = {"dependence": rho.tolist(), "validate_args": validate}
            try:
                got = np.asarray(GaussianCopula(jnp.asarray(rho, jnp.float32), validate_args=validate).log_prob(jnp.asarray(u0, jnp.float32)))
            except Exception as e:
                col.add({"sig": "native::copula::raises", "what": f"batch of dependences of shape {rho.shape} raised {type(e).__name__}: {str(e)[:100]}", "input": inp})
                continue
            want = -0.5 * np.log(1 - rho**2) - (rho**2 * (a**2 + b**2) - 2 * rho * a * b) / (2 * (1 - rho**2))
            col.add(None if got.shape == rho.shape and np.allclose(got, want, rtol=5e-3, atol=5e-3) else
                    {"sig": "native::copula::batch", "what": f"batch of dependences: log-density {np.round(got, 4).tolist()} vs closed form per member {np.round(want, 4).tolist()}", "input": inp})


def bounded(tier, seed):
    rng = np.random.default_rng(seed)
    col = util.Collector()
    n = 25 if tier == "quick" else 600
    mvn_cases(col, rng, n)
    tiny_eigenvalue_cases(col)
    try:
        integer_penalty_cases(col)
    except Exception as e:
        col.add({"sig": f"native::mvn_degen::exception::{type(e).__name__}", "what": str(e)[:200], "input": {"scenario": "integer penalty matrix"}})
    col.add(user_tolerance_case())
    col.add(high_dimension_case())
    batch_cases(col, rng)
    try:
        sampling_factor_constructor_cases(col, rng)
        sampling_factor_user_tolerance_cases(col, rng)
    except Exception as e:
        col.add({"sig": f"native::mvn_degen::exception::{type(e).__name__}", "what": str(e)[:200], "input": {"scenario": "sampling factor, constructor variants"}})
    try:
        sampling_factor_cases(col, rng)
    except Exception as e:
        col.add({"sig": f"native::mvn_degen::exception::{type(e).__name__}", "what": str(e)[:200], "input": {"scenario": "sampling factor"}})
    sigmoid_cases(col)
    copula_cases(col)
    return {
        "evaluations": col.evals, "distinct_nontrivial": col.evals,
        "rule": (f"BOUNDED: {n} seeded degenerate-MVN cases (dim 1-4, rank 0..dim, variance in {{0.37,1,5}}) x 7 constructor variants (plus a hand-written int32 penalty matrix with fractional variances 2.5 and 0.4 x 4 penalty constructors) against an eigendecomposition "
                 "reference incl. null-space invariance; RW1 penalty with eigenvalues scaled by 1e7 / 1e-7 and supplied rank; user tolerances 1e-12 / 0.5 with derived rank and log_pdet; a 50-dimensional rank-49 penalty with variance 50 / 0.02 (pseudo-determinant outside the float32 range) through four constructors; a (2,2) batch; the sampling factor S (S S' = pseudo-inverse, columns = rank, samples in the range space) for well- and ill-conditioned precisions, and for rotated (non-diagonal) full-rank / rank-deficient precisions through 6 constructor variants (supplied rank as python int, numpy integer, with log_pdet) incl. the empirical covariance of 4000 draws; Gaussian copula also for batches of dependences with 1-3 batch axes (non-symmetric, non-square); algebraic sigmoid on a 9-point grid and in the tails (|x| up to 9999, |y| up to 0.9999, closed-form float64 reference, eager and jit) "
                 "(inverse, |forward| <= 1, ldj = log of jax.grad); Gaussian copula on 7 dependences in (-1,1) x 8 points (incl. coordinates 1e-8, 1e-10 and the largest float32 below 1) x validate_args in {False, True} against the closed form, "
                 f"plus a matrix batch. Sampling-distribution clauses are not checked (not applicable to this family). seed={seed}"),
        "samples": [{"dim": 4, "rank": 2, "var": 0.37}, {"dependence": -0.5, "validate_args": True}],
        "exhaustive": False, "violations": col.violations,
    }


def replay(unit_id, obligation, model):
    if unit_id == "C18.mvn_degen_init":
        return user_tolerance_case()
    if unit_id != "C18.copula_init":
        return None
    try:
        rho = float(model["dependence"]["float"])
    except (KeyError, TypeError, ValueError):
        return None
    for validate in (True, False):
        try:
            GaussianCopula(rho if rho != 0.0 else -0.5, validate_args=validate)
            if rho >= 0:
                GaussianCopula(-0.5, validate_args=validate)
        except Exception as e:
            return {"sig": "native::copula::raises", "what": f"GaussianCopula raised {type(e).__name__} for a dependence in (-1,1) with validate_args={validate}",
                    "input": {"dependence": rho if rho < 0 else -0.5, "validate_args": validate}}
    return None

"""C19 bounded stand-in: every error-code pattern for 1-2 chains x 4 iterations x codes {0,1,2} (2 warmup + 2 posterior
transitions) through the real get_error_log / _make_error_summary / Summary._error_df; ArviZ and pickle round trips of a real run."""
from __future__ import annotations

import itertools
import os
import random
import tempfile

import jax.numpy as jnp
import numpy as np

from rtc import util
from rtc.fixtures import RecordingKernel, make_engine, mk_cfg
from liesel.goose.chain import EpochChainManager
from liesel.goose.engine import SamplingResults
from liesel.goose.kernel import DefaultTransitionInfo
from liesel.goose.summary_m import Summary, _make_error_summary
from liesel.option import Option

BOOK = RecordingKernel.error_book


def results_from_codes(E, split_posterior=False):
    """E: int array (chains, 4): columns 0,1 burn-in, 2,3 posterior (one posterior epoch, or two of one transition each)"""
    chains = E.shape[0]
    tim, pos = EpochChainManager(), EpochChainManager(apply_thinning=True)
    layout = ((mk_cfg(0, 1, 1), None), (mk_cfg(3, 2, 1), slice(0, 2)), (mk_cfg(4, 2, 1), slice(2, 4)))
    if split_posterior:
        layout = ((mk_cfg(0, 1, 1), None), (mk_cfg(3, 2, 1), slice(0, 2)), (mk_cfg(4, 1, 1), slice(2, 3)), (mk_cfg(4, 1, 1), slice(3, 4)))
    for cfg, cols in layout:
        tim.advance_epoch(cfg)
        pos.advance_epoch(cfg)
        if cols is None:
            pos.append({"p0": jnp.zeros((chains, 1))})
            continue
        e = jnp.asarray(E[:, cols], dtype=jnp.int32)
        tim.append({"kernel_00": DefaultTransitionInfo(error_code=e, acceptance_prob=jnp.ones_like(e, dtype=jnp.float32), position_moved=jnp.ones_like(e))})
        pos.append({"p0": jnp.zeros((chains, e.shape[1]))})
    return SamplingResults(positions=pos, transition_infos=tim, generated_quantities=Option(None), tuning_infos=Option(None), kernel_states=Option(None),
                           full_model_states=Option(None), kernel_classes=Option({"kernel_00": RecordingKernel}), kernels_by_pos_key=Option({"p0": "kernel_00"}))


def check_pattern(E, split_posterior=False):
    inp = {"error_codes": E.tolist(), "warmup_columns": [0, 1], "posterior_columns": [2, 3], "posterior_epochs": 2 if split_posterior else 1}
    res = results_from_codes(E, split_posterior)
    log = res.get_error_log(False).unwrap()
    plog = res.get_error_log(True)
    kel = log["kernel_00"]
    mask = np.any(E != 0, axis=0)
    if not (np.array_equal(np.asarray(kel.transition), np.where(mask)[0]) and np.array_equal(np.asarray(kel.error_codes), E[:, mask])):
        return {"sig": "native::errors::error_log", "what": "error log does not hold exactly the transitions with an error and their codes", "input": inp}
    es = _make_error_summary(log, plog)["kernel_00"]
    want_codes = sorted(int(c) for c in np.unique(E) if c != 0)
    if sorted(es) != want_codes:
        return {"sig": "native::errors::summary_codes", "what": f"summary reports codes {sorted(int(k) for k in es)} but the run returned {want_codes}", "input": inp}
    for c in want_codes:
        e = es[c]
        tot, post = (E == c).sum(axis=1), (E[:, 2:] == c).sum(axis=1)
        if not (np.array_equal(np.asarray(e.count_per_chain), tot) and np.array_equal(np.asarray(e.count_per_chain_posterior), post)):
            return {"sig": "native::errors::summary_counts", "what": f"code {c}: counts {np.asarray(e.count_per_chain).tolist()} / posterior {np.asarray(e.count_per_chain_posterior).tolist()}, "
                    f"expected {tot.tolist()} / {post.tolist()}", "input": inp}
        if e.error_msg != BOOK[c] or e.error_code != c:
            return {"sig": "native::errors::summary_message", "what": f"code {c}: message {e.error_msg!r}", "input": inp}
    if want_codes:
        s = object.__new__(Summary)
        s.error_summary = {"kernel_00": es}
        s.sample_info = {"num_chains": E.shape[0], "sample_size_per_chain": 2, "warmup_size_per_chain": 2}
        df = s._error_df(per_chain=True)
        for c in want_codes:
            for j in range(E.shape[0]):
                for phase, cols in (("warmup", slice(0, 2)), ("posterior", slice(2, 4))):
                    got = int(df.loc[("kernel_00", c, BOOK[c], phase, j), "count"])
                    if got != int((E[j, cols] == c).sum()):
                        return {"sig": "native::errors::error_df", "what": f"error_df: kernel_00 code {c} chain {j} {phase}: {got}, expected {int((E[j, cols] == c).sum())}", "input": inp}
    return None


def engine_error_log_case(col, minimize, codes=(0, 1, 0, 2, 1)):
    """a real engine run with scripted error codes and THINNED warmup / posterior epochs, with and without minimize_transition_infos: the error
    log and the summary count every transition that returned a code - thinning of the stored samples never thins the error bookkeeping;
    also with bit-flag style codes >= 256 and with NEGATIVE codes (a user kernel's error book; -1 = kernel skipped in the Kernel protocol)"""
    sched = [(0, 1, 1), (3, 8, 4), (4, 12, 3)]
    codes = list(codes)
    RecordingKernel.error_book.update({256: "flag 8", 257: "flag 8 and flag 0", -1: "kernel skipped", -7: "negative user code"})
    eng = make_engine(sched, 4, chains=2, kernels=1, codes=[codes], minimize_transition_infos=minimize)
    eng.sample_all_epochs()
    res = eng.get_results()
    T = 20
    want = np.array([codes[t % 5] for t in range(1, T + 1)])
    log = res.get_error_log().unwrap()["kernel_00"]
    full = np.zeros((2, T), dtype=int)
    idx = np.asarray(log.transition)
    ok = idx.size == 0 or idx.max() < T
    if ok:
        full[:, idx] = np.asarray(log.error_codes)
    ok = ok and np.array_equal(full, np.tile(want, (2, 1)))
    es = _make_error_summary(res.get_error_log(False).unwrap(), res.get_error_log(True))["kernel_00"]
    for c_ in sorted(set(codes) - {0}):
        ok = ok and c_ in es and es[c_].error_msg == RecordingKernel.error_book[c_] and int(np.asarray(es[c_].count_per_chain)[0]) == int((want == c_).sum()) and int(np.asarray(es[c_].count_per_chain_posterior)[0]) == int((want[8:] == c_).sum())
    col.add(None if ok else {"sig": "native::errors::engine_log_thinned_epochs", "what": f"minimize_transition_infos={minimize}: the error log holds codes at transitions {idx.tolist()} "
                             f"but the kernel returned a code at {np.where(want != 0)[0].tolist()} (thinning 4 / 3), or the summary counts / messages for codes {sorted(set(codes) - {0})} are off",
                             "input": {"schedule": sched, "minimize_transition_infos": minimize, "codes": codes}})


def many_chunks_case(col):
    """an epoch stored in MANY chunks (chunk size 1, 130 posterior transitions = 130 chunks): the error log and the stored sample count still
    account for every single transition"""
    sched = [(0, 1, 1), (3, 7, 1), (4, 130, 1)]
    codes = [0, 1, 0, 0, 2, 0, 1]
    eng = make_engine(sched, 1, chains=2, kernels=1, codes=[codes])
    eng.sample_all_epochs()
    res = eng.get_results()
    T = 137
    want = np.array([codes[t % 7] for t in range(1, T + 1)])
    log = res.get_error_log().unwrap()["kernel_00"]
    full = np.zeros((2, T), dtype=int)
    idx = np.asarray(log.transition)
    ok = idx.size > 0 and idx.max() < T
    if ok:
        full[:, idx] = np.asarray(log.error_codes)
    ok = ok and np.array_equal(full, np.tile(want, (2, 1)))
    n_post = int(np.asarray(res.get_posterior_samples()["p0"]).shape[1])
    ok = ok and n_post == 130
    col.add(None if ok else {"sig": "native::errors::many_chunks", "what": f"130 posterior transitions stored in 130 chunks: {n_post} posterior samples stored; error log holds {int((full != 0).sum())} "
                             f"non-zero codes, the kernel returned {int(2 * (want != 0).sum())}", "input": {"schedule": sched, "chunk": 1}})


class OtherBookKernel(RecordingKernel):
    error_book = {0: "no errors", 1: "OTHER kernel, code one", 2: "OTHER kernel, code two"}


def two_kernel_classes_case(col):
    """two kernels of DIFFERENT classes (different documented messages) whose identifiers sort differently from the order they were added in
    ('zeta' first, then 'alpha'): every entry of the error log / summary carries ITS kernel's class and messages"""
    import jax
    import liesel.goose as gs
    from liesel.goose.engine import Engine
    from liesel.goose.kernel_sequence import KernelSequence
    ka, kb = RecordingKernel(["p0"], codes=[0, 1, 0, 0]), OtherBookKernel(["p1"], codes=[0, 0, 2, 0, 1])
    model = gs.DictInterface(lambda s_: 0.0)
    for k_, ident in ((ka, "zeta"), (kb, "alpha")):
        k_.set_model(model)
        k_.identifier = ident
    sched = [(0, 1, 1), (3, 6, 1), (4, 10, 1)]
    eng = Engine(seeds=jax.random.split(jax.random.PRNGKey(1), 2), model_states={"p0": jnp.zeros(2), "p1": jnp.zeros(2)}, kernel_sequence=KernelSequence([ka, kb]),
                 epoch_configs=[mk_cfg(*c) for c in sched], jitted_sample_duration=2, model=model, position_keys=None, show_progress=False)
    eng.sample_all_epochs()
    res = eng.get_results()
    log = res.get_error_log().unwrap()
    bad = None
    for ident, cls in (("zeta", RecordingKernel), ("alpha", OtherBookKernel)):
        got = log[ident].kernel_cls.unwrap() if hasattr(log[ident].kernel_cls, "unwrap") else log[ident].kernel_cls
        if got is not cls:
            bad = f"error log entry of kernel {ident!r} refers to class {getattr(got, '__name__', got)}, the kernel is a {cls.__name__}"
            break
    if bad is None:
        es = Summary(res).error_summary
        for ident, cls in (("zeta", RecordingKernel), ("alpha", OtherBookKernel)):
            for code, e in es[ident].items():
                if e.error_msg != cls.error_book[code]:
                    bad = f"summary of kernel {ident!r}, code {code}: message {e.error_msg!r}, the kernel documents {cls.error_book[code]!r}"
    col.add(None if bad is None else {"sig": "native::errors::kernel_class_of_the_entry", "what": bad, "input": {"kernels": [["zeta", "RecordingKernel"], ["alpha", "OtherBookKernel"]]}})


def shared_identifier_case(col):
    """a kernel REUSED from an earlier build keeps the identifier it was given there ('kernel_01'); put first in a second builder next to a fresh kernel
    (which is auto-named 'kernel_01' as well) the two would share one record. Either the configuration is rejected (RuntimeError) or BOTH kernels' error
    codes are reported - silently losing one kernel's codes is the failure"""
    import liesel.goose as gs
    model = gs.DictInterface(lambda s_: 0.0)
    sched = [(0, 1, 1), (3, 6, 1), (4, 10, 1)]

    def builder(kernels):
        b = gs.EngineBuilder(seed=3, num_chains=2)
        b.set_epochs([mk_cfg(*c) for c in sched])
        b.set_model(model)
        b.set_initial_values({"p0": jnp.zeros(2), "p1": jnp.zeros(2)})
        for k_ in kernels:
            b.add_kernel(k_)
        b.show_progress = False
        return b

    first, reused = RecordingKernel(["p0"]), RecordingKernel(["p1"], codes=[0, 1, 0, 2, 1])
    builder([first, reused]).build()  # names them kernel_00, kernel_01
    fresh = OtherBookKernel(["p0"], codes=[0, 0, 2, 0, 1])
    try:
        eng = builder([reused, fresh]).build()
    except RuntimeError:
        col.add(None)
        return
    eng.sample_all_epochs()
    log = eng.get_results().get_error_log().unwrap()
    ok = len(log) == 2
    col.add(None if ok else {"sig": "native::errors::shared_identifier", "what": f"two kernels ran with identifiers {[reused.identifier, fresh.identifier]}; the error log knows {sorted(log)} only - one kernel's error codes are lost",
                             "input": {"kernels": "kernel reused from an earlier build (kept 'kernel_01') placed first + a fresh kernel"}})


def roundtrips(col, seed):
    from liesel.experimental.arviz import to_arviz_inference_data

    sched = [(0, 1, 1), (3, 4, 2), (4, 6, 3)]
    eng = make_engine(sched, 2, chains=2, kernels=2, codes=[[0, 1, 0, 2, 0], [0, 0, 0]], use_key=True, seed=seed)
    eng.sample_all_epochs()
    res = eng.get_results()
    post = {k: np.asarray(v) for k, v in res.get_posterior_samples().items()}
    allp = {k: np.asarray(v) for k, v in res.get_samples().items()}
    inp = {"schedule": sched}
    idata = to_arviz_inference_data(res, include_warmup=True)
    ok = all(np.array_equal(np.asarray(idata.posterior[k].values), post[k]) for k in post)
    warm = {k: np.asarray(v) for k, v in res.positions.combine_filtered(lambda ec: ec.type.is_warmup(ec.type)).unwrap().items()}
    ok = ok and all(np.array_equal(np.asarray(idata.warmup_posterior[k].values), warm[k]) for k in warm)
    col.add(None if ok else {"sig": "native::roundtrip::arviz", "what": "ArviZ inference data does not hold exactly the stored posterior / warmup samples", "input": inp})
    with tempfile.TemporaryDirectory(dir=os.environ.get("VERIF_TMP", "/var/tmp")) as d:
        p = os.path.join(d, "res.pkl")
        res.pkl_save(p)
        back = SamplingResults.pkl_load(p)
    b_all = {k: np.asarray(v) for k, v in back.get_samples().items()}
    ok = sorted(b_all) == sorted(allp) and all(np.array_equal(b_all[k], allp[k]) for k in allp)
    e1, e2 = res.get_error_log().unwrap(), back.get_error_log().unwrap()
    ok = ok and all(np.array_equal(np.asarray(e1[k].error_codes), np.asarray(e2[k].error_codes)) for k in e1)
    col.add(None if ok else {"sig": "native::roundtrip::pickle", "what": "pickled and reloaded results differ from the stored samples / error log", "input": inp})
    # engine-level counts agree with the codes the kernel was scripted to return
    T = 10
    times = np.arange(1, 1 + T)
    want = np.array([[0, 1, 0, 2, 0][t % 5] for t in times])
    kel = e1["kernel_00"]
    full = np.zeros((2, T), dtype=int)
    full[:, np.asarray(kel.transition)] = np.asarray(kel.error_codes)
    col.add(None if np.array_equal(full, np.tile(want, (2, 1))) else {"sig": "native::errors::engine_log", "what": "engine error log differs from the codes the kernel returned", "input": inp})
    summ = Summary(res)
    n_stored = post["p0"].shape[1]
    ok = summ.sample_info["sample_size_per_chain"] == n_stored == 2 and summ.sample_info["num_chains"] == 2
    col.add(None if ok else {"sig": "native::errors::sample_info", "what": f"reported sample counts {summ.sample_info} but {n_stored} posterior samples per chain are stored", "input": inp})


def bounded(tier, seed):
    rng = random.Random(seed)
    col = util.Collector()
    pats = [np.array(p, dtype=int).reshape(1, 4) for p in itertools.product((0, 1, 2), repeat=4)]
    two = [np.array(p, dtype=int).reshape(2, 4) for p in itertools.product((0, 1, 2), repeat=8)]
    if tier == "quick":
        two = rng.sample(two, 500) + [np.array([[1, 0, 2, 0], [1, 0, 2, 0]]), np.array([[0, 0, 0, 0], [0, 0, 0, 0]]), np.array([[2, 2, 0, 0], [0, 0, 0, 0]]), np.array([[0, 0, 1, 1], [0, 0, 0, 2]])]
    pats += two
    for E in pats:
        try:
            col.add(check_pattern(E))
            if E.shape[0] == 1 or (E[:, 2:] != 0).any():
                col.add(check_pattern(E, split_posterior=True))
        except Exception as e:
            col.add({"sig": f"native::errors::exception::{type(e).__name__}", "what": f"{type(e).__name__}: {str(e)[:200]}", "input": {"error_codes": E.tolist()}})
    roundtrips(col, seed)
    try:
        two_kernel_classes_case(col)
    except Exception as e:
        col.add({"sig": f"native::errors::exception::{type(e).__name__}", "what": f"{type(e).__name__}: {str(e)[:200]}", "input": {"scenario": "two kernel classes"}})
    try:
        shared_identifier_case(col)
    except Exception as e:
        col.add({"sig": f"native::errors::exception::{type(e).__name__}", "what": f"{type(e).__name__}: {str(e)[:200]}", "input": {"scenario": "kernel reused from an earlier build"}})
    try:
        many_chunks_case(col)
    except Exception as e:
        col.add({"sig": f"native::errors::exception::{type(e).__name__}", "what": f"{type(e).__name__}: {str(e)[:200]}", "input": {"scenario": "many chunks"}})
    # (negative codes are codes like any other: the Kernel protocol itself documents -1 for a skipped kernel)
    for mini, cds in ((False, (0, 1, 0, 2, 1)), (True, (0, 1, 0, 2, 1)), (True, (0, 256, 1, 257, 0)), (False, (0, 256, 1, 257, 0)), (False, (0, -1, 0, -7, -1)), (True, (-1, 0, 2, 0, -1))):
        try:
            engine_error_log_case(col, mini, cds)
        except Exception as e:
            col.add({"sig": f"native::errors::exception::{type(e).__name__}", "what": f"{type(e).__name__}: {str(e)[:200]}", "input": {"scenario": "engine error log", "minimize_transition_infos": mini}})
    return {
        "evaluations": col.evals, "distinct_nontrivial": len(pats) + 4,
        "rule": ("BOUNDED: all 81 single-chain and " + ("500 seeded + 4 fixed" if tier == "quick" else "all 6561") + " two-chain error-code patterns over codes {0,1,2} for 2 burn-in + 2 posterior "
                 "transitions, pushed through the real EpochChainManager / SamplingResults.get_error_log / _make_error_summary / Summary._error_df(per_chain=True) and compared with direct "
                 "counting; an epoch stored in 130 chunks of one transition; a kernel reused from an earlier build next to a fresh one (shared auto-generated identifier: rejected, or both reported); two kernels of different classes whose identifiers sort differently from the order of adding (class and messages per entry); engine runs with thinned epochs with and without minimize_transition_infos, codes {0,1,2} and bit-flag codes {1,256,257} (error log / summary counts and messages per phase); one real engine run (scripted error codes, random-walk kernels, thinning) for the ArviZ (incl. warmup) and pickle round trips, the engine error log and the "
                 f"reported sample counts. seed={seed}"),
        "samples": [{"error_codes": [[1, 0, 2, 0]]}, {"error_codes": [[0, 0, 1, 1], [0, 0, 0, 2]]}],
        "exhaustive": tier != "quick", "violations": col.violations,
    }

"""C03 bounded stand-in: real LieselInterface on a model with a leaf derived node: eager = jit = vmap = direct assignment + update;
history independence; non-mutation; put/get for all four interfaces."""
from __future__ import annotations

import copy
from dataclasses import dataclass, field
from typing import NamedTuple

import jax
import jax.numpy as jnp
import numpy as np
import tensorflow_probability.substrates.jax.distributions as tfd

from rtc import util
import liesel.goose as gs
import liesel.model as lsl

Y = np.array([0.3, -0.8, 1.9], dtype=np.float32)


def build(auto_update=True):
    mu = lsl.param(np.float32(0.2), lsl.Dist(tfd.Normal, loc=0.0, scale=3.0), name="mu")
    ls = lsl.param(np.float32(0.1), lsl.Dist(tfd.Normal, loc=0.0, scale=1.0), name="log_sigma")
    sigma = lsl.Var(lsl.Calc(jnp.exp, ls), name="sigma")
    pred = lsl.Var(lsl.Calc(lambda m, s, centre: jnp.where(centre, 2.0 * m + s, 2.0 * m), mu, sigma, True), name="pred")  # a boolean option: the node value True
    y = lsl.obs(Y, lsl.Dist(tfd.Normal, loc=mu, scale=sigma), name="y")
    m = lsl.GraphBuilder().add(y, pred).build_model()
    m.auto_update = auto_update
    return m


def state_values(st):
    return {k: np.asarray(v.value, dtype=np.float32) if v.value is not None else None for k, v in st.items()}


def same(a, b):
    return a.keys() == b.keys() and all((a[k] is None and b[k] is None) or (a[k] is not None and b[k] is not None and np.shape(a[k]) == np.shape(b[k])
                                                                            and np.allclose(a[k], b[k], rtol=1e-6, atol=1e-6)) for k in a)


def liesel_case(col, auto_update, rng):
    inp = {"auto_update_of_user_model": auto_update}
    model = build(auto_update)
    before = state_values(model.state)
    iface = gs.LieselInterface(model)
    s = model.state
    s_before = state_values(s)
    p_hist = {"mu": jnp.float32(rng.normal()), "log_sigma_value": jnp.float32(rng.normal() * 0.3)}
    p = {"mu": jnp.float32(rng.normal()), "log_sigma_value": jnp.float32(rng.normal() * 0.3)}
    iface.update_state(p_hist, s)
    eager = state_values(iface.update_state(p, s))
    fresh = state_values(gs.LieselInterface(build(auto_update)).update_state(p, s))
    jitted = state_values(jax.jit(iface.update_state)(p, s))
    pv = {k: jnp.stack([v, v + 1.0]) for k, v in p.items()}
    vm = jax.vmap(iface.update_state, in_axes=(0, None))(pv, s)
    vm0 = {k: (np.asarray(v.value)[0] if v.value is not None else None) for k, v in vm.items()}
    ref = build(True)
    ref.vars["mu"].value = p["mu"]
    ref.nodes["log_sigma_value"].value = p["log_sigma_value"]
    ref.update()
    want = state_values(ref.state)
    bad = None
    if not same(eager, want):
        k = next(k for k in want if not ((eager[k] is None and want[k] is None) or np.allclose(eager[k], want[k], rtol=1e-6, atol=1e-6)))
        bad = f"node {k}: interface returned {eager[k]}, direct assignment + update gives {want[k]}"
    elif not same(eager, fresh):
        bad = "result depends on earlier interface calls"
    elif not same(eager, jitted):
        bad = "eager and jit results differ"
    elif not same({k: v for k, v in eager.items()}, {k: (None if v is None else np.asarray(v, np.float32)) for k, v in vm0.items()}):
        bad = "eager and vmap results differ"
    elif not same(state_values(s), s_before):
        bad = "input state was modified"
    elif not same(state_values(model.state), before):
        bad = "the user's model was modified"
    else:
        out = iface.update_state(p, s)
        got = iface.extract_position(list(p), out)
        got_it = iface.extract_position((k for k in p), out)  # the keys as a one-shot iterable
        if not all(np.allclose(np.asarray(got[k]), np.asarray(p[k])) for k in p):
            bad = "extract_position does not give the position back"
        elif sorted(got_it) != sorted(p) or not all(np.allclose(np.asarray(got_it[k]), np.asarray(p[k])) for k in p):
            bad = f"extract_position with the keys given as a generator returns {dict(got_it)}, the position is {p}"
        elif not np.isclose(float(iface.log_prob(out)), float(ref.log_prob), rtol=1e-5):
            bad = "interface log_prob differs from the model's"
        elif any(bool(v.outdated) for v in out.values()):
            bad = "returned state has outdated nodes"
    col.add({"sig": "native::interface::liesel", "what": bad, "input": inp} if bad else None)


def ambiguous_key_case(col):
    """a position key that names a node AND (another) variable: put/get must still agree"""
    scale = lsl.param(np.float32(1.0), lsl.Dist(tfd.HalfNormal, scale=3.0), name="scale")      # value node 'scale_value'
    other = lsl.Var(np.float32(7.0), name="scale_value")                                         # a VARIABLE called 'scale_value'
    tau_node = lsl.Value(np.float32(2.0), _name="tau")
    tau_var = lsl.Var(np.float32(9.0), name="tau")
    y = lsl.obs(Y, lsl.Dist(tfd.Normal, loc=lsl.Calc(lambda a, b, c, d: jnp.float32(0.0) * (jnp.asarray(a, jnp.float32) + jnp.asarray(b, jnp.float32) + jnp.asarray(c, jnp.float32) + jnp.asarray(d, jnp.float32)), scale, other, tau_node, tau_var), scale=scale), name="y")
    try:
        model = lsl.GraphBuilder().add(y).build_model()
    except RuntimeError:
        col.add(None)  # the library rejects such models: nothing to check
        return
    iface = gs.LieselInterface(model)
    s = model.state
    bad = None
    for key, val in (("scale_value", 3.5), ("tau", 4.5)):
        out = iface.update_state({key: jnp.float32(val)}, s)
        got = float(iface.extract_position([key], out)[key])
        if got != val:
            bad = f"extract_position({key!r}) after update_state({{{key!r}: {val}}}) gives {got}"
            break
        back = iface.update_state(iface.extract_position([key], s), s)
        if not same(state_values(back), state_values(iface.update_state({}, s))):
            bad = f"update_state(extract_position([{key!r}], s), s) is not a no-op"
            break
    col.add({"sig": "native::interface::ambiguous_key", "what": bad, "input": {"keys": ["scale_value", "tau"]}} if bad else None)


@dataclass
class DC:
    a: float
    b: float


@dataclass
class DCDerived:
    """a state with a field that is not a constructor argument (the idiom liesel uses for its own kernel states)"""
    a: float
    b: float
    offset: float = field(init=False)
    total: float = field(init=False, default=0.0)

    def __post_init__(self):
        self.offset = 0.0


@dataclass
class Params:
    loc: float
    scale: float


@dataclass
class DCNested:
    params: Params
    x: float


class NTNested(NamedTuple):
    params: Params
    x: float


def nested_record_case(col):
    """a field that holds another record (nested dataclass instance): get-after-put returns what was put - the same record type with the
    same contents - and feeding the extracted position back is a no-op; for the dataclass and the named-tuple interface"""
    bad = None
    for name, iface, st in (("dataclass", gs.DataclassInterface(lambda s: s.params.loc), DCNested(Params(0.0, 1.0), 3.0)),
                            ("namedtuple", gs.NamedTupleInterface(lambda s: s.params.loc), NTNested(Params(0.0, 1.0), 3.0))):
        put = Params(2.5, 0.7)
        new = iface.update_state({"params": put}, st)
        got = iface.extract_position(["params"], new)
        if not (isinstance(got["params"], Params) and got["params"] == put):
            bad = f"{name}: extract_position after update_state({{'params': Params(2.5, 0.7)}}) returned {got['params']!r} ({type(got['params']).__name__})"
            break
        again = iface.update_state(got, new)
        if not (again == new and float(iface.log_prob(again)) == 2.5 and st.params == Params(0.0, 1.0)):
            bad = f"{name}: feeding the extracted position back changed the state: {again!r} vs {new!r}"
            break
    col.add(None if bad is None else {"sig": "native::interface::nested_record_field", "what": bad, "input": {"state": "record with a field holding a nested dataclass instance"}})


class NT(NamedTuple):
    a: float
    b: float


def simple_cases(col):
    for name, iface, st, rd in (("dict", gs.DictInterface(lambda s: s["a"] * 2), {"a": 1.0, "b": 2.0}, lambda s, k: s[k]),
                                ("dataclass", gs.DataclassInterface(lambda s: s.a * 2), DC(1.0, 2.0), getattr),
                                ("namedtuple", gs.NamedTupleInterface(lambda s: s.a * 2), NT(1.0, 2.0), getattr)):
        before = copy.deepcopy(st)
        new = iface.update_state({"b": 5.0}, st)
        ok = (rd(new, "b") == 5.0 and rd(new, "a") == 1.0 and st == before and iface.extract_position(["b"], new)["b"] == 5.0 and iface.log_prob(new) == 2.0
              and dict(iface.extract_position(iter(["b", "a"]), new)) == {"b": 5.0, "a": 1.0})
        col.add(None if ok else {"sig": f"native::interface::{name}", "what": "put/get / non-mutation / log_prob law fails", "input": {"interface": name}})


def param_dependent_bijector_case(col):
    """x ~ Uniform(low, high) re-parameterised with the default bijector Sigmoid(low, high): a position that also changes `high` must give the
    state of direct assignment, eagerly and under jit, whatever the user's own model currently holds"""
    import jax
    import tensorflow_probability.substrates.jax.distributions as tfd_

    def mk():
        low, high = lsl.Var(np.float32(0.0), name="low"), lsl.Var(np.float32(2.0), name="high")
        x = lsl.param(np.float32(0.5), lsl.Dist(tfd_.Uniform, low=low, high=high), name="x")
        x.transform()
        y = lsl.obs(np.array([0.3, 1.0, 1.9], np.float32), lsl.Dist(tfd_.Normal, loc=x, scale=1.0), name="y")
        return lsl.GraphBuilder().add(y).build_model()

    model = mk()
    iface = gs.LieselInterface(model)
    pos = {"high": jnp.float32(5.0), "x_transformed": jnp.float32(0.4)}
    ref = mk()
    ref.vars["high"].value = np.float32(5.0)
    ref.vars["x_transformed"].value = np.float32(0.4)
    ref.update()
    want = {k: np.asarray(v.value, np.float64) for k, v in ref.state.items() if v.value is not None}
    # ... and an ANALYTIC reference (a fresh model runs the same transformation code): x = low + (high - low) * sigmoid(t) at the position's high
    x_true = 0.0 + (5.0 - 0.0) / (1.0 + np.exp(-0.4))
    bad = None
    if not np.isclose(float(want["x_value"]), x_true, rtol=1e-5):
        bad = f"direct assignment on a fresh model: x = {float(want['x_value'])}, but Sigmoid(low=0, high=5).forward(0.4) = {x_true}"
    for how, fn in (("eager", iface.update_state), ("jit", jax.jit(iface.update_state))):
        if bad:
            break
        st = fn(pos, model.state)
        if not np.isclose(float(st["x_value"].value), x_true, rtol=1e-5):
            bad = f"{how}: x = {float(st['x_value'].value)} in the returned state, but Sigmoid(low=0, high=5).forward(0.4) = {x_true}"
            break
        for k, w in want.items():
            g_ = np.asarray(st[k].value, np.float64)
            if g_.shape != w.shape or not np.allclose(g_, w, rtol=1e-5, atol=1e-6):
                bad = f"{how}: node {k} = {g_.tolist()}, direct assignment + full update gives {w.tolist()}"
                break
        if bad:
            break
    col.add(None if bad is None else {"sig": "native::interface::parameter_dependent_bijector", "what": bad, "input": {"position": {"high": 5.0, "x_transformed": 0.4}, "user_model_high": 2.0}})


def dtype_case(col):
    """a state entry of INTEGER dtype and a position that assigns a fractional value to it (by variable and by node name): the result is
    what direct assignment gives - the value as given - eagerly and under jit"""
    import jax
    k = lsl.Var(jnp.array(2, dtype=jnp.int32), name="k")
    y = lsl.obs(np.float32(0.4), lsl.Dist(tfd.Normal, loc=lsl.Calc(lambda v: v * 1.0, k), scale=1.0), name="y")
    model = lsl.GraphBuilder().add(y).build_model()
    iface = gs.LieselInterface(model)
    bad = None
    for key in ("k", "k_value"):
        for how, fn in (("eager", iface.update_state), ("jit", jax.jit(iface.update_state))):
            st = fn({key: jnp.float32(2.5)}, model.state)
            got = float(iface.extract_position([key], st)[key])
            lp = float(iface.log_prob(st))
            want_lp = float(tfd.Normal(2.5, 1.0).log_prob(0.4))
            if got != 2.5 or not np.isclose(lp, want_lp, rtol=1e-5):
                bad = f"{how}, key {key!r}: extract_position gives {got} for the assigned 2.5; log_prob {lp} vs {want_lp}"
                break
        if bad:
            break
    col.add(None if bad is None else {"sig": "native::interface::dtype_of_state_entry", "what": bad, "input": {"state_entry_dtype": "int32", "position_value": 2.5}})


def same_state_object_case(col):
    """two update_state calls on ONE interface with the SAME state object and different key sets: the second result must not contain
    anything of the first position (purity in the two arguments)"""
    a = lsl.param(np.float32(30.0), lsl.Dist(tfd.Normal, loc=0.0, scale=1.0), name="a")
    b = lsl.param(np.float32(0.0), lsl.Dist(tfd.Normal, loc=0.0, scale=1.0), name="b")
    model = lsl.GraphBuilder().add(a, b).build_model()
    iface = gs.LieselInterface(model)
    S = model.state
    s1 = iface.update_state({"a": jnp.float32(0.0)}, S)
    s2 = iface.update_state({"b": jnp.float32(20.0)}, S)
    got = (float(s2["a_value"].value), float(s2["b_value"].value), float(iface.log_prob(s2)))
    want_lp = float(tfd.Normal(0.0, 1.0).log_prob(30.0) + tfd.Normal(0.0, 1.0).log_prob(20.0))
    ok = got[0] == 30.0 and got[1] == 20.0 and np.isclose(got[2], want_lp, rtol=1e-5) and float(s1["a_value"].value) == 0.0
    col.add(None if ok else {"sig": "native::interface::leftover_of_earlier_call", "what": f"update_state({{'b': 20}}, S) after update_state({{'a': 0}}, S) gives (a, b, log_prob) = {got}, "
                             f"expected (30.0, 20.0, {want_lp})", "input": {"same_state_object": True, "key_sets": [["a"], ["b"]]}})


def non_finite_log_prob_case(col):
    """positions whose log-probability is not finite (a value outside a Uniform prior's support: -inf; a negative Normal scale: NaN): the interface reports exactly
    what the model itself reports after direct assignment and update - eagerly and under jit"""
    def build():
        mu = lsl.param(np.float32(0.0), lsl.Dist(tfd.Uniform, low=-5.0, high=5.0), name="mu")
        sigma = lsl.param(np.float32(1.0), lsl.Dist(tfd.Normal, loc=0.0, scale=10.0), name="sigma")
        y = lsl.obs(np.array([0.1, -0.3], np.float32), lsl.Dist(tfd.Normal, loc=mu, scale=sigma), name="y")
        return lsl.GraphBuilder().add(y).build_model()
    model = build()
    iface = gs.LieselInterface(model)
    bad = []
    for nm, pos in (("mu outside the support of its Uniform(-5, 5) prior", {"mu": jnp.float32(7.0)}), ("negative scale of the response distribution", {"sigma": jnp.float32(-1.0)}),
                    ("finite", {"mu": jnp.float32(1.0)})):
        ref = build()
        for k, v in pos.items():
            ref.vars[k].value = v
        ref.update()
        want = np.float32(ref.log_prob)
        for how, f in (("eager", iface.log_prob), ("jit", jax.jit(iface.log_prob))):
            got = np.float32(f(iface.update_state(pos, model.state)))
            if not (np.array_equal(got, want, equal_nan=True)):
                bad.append(f"{nm} ({how}): the interface reports {got}, the model itself reports {want}")
    col.add(None if not bad else {"sig": "native::interface::non_finite_log_prob", "what": "; ".join(bad[:3]), "input": {"positions": ["mu = 7 under Uniform(-5, 5)", "sigma = -1", "mu = 1"]}})


def two_models_case(col):
    """interfaces of TWO models in one process, whose models resolve the same position key to different nodes (default value node vs. an explicitly named
    node; variable vs. bare node): each reads and writes its own model's nodes, whichever was used first"""
    bad = []
    for order in ("A_first", "B_first"):
        xa = lsl.Var(np.float32(1.5), name="x")
        auxa = lsl.Var(np.float32(7.0), name="aux")
        ma = lsl.GraphBuilder().add(lsl.Var(lsl.Calc(lambda x_, a_: x_ + a_, xa, auxa), name="z")).build_model()
        raw = lsl.Var(np.float32(10.0), name="raw")
        xb = lsl.Var(lsl.Calc(lambda r_: (r_ - 4.0) / 2.0, raw, _name="x_std"), name="x")
        auxb = lsl.Value(np.float32(-3.0), _name="aux")
        mb = lsl.GraphBuilder().add(lsl.Var(lsl.Calc(lambda x_, a_: x_ * a_, xb, auxb), name="z")).build_model()
        ia, ib = gs.LieselInterface(ma), gs.LieselInterface(mb)
        want = {"A": {"x": 1.5, "aux": 7.0, "z": 8.5}, "B": {"x": 3.0, "aux": -3.0, "z": -9.0}}
        for which in (("A", "B") if order == "A_first" else ("B", "A")):
            iface, st = (ia, ma.state) if which == "A" else (ib, mb.state)
            try:
                got = {k: float(v) for k, v in iface.extract_position(["x", "aux", "z"], st).items()}
            except Exception as e:
                got = f"{type(e).__name__}: {e}"
            if got != want[which]:
                bad.append(f"{order}: extract_position(['x', 'aux', 'z']) on model {which} gives {got}, its state holds {want[which]}")
        try:
            out = ib.update_state({"raw": jnp.float32(6.0)}, mb.state)
            got = {k: float(v) for k, v in ib.extract_position(["raw", "x"], out).items()}
            if got != {"raw": 6.0, "x": 1.0}:
                bad.append(f"{order}: update_state({{'raw': 6}}) then extract_position(['raw', 'x']) on model B gives {got}, expected raw 6.0 and x = (6 - 4) / 2 = 1.0")
            out = ia.update_state({"x": jnp.float32(2.0)}, ma.state)
            got = {k: float(v) for k, v in ia.extract_position(["x", "z"], out).items()}
            if got != {"x": 2.0, "z": 9.0}:
                bad.append(f"{order}: update_state({{'x': 2}}) then extract_position(['x', 'z']) on model A gives {got}, expected x 2.0, z 9.0")
        except Exception as e:
            bad.append(f"{order}: put/get raised {type(e).__name__}: {str(e)[:120]}")
    col.add(None if not bad else {"sig": "native::interface::two_models_in_one_process", "what": "; ".join(bad[:3]), "input": {"models": "A: x on x_value, aux variable; B: x wraps node x_std = (raw - 4) / 2, aux bare node"}})


def optional_none_case(col):
    """an OPTIONAL input whose value in the state is None (a legitimate value: 'no offset'): after an earlier call that gave it a value, a call
    on the ORIGINAL state returns it as None again - with everything derived from it - and the user's model is untouched"""
    off = lsl.Var(None, name="offset")
    beta = lsl.param(np.float32(1.0), lsl.Dist(tfd.Normal, loc=0.0, scale=5.0), name="beta")
    eta = lsl.Var(lsl.Calc(lambda b, o: b * 2.0 if o is None else b * 2.0 + o, beta, off), name="eta")
    y = lsl.obs(np.array([0.5, 1.5], np.float32), lsl.Dist(tfd.Normal, loc=eta, scale=1.0), name="y")
    model = lsl.GraphBuilder().add(y).build_model()
    iface = gs.LieselInterface(model)
    s0 = model.state
    iface.update_state({"offset": jnp.float32(10.0)}, s0)
    r = iface.update_state({"beta": jnp.float32(2.0)}, s0)
    want_lp = float(tfd.Normal(0.0, 5.0).log_prob(2.0) + np.sum(np.asarray(tfd.Normal(4.0, 1.0).log_prob(np.array([0.5, 1.5], np.float32)))))
    got_off, got_eta, got_lp = r["offset_value"].value, float(r["eta_value"].value), float(iface.log_prob(r))
    ok = got_off is None and got_eta == 4.0 and np.isclose(got_lp, want_lp, rtol=1e-5) and model.vars["offset"].value is None and not any(n.outdated for n in model.nodes.values())
    col.add(None if ok else {"sig": "native::interface::none_valued_entry", "what": f"update_state({{'beta': 2}}, s0) after update_state({{'offset': 10}}, s0): offset = {got_off!r} (s0 holds None), "
                             f"eta = {got_eta} (expected 4.0), log_prob = {got_lp} (expected {want_lp}); user's model outdated nodes: {[n.name for n in model.nodes.values() if n.outdated]}",
                             "input": {"state_entry": "offset = None", "calls": [{"offset": 10.0}, {"beta": 2.0}]}})


def dataclass_derived_case(col):
    st = DCDerived(1.0, 2.0)
    st.offset, st.total = 0.5, 7.0  # values differing from the constructor-time ones
    iface = gs.DataclassInterface(lambda s: s.a * 2 + s.offset)
    before = copy.deepcopy(st)
    new = iface.update_state({"b": 5.0}, st)
    direct = copy.deepcopy(st)
    direct.b = 5.0
    ok = new == direct and st == before and new is not st and iface.log_prob(new) == iface.log_prob(direct)
    new2 = iface.update_state({"offset": 0.25}, st)  # a non-constructor field is a field: it can be part of the position
    ok = ok and new2.offset == 0.25 and new2.a == 1.0 and new2.total == 7.0
    col.add(None if ok else {"sig": "native::interface::dataclass_noninit_field", "what": f"update_state({{'b': 5.0}}, {before}) = {new}, direct assignment gives {direct}",
                             "input": {"interface": "dataclass", "state": "dataclass with field(init=False) fields holding non-default values"}})


def bounded(tier, seed):
    rng = np.random.default_rng(seed)
    col = util.Collector()
    from rtc.c01 import CORE_RULE, core_native
    core_native(col, seed)
    try:
        dtype_case(col)
    except Exception as e:
        col.add({"sig": f"native::interface::exception::{type(e).__name__}", "what": str(e)[:200], "input": {"scenario": "integer state entry, fractional position"}})
    try:
        same_state_object_case(col)
    except Exception as e:
        col.add({"sig": f"native::interface::exception::{type(e).__name__}", "what": str(e)[:200], "input": {"scenario": "same state object, different key sets"}})
    try:
        non_finite_log_prob_case(col)
    except Exception as e:
        col.add({"sig": f"native::interface::exception::{type(e).__name__}", "what": str(e)[:200], "input": {"scenario": "non-finite log-probability"}})
    try:
        two_models_case(col)
    except Exception as e:
        col.add({"sig": f"native::interface::exception::{type(e).__name__}", "what": str(e)[:200], "input": {"scenario": "two models in one process"}})
    try:
        param_dependent_bijector_case(col)
    except Exception as e:
        col.add({"sig": f"native::interface::exception::{type(e).__name__}", "what": str(e)[:200], "input": {"scenario": "parameter-dependent default bijector"}})
    try:
        optional_none_case(col)
    except Exception as e:
        col.add({"sig": "native::interface::none_valued_entry", "what": f"{type(e).__name__}: {str(e)[:200]}", "input": {"state_entry": "offset = None"}})
    try:
        nested_record_case(col)
    except Exception as e:
        col.add({"sig": "native::interface::nested_record_field", "what": f"{type(e).__name__}: {str(e)[:200]}", "input": {"state": "record with a field holding a nested dataclass instance"}})
    try:
        dataclass_derived_case(col)
    except Exception as e:
        col.add({"sig": "native::interface::dataclass_noninit_field", "what": f"{type(e).__name__}: {str(e)[:200]}", "input": {"interface": "dataclass", "state": "dataclass with field(init=False) fields"}})
    for _ in range(1 if tier == "quick" else 6):
        for au in (True, False):
            liesel_case(col, au, rng)
    simple_cases(col)
    try:
        from rtc.c09 import legacy_transform_case, weak_var_with_dist_case
        sub = util.Collector()
        legacy_transform_case(sub, seed + 2)
        weak_var_with_dist_case(sub, seed + 4)
        col.add({**sub.violations[0], "sig": "native::interface::direct_value_node_consumer"} if sub.violations else None)
    except Exception as e:
        col.add({"sig": f"native::interface::exception::{type(e).__name__}", "what": str(e)[:200], "input": {"scenario": "legacy transform, variable-name keys"}})
    try:
        ambiguous_key_case(col)
    except Exception as e:
        col.add({"sig": f"native::interface::exception::{type(e).__name__}", "what": str(e)[:200], "input": {"scenario": "ambiguous key"}})
    return {"evaluations": col.evals, "distinct_nontrivial": col.evals,
            "rule": (CORE_RULE + "; " + "BOUNDED: positions with a non-finite log-probability (-inf outside a support, NaN for an invalid parameter) against the model's own report, eager and jit; interfaces of two models in one process that resolve the same key to different nodes (both orders of first use); Liesel model with two parameters, a derived sigma and a LEAF derived node pred (feeds no distribution), user model with auto_update on and off: "
                     "update_state eager vs a fresh interface (history independence) vs jax.jit vs jax.vmap vs direct assignment + full update on a new model, non-mutation of the input "
                     f"state and of the user's model, put/get, log_prob; a model built with the deprecated GraphBuilder.transform (calculation directly on a value node) updated through variable-name keys; put/get/non-mutation/log_prob for the dict, dataclass (also with field(init=False) fields holding non-default values) and named-tuple interfaces. seed={seed}"),
            "samples": [{"auto_update_of_user_model": False}], "exhaustive": False, "violations": col.violations}

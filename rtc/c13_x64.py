"""C13 native probe run in a fresh interpreter with JAX_ENABLE_X64=1 (python -m rtc.c13_x64 <seed>): the variance kernel against THE MODEL (not against the
textbook formula fed with the group's values). The model's joint log-density as a function of the smoothing variance, everything else fixed, is
-(A+1) log t - B/t + const; A and B are solved from three evaluations of model.log_prob and compared with the inverse-gamma parameters the kernel's
draws reveal. Coefficients with a LARGE component in the penalty's null space and a small b. Prints one line `RESULT <json list>` (null = passed)."""
import json
import sys

import jax
import jax.numpy as jnp
import numpy as np
import tensorflow_probability.substrates.jax.bijectors as tfb
import tensorflow_probability.substrates.jax.distributions as tfd

import liesel.goose as gs
from liesel.model.distreg import DistRegBuilder, tau2_gibbs_kernel


def case(rng, penalty):
    n, p = 12, 10
    D = np.diff(np.eye(p), n=1, axis=0)
    K = {"rw1": D.T @ D, "full": D.T @ D + 0.5 * np.eye(p)}[penalty]
    b = DistRegBuilder()
    b.to_float32 = False
    b.add_response(rng.normal(size=n), tfd.Normal)
    b.add_predictor("loc", tfb.Identity)
    b.add_predictor("scale", tfb.Exp)
    a0, b0 = 1.0, 0.001
    b.add_np_smooth(1e-3 * rng.normal(size=(n, p)), K, a=a0, b=b0, predictor="loc", name="s")
    b.add_p_smooth(np.ones((n, 1)), m=0.0, s=10.0, predictor="scale", name="s0")
    model = b.build_model()
    model.vars["s_beta"].value = jnp.asarray(100.0 + 0.01 * rng.normal(size=p))
    iface = gs.LieselInterface(model)
    kernel = tau2_gibbs_kernel(model.groups()["s"])
    kernel.set_model(iface)
    state = model.state
    ts = np.array([2e-4, 1e-3, 5e-3])
    lp = np.array([float(iface.log_prob(iface.update_state({"s_tau2": jnp.asarray(t)}, state))) for t in ts], np.float64)
    lhs = np.array([[-(np.log(ts[1]) - np.log(ts[0])), -(1 / ts[1] - 1 / ts[0])], [-(np.log(ts[2]) - np.log(ts[0])), -(1 / ts[2] - 1 / ts[0])]])
    A1, B_model = np.linalg.solve(lhs, np.array([lp[1] - lp[0], lp[2] - lp[0]]))
    a_model = A1 - 1.0
    a_star = a0 + np.linalg.matrix_rank(K) / 2
    bs = []
    for sd in (1, 2):
        key = jax.random.PRNGKey(sd)
        bs.append(float(kernel._transition_fn(key, state)["s_tau2"]) * float(jax.random.gamma(key, jnp.asarray(a_star))))
    ok = np.isclose(a_model, a_star, rtol=1e-3) and np.isclose(bs[0], bs[1], rtol=1e-4) and np.isclose(bs[0], B_model, rtol=1e-3)
    return None if ok else {"sig": "native::gibbs::tau2_vs_model_density", "what": f"{penalty} penalty, beta = 100 + noise, b = {b0}: the model's joint density in tau2 is inverse-gamma with shape {a_model:.4f}, scale {B_model:.6f}; "
                            f"the kernel draws with shape {a_star} (assumed), scale {bs[0]:.6f} / {bs[1]:.6f} (two keys)", "input": {"penalty": penalty, "a": a0, "b": b0, "beta": "100 + 0.01 N(0,1)", "precision": "binary64"}}


if __name__ == "__main__":
    rng = np.random.default_rng(int(sys.argv[1]) if len(sys.argv) > 1 else 0)
    print("RESULT " + json.dumps([case(rng, pen) for pen in ("rw1", "full")]))

"""C11 bounded stand-in: real da_* and real kernels against an independent float64 reference of the
Hoffman-Gelman recurrence on seeded acceptance sequences."""
from __future__ import annotations

import math

import jax
import jax.numpy as jnp
import numpy as np

from rtc import util  # noqa: F401
import liesel.goose as gs
from liesel.goose.da import da_finalize, da_init, da_step
from liesel.goose.epoch import EpochConfig, EpochType
from liesel.goose.rw import RWKernelState


class Ref:
    """H&G Algorithm 5 in float64, written from the paper"""

    def __init__(self, eps0, delta, gamma, kappa, t0):
        self.delta, self.gamma, self.kappa, self.t0 = delta, gamma, kappa, t0
        self.restart(eps0)

    def restart(self, eps0):
        self.mu = math.log(10 * eps0)
        self.hbar = 0.0
        self.log_eps_bar = math.log(eps0)
        self.eps = eps0
        self.t = 0

    def step(self, alpha):
        self.t += 1
        t = self.t
        self.hbar = (1 - 1 / (t + self.t0)) * self.hbar + (self.delta - alpha) / (t + self.t0)
        log_eps = self.mu - math.sqrt(t) / self.gamma * self.hbar
        eta = t ** (-self.kappa)
        self.log_eps_bar = eta * log_eps + (1 - eta) * self.log_eps_bar
        self.eps = math.exp(log_eps)

    def finalize(self):
        self.eps = math.exp(self.log_eps_bar)


def close(a, b):
    a, b = float(a), float(b)
    return abs(a - b) <= 2e-4 * max(1.0, abs(a), abs(b))


def da_sequences(col, rng, n_seq, length):
    for s in range(n_seq):
        eps0 = float(np.exp(rng.normal()))
        delta, gamma, kappa, t0 = float(rng.uniform(0.1, 0.9)), float(rng.uniform(0.02, 0.5)), float(rng.uniform(0.5, 1.0)), int(rng.integers(0, 20))
        ks = RWKernelState(step_size=eps0)
        ref = Ref(eps0, delta, gamma, kappa, t0)
        alphas = rng.uniform(0, 1, size=length)
        inp = {"eps0": eps0, "delta": delta, "gamma": gamma, "kappa": kappa, "t0": t0, "alphas": [float(a) for a in alphas[:6]], "epochs": 2}
        bad = None
        for epoch in range(2):
            da_init(ks)
            ref.restart(float(ks.step_size))
            if not (float(ks.error_sum) == 0.0 and close(ks.log_avg_step_size, ref.log_eps_bar) and close(ks.mu, ref.mu)):
                bad = "restart values differ from (Hbar=0, log epsbar=log eps, mu=log 10 eps)"
            for t, a in enumerate(alphas):
                # monotonicity probe from the same state
                lo = RWKernelState(step_size=float(ks.step_size)); lo.__dict__.update(ks.__dict__)
                hi = RWKernelState(step_size=float(ks.step_size)); hi.__dict__.update(ks.__dict__)
                da_step(lo, float(a) * 0.5, t, delta, gamma, kappa, t0)
                da_step(hi, min(1.0, float(a) * 0.5 + 0.3), t, delta, gamma, kappa, t0)
                if float(hi.step_size) < float(lo.step_size):
                    bad = "higher acceptance gave a smaller step size"
                da_step(ks, float(a), t, delta, gamma, kappa, t0)
                ref.step(float(a))
                if not (close(ks.step_size, ref.eps) and close(ks.log_avg_step_size, ref.log_eps_bar)):
                    bad = bad or f"step {t}: step_size {float(ks.step_size)} vs reference {ref.eps}"
            da_finalize(ks)
            ref.finalize()
            if not close(ks.step_size, ref.eps):
                bad = bad or "finalised step size is not exp(log epsbar)"
        col.add({"sig": "native::da::recurrence", "what": bad, "input": inp} if bad else None)


def extreme_step_size_case(col):
    """the recurrence at the edge of the binary32 range (initial step size 1e37, every proposal accepted): each update IS the recurrence's value in binary32 - also
    when that value is +inf - and a higher acceptance probability never gives a smaller next step size from the same state"""
    delta, gamma, kappa, t0 = 0.8, 0.05, 0.75, 10
    ks = RWKernelState(step_size=1e37)
    da_init(ks)
    mu, hbar = np.float32(np.log(np.float32(10.0) * np.float32(1e37))), np.float32(0.0)
    bad = None
    with np.errstate(over="ignore"):
        for t in range(6):
            lo = RWKernelState(step_size=float(ks.step_size)); lo.__dict__.update(ks.__dict__)
            hi = RWKernelState(step_size=float(ks.step_size)); hi.__dict__.update(ks.__dict__)
            da_step(lo, 0.5, t, delta, gamma, kappa, t0)
            da_step(hi, 1.0, t, delta, gamma, kappa, t0)
            if float(hi.step_size) < float(lo.step_size):
                bad = bad or f"t={t}: acceptance 1.0 gives next step size {float(hi.step_size):.4g}, smaller than {float(lo.step_size):.4g} for acceptance 0.5"
            da_step(ks, 1.0, t, delta, gamma, kappa, t0)
            hbar = np.float32(hbar + np.float32(delta - 1.0))
            want = np.exp(np.float32(mu - hbar * np.sqrt(np.float32(t + 1)) / np.float32(gamma * (t0 + t + 1))))
            got = np.float32(ks.step_size)
            if not (got == want or (np.isfinite(want) and np.isclose(got, want, rtol=1e-3))):
                bad = bad or f"t={t}: step size {got:.6g}, the recurrence in binary32 gives {want:.6g}"
    col.add(None if bad is None else {"sig": "native::da::extreme_step_size", "what": bad, "input": {"initial_step_size": 1e37, "acceptance": 1.0, "delta": delta, "gamma": gamma, "kappa": kappa, "t0": t0}})


def kernel_runs(col, rng, tier):
    """every step-size adapting kernel: its tuning state follows the reference given the acceptance
    probabilities it reports, restarts each epoch, finalises, and is frozen in burn-in/posterior."""
    model = gs.DictInterface(lambda s: -0.5 * jnp.sum(s["x"] ** 2) - 0.5 * s["y"] ** 2)
    ms0 = {"x": jnp.array([0.3, -0.2]), "y": jnp.float32(0.1)}
    # the constants each kernel is CONSTRUCTED with (the reference uses these, not what the kernel reports back); t0 is a real-valued offset (Stan: 10.0)
    CONST = {"RW": dict(da_target_accept=0.3, da_gamma=0.1, da_kappa=0.8, da_t0=7.25), "IWLS": dict(da_target_accept=0.7, da_gamma=0.07, da_kappa=0.6, da_t0=5),
             "HMC": dict(da_target_accept=0.75, da_gamma=0.05, da_kappa=0.75, da_t0=2.5), "NUTS": dict(da_target_accept=0.8, da_gamma=0.06, da_kappa=0.9, da_t0=3.5),
             "MH": dict(da_target_accept=0.4, da_gamma=0.09, da_kappa=0.7, da_t0=4.75)}
    mk = {
        "RW": lambda: gs.RWKernel(["x"], initial_step_size=0.7, **CONST["RW"]),
        "IWLS": lambda: gs.IWLSKernel(["x"], initial_step_size=0.5, **CONST["IWLS"]),
        "HMC": lambda: gs.HMCKernel(["x"], initial_step_size=0.4, num_integration_steps=3, **CONST["HMC"]),
        "NUTS": lambda: gs.NUTSKernel(["x"], initial_step_size=0.4, max_treedepth=3, **CONST["NUTS"]),
        "MH": lambda: gs.MHKernel(["x"], lambda key, st, step: gs.MHProposal({"x": st["x"] + step * jax.random.normal(key, (2,))}, 0.0),
                                  initial_step_size=0.6, da_tune_step_size=True, **CONST["MH"]),
    }
    n_tr = 6 if tier == "quick" else 25
    for kind, make, reconf in [(kd, mk_, False) for kd, mk_ in mk.items()] + [(kd, mk_, True) for kd, mk_ in mk.items()]:
        k = make()
        consts = dict(CONST[kind])
        if reconf:  # constants re-configured through the public attributes after construction: "the kernel's constants" are the current ones
            consts = dict(da_target_accept=0.55, da_gamma=0.2, da_kappa=0.65, da_t0=2.5)
            k.da_target_accept, k.da_gamma, k.da_kappa, k.da_t0 = consts["da_target_accept"], consts["da_gamma"], consts["da_kappa"], consts["da_t0"]
        k.set_model(model)
        key = jax.random.PRNGKey(int(rng.integers(0, 2**31)))
        ks = k.init_state(key, ms0)
        ms = ms0
        trans = jax.jit(k.transition)
        ref = Ref(float(ks.step_size), consts["da_target_accept"], consts["da_gamma"], consts["da_kappa"], consts["da_t0"])
        bad = None
        tbe = 0
        for ei, (etype, dur) in enumerate([(EpochType.FAST_ADAPTATION, n_tr), (EpochType.SLOW_ADAPTATION, n_tr), (EpochType.BURNIN, 3), (EpochType.POSTERIOR, 3)]):
            ep = EpochConfig(etype, dur, 1, None).to_state(ei + 1, tbe)
            ks = k.start_epoch(key, ks, ms, ep)
            ref.restart(float(ks.step_size))
            if not (float(ks.error_sum) == 0.0 and close(ks.log_avg_step_size, ref.log_eps_bar) and close(ks.mu, ref.mu)):
                bad = bad or f"{etype.name}: dual averaging not restarted from the current step size at the start of the epoch"
            hist_x = []
            for t in range(dur):
                key, sub = jax.random.split(key)
                before = {n: np.asarray(v) for n, v in ks.__dict__.items()}
                out = trans(sub, ks, ms, ep)
                ks, ms = out.kernel_state, out.model_state
                hist_x.append(np.asarray(ms["x"]))
                if EpochType.is_adaptation(etype):
                    ref.step(float(out.info.acceptance_prob))
                    if not (close(ks.step_size, ref.eps) and close(ks.log_avg_step_size, ref.log_eps_bar)):
                        bad = bad or f"{etype.name} t={t}: step_size {float(ks.step_size)} vs reference {ref.eps}"
                else:
                    for n, v in ks.__dict__.items():
                        if not np.array_equal(np.asarray(v), before[n]):
                            bad = bad or f"{etype.name}: tuning state field {n} changed during a non-adaptive transition"
                ep.advance_time(1)
            step_at_start = ref.eps if not EpochType.is_adaptation(etype) else None
            ks = k.end_epoch(key, ks, ms, ep)
            if EpochType.is_adaptation(etype):
                ref.finalize()
                if not close(ks.step_size, ref.eps):
                    bad = bad or f"{etype.name}: end-of-epoch step size {float(ks.step_size)} vs exp(log epsbar) {ref.eps}"
                # tuning after the epoch (mass matrix for HMC/NUTS rescales the step size)
                ks = k.tune(key, ks, ms, ep, {"x": jnp.asarray(np.stack(hist_x)) * jnp.array([1.0, 7.0])}).kernel_state
            elif not close(ks.step_size, step_at_start):
                bad = bad or f"{etype.name}: step size changed over a non-adaptation epoch ({step_at_start} -> {float(ks.step_size)})"
            tbe += dur
        col.add({"sig": f"native::da::kernel::{kind}" + ("::reconfigured" if reconf else ""), "what": f"{kind}{' (da_* attributes re-assigned after construction)' if reconf else ''}: {bad}",
                 "input": {"kernel": kind, "transitions_per_adaptation_epoch": n_tr, "constants_reassigned_after_construction": reconf}} if bad else None)


def divergent_case(col):
    """NUTS / HMC on a target with a stiff wall (standard normal, 1e8 quadratic wall beyond |x| = 1), step size 0.3: trajectories that take good
    steps and then diverge report a POSITIVE acceptance probability with divergent=True; the dual averaging must follow the recurrence for the
    acceptance probabilities the kernel reports - divergent or not"""
    model = gs.DictInterface(lambda s: -0.5 * jnp.sum(s["x"] ** 2) - 1e8 * jnp.sum(jnp.maximum(jnp.abs(s["x"]) - 1.0, 0.0) ** 2))
    for kind, make in (("NUTS", lambda: gs.NUTSKernel(["x"], initial_step_size=0.3, max_treedepth=5)), ("HMC", lambda: gs.HMCKernel(["x"], initial_step_size=0.3, num_integration_steps=6))):
        k = make()
        k.set_model(model)
        key = jax.random.PRNGKey(5)
        ms = {"x": jnp.array([0.2], jnp.float32)}
        ks = k.init_state(key, ms)
        ep = EpochConfig(EpochType.FAST_ADAPTATION, 40, 1, None).to_state(1, 0)
        ks = k.start_epoch(key, ks, ms, ep)
        ref = Ref(float(ks.step_size), k.da_target_accept, k.da_gamma, k.da_kappa, k.da_t0)
        ref.restart(float(ks.step_size))
        trans = jax.jit(k.transition)
        bad, n_div = None, 0
        for t in range(40):
            key, sub = jax.random.split(key)
            out = trans(sub, ks, ms, ep)
            ks, ms = out.kernel_state, out.model_state
            a = float(out.info.acceptance_prob)
            n_div += int(bool(out.info.divergent) and a > 0)
            ref.step(a)
            if not (close(ks.step_size, ref.eps) and close(ks.log_avg_step_size, ref.log_eps_bar)):
                bad = f"t={t}: reported acceptance probability {a:.4f} (divergent={bool(out.info.divergent)}): step size {float(ks.step_size)} vs the recurrence {ref.eps}"
                break
            ep.advance_time(1)
        col.add({"sig": f"native::da::divergent::{kind}", "what": f"{kind}: {bad}", "input": {"kernel": kind, "target": "normal with a stiff wall", "divergent_transitions_with_positive_acceptance": n_div}} if bad else None)


def failed_evaluation_case(col):
    """RW / MH / IWLS on a target that is NaN outside its support (log x - x on x > 0, sampled on the original scale): proposals with an undefined
    log-density are reported with acceptance probability 0 and error code 90 - the dual averaging follows the recurrence for THOSE reported
    acceptance probabilities like for any other (the property conditions on nothing else)"""
    model = gs.DictInterface(lambda s: jnp.sum(jnp.log(s["x"]) - s["x"]))

    def prop(key, ms, step):
        return gs.MHProposal({"x": ms["x"] + step * jax.random.normal(key, ms["x"].shape)}, 0.0)

    for kind, make in (("RW", lambda: gs.RWKernel(["x"], initial_step_size=8.0)), ("MH", lambda: gs.MHKernel(["x"], prop, initial_step_size=8.0, da_tune_step_size=True)), ("IWLS", lambda: gs.IWLSKernel(["x"], initial_step_size=8.0))):
        k = make()
        k.set_model(model)
        key = jax.random.PRNGKey(11)
        ms = {"x": jnp.array([0.5], jnp.float32)}
        ks = k.init_state(key, ms)
        ep = EpochConfig(EpochType.FAST_ADAPTATION, 30, 1, None).to_state(1, 0)
        ks = k.start_epoch(key, ks, ms, ep)
        ref = Ref(float(ks.step_size), k.da_target_accept, k.da_gamma, k.da_kappa, k.da_t0)
        ref.restart(float(ks.step_size))
        trans = jax.jit(k.transition)
        bad, n_err = None, 0
        for t in range(30):
            key, sub = jax.random.split(key)
            out = trans(sub, ks, ms, ep)
            ks, ms = out.kernel_state, out.model_state
            a = float(out.info.acceptance_prob)
            n_err += int(int(out.info.error_code) != 0)
            ref.step(a)
            if not (close(ks.step_size, ref.eps) and close(ks.log_avg_step_size, ref.log_eps_bar)):
                bad = f"t={t}: reported acceptance probability {a:.4f} (error code {int(out.info.error_code)}): step size {float(ks.step_size)} vs the recurrence {ref.eps}"
                break
            ep.advance_time(1)
        if bad is None:
            ks = k.end_epoch(key, ks, ms, ep)
            ref.finalize()
            if not close(ks.step_size, ref.eps):
                bad = f"end of epoch: step size {float(ks.step_size)} vs the averaged iterate {ref.eps}"
        col.add({"sig": f"native::da::failed_evaluations::{kind}", "what": f"{kind}: {bad}", "input": {"kernel": kind, "target": "log x - x, NaN for x < 0", "transitions_with_error_code": n_err}} if bad else None)


def bounded(tier, seed):
    rng = np.random.default_rng(seed)
    col = util.Collector()
    try:
        divergent_case(col)
    except Exception as e:
        col.add({"sig": f"native::da::exception::{type(e).__name__}", "what": str(e)[:200], "input": {"scenario": "divergent transitions"}})
    try:
        extreme_step_size_case(col)
    except Exception as e:
        col.add({"sig": f"native::da::exception::{type(e).__name__}", "what": str(e)[:200], "input": {"scenario": "step size at the edge of the binary32 range"}})
    try:
        failed_evaluation_case(col)
    except Exception as e:
        col.add({"sig": f"native::da::exception::{type(e).__name__}", "what": str(e)[:200], "input": {"scenario": "proposals with an undefined log-density"}})
    n_seq, length = (12, 15) if tier == "quick" else (300, 60)
    da_sequences(col, rng, n_seq, length)
    kernel_runs(col, rng, tier)
    return {
        "evaluations": col.evals,
        "distinct_nontrivial": col.evals,
        "rule": (f"BOUNDED: real da_init/da_step/da_finalize on {n_seq} seeded (eps0, delta, gamma, kappa, t0, alpha sequence of length {length}) x 2 epochs "
                 "against a float64 reference of H&G Alg. 5 (relative tolerance 2e-4, float32 code), with a monotonicity probe at every step; the recurrence started at 1e37 with acceptance 1 (values beyond the binary32 range: +inf is the recurrence's value); "
                 "the five adapting kernels (RW, IWLS, HMC, NUTS, MH with tuning) driven through FAST/SLOW/BURNIN/POSTERIOR epochs on a Gaussian dict model, once as constructed (reference fed with the CONSTRUCTOR arguments, non-integer offsets t0 among them) and once with the da_* attributes re-assigned after construction; NUTS and HMC on a target with a stiff wall (divergent transitions with positive acceptance probability); RW, MH and IWLS on a target that is NaN outside its support (transitions with error code 90 and reported acceptance probability 0). "
                 "Each sequence / kernel run is one distinct case."),
        "samples": [{"kernel": "NUTS", "epochs": ["FAST", "SLOW", "BURNIN", "POSTERIOR"]}],
        "exhaustive": False,
        "violations": col.violations,
    }

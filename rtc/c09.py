"""C09 bounded stand-in: real kernel sequences on a Liesel graph model (and a dict model); after every transition all
derived quantities in the carried model state are recomputed by hand from the stored parameter values."""
from __future__ import annotations

import jax
import jax.numpy as jnp
import numpy as np
import tensorflow_probability.substrates.jax.distributions as tfd

from rtc import util
import liesel.goose as gs
import liesel.model as lsl
from liesel.goose.epoch import EpochConfig, EpochType
from liesel.goose.kernel_sequence import KernelSequence

Y = np.array([0.3, -0.8, 1.9, 0.4, 1.1], dtype=np.float32)


def build_model(auto_update, history=None):
    """history = 'pop' / 'copy': the model's variables were used in an EARLIER model (both parameters assigned there), taken out of it
    (pop_nodes_and_vars / copy_nodes_and_vars) and built into the model that is returned"""
    if history is not None:
        first = build_model(True)
        for nm, v in (("mu", 0.7), ("log_sigma", -0.4), ("mu", 0.0), ("log_sigma", 0.1)):
            first.vars[nm].value = v
        nodes, vars_ = first.pop_nodes_and_vars() if history == "pop" else first.copy_nodes_and_vars()
        model = lsl.GraphBuilder().add(*nodes.values(), *vars_.values()).build_model()
        model.auto_update = auto_update
        return model
    mu = lsl.param(0.0, lsl.Dist(tfd.Normal, loc=0.0, scale=3.0), name="mu")
    log_sigma = lsl.param(0.1, lsl.Dist(tfd.Normal, loc=0.0, scale=1.0), name="log_sigma")
    sigma = lsl.Var(lsl.Calc(jnp.exp, log_sigma), name="sigma")
    pred = lsl.Var(lsl.Calc(lambda m: 2.0 * m + 1.0, mu), name="pred")  # leaf: feeds no distribution
    y = lsl.obs(Y, lsl.Dist(tfd.Normal, loc=mu, scale=sigma), name="y")
    model = lsl.GraphBuilder().add(y, pred).build_model()
    model.auto_update = auto_update
    return model


def recompute(mu, ls):
    mu, ls = np.float64(mu), np.float64(ls)
    sigma = np.exp(ls)
    lp_mu = -0.5 * (mu / 3.0) ** 2 - np.log(3.0) - 0.5 * np.log(2 * np.pi)
    lp_ls = -0.5 * ls**2 - 0.5 * np.log(2 * np.pi)
    ll = np.sum(-0.5 * ((Y - mu) / sigma) ** 2 - np.log(sigma) - 0.5 * np.log(2 * np.pi))
    return {"sigma_value": sigma, "pred_value": 2 * mu + 1, "_model_log_lik": ll, "_model_log_prior": lp_mu + lp_ls, "_model_log_prob": ll + lp_mu + lp_ls}


def check_state(state, what, inp):
    mu, ls = float(state["mu_value"].value), float(state["log_sigma_value"].value)
    want = recompute(mu, ls)
    for k, w in want.items():
        node = state[k] if k in state else None
        if node is None:
            continue
        g = float(np.asarray(node.value).sum())
        if not np.isclose(g, w, rtol=2e-4, atol=2e-4):
            return {"sig": f"native::coherence::{k}", "what": f"{what}: stored {k}={g!r} but recomputed from the stored parameters (mu={mu}, log_sigma={ls}) it is {w!r}", "input": inp}
    return None


def liesel_case(col, auto_update, second, seed, n_iter, history=None):
    inp = {"auto_update": auto_update, "kernels": ["RW(mu)", second], "seed": seed, "model_rebuilt_from_an_earlier_model": history}
    model = build_model(auto_update, history)
    iface = gs.LieselInterface(model)
    k1 = gs.RWKernel(["mu"], initial_step_size=1.0)
    if second == "Gibbs":
        k2 = gs.GibbsKernel(["log_sigma"], lambda key, st: {"log_sigma": 0.3 * jax.random.normal(key)})
    elif second == "NUTS":
        k2 = gs.NUTSKernel(["log_sigma"], initial_step_size=0.3, max_treedepth=3)
    else:
        k2 = gs.IWLSKernel(["log_sigma"], initial_step_size=0.5)
    for i, k in enumerate((k1, k2)):
        k.set_model(iface)
        k.identifier = f"k{i}"
    seq = KernelSequence([k1, k2])
    key = jax.random.PRNGKey(seed)
    ms = model.state
    kstates = seq.init_states(key, ms)
    ep = EpochConfig(EpochType.POSTERIOR, n_iter, 1, None).to_state(1, 0)
    trans = jax.jit(seq.transition)
    single = [jax.jit(k.transition) for k in (k1, k2)]
    acc = rej = 0
    for it in range(n_iter):
        key, sub, s1 = jax.random.split(key, 3)
        # blockwise: a single kernel leaves the other block untouched
        for j, (own, other) in enumerate((("mu_value", "log_sigma_value"), ("log_sigma_value", "mu_value"))):
            o = single[j](s1, kstates[j], ms, ep)
            if not np.array_equal(np.asarray(o.model_state[other].value, dtype=np.float32), np.asarray(ms[other].value, dtype=np.float32)):
                col.add({"sig": "native::coherence::foreign_block_changed", "what": f"kernel {j} changed {other}, which is not among its position keys", "input": inp})
                return
            v = check_state(o.model_state, f"after kernel {j} alone (iteration {it})", inp)
            if v:
                col.add(v)
                return
        out = trans(sub, kstates, ms, ep)
        moved = float(out.model_state["mu_value"].value) != float(ms["mu_value"].value)
        acc, rej = acc + moved, rej + (not moved)
        ms, kstates = out.model_state, out.kernel_states
        v = check_state(ms, f"after iteration {it} ({'accepted' if moved else 'rejected'} RW step)", inp)
        if v:
            col.add(v)
            return
    if acc == 0 or rej == 0:
        col.add({"sig": "native::infrastructure::coverage", "what": f"scenario did not exercise both outcomes (accepted={acc}, rejected={rej})", "input": inp})
    else:
        col.add(None)


def dict_case(col, seed, n_iter):
    inp = {"model": "dict", "seed": seed}
    model = gs.DictInterface(lambda s: -0.5 * jnp.sum(s["a"] ** 2) - 0.5 * (s["b"] - 1.0) ** 2)
    k1, k2 = gs.RWKernel(["a"]), gs.HMCKernel(["b"], initial_step_size=0.3, num_integration_steps=2)
    for i, k in enumerate((k1, k2)):
        k.set_model(model)
        k.identifier = f"k{i}"
    ms = {"a": jnp.array([0.1, 0.2]), "b": jnp.float32(0.5), "untouched": jnp.float32(42.0)}
    key = jax.random.PRNGKey(seed)
    ep = EpochConfig(EpochType.POSTERIOR, n_iter, 1, None).to_state(1, 0)
    st = [k.init_state(key, ms) for k in (k1, k2)]
    tr = [jax.jit(k.transition) for k in (k1, k2)]
    for it in range(n_iter):
        key, sub = jax.random.split(key)
        for j, own in enumerate(("a", "b")):
            o = tr[j](sub, st[j], ms, ep)
            for k_ in ms:
                if k_ != own and not np.array_equal(np.asarray(o.model_state[k_], dtype=np.float32), np.asarray(ms[k_], dtype=np.float32)):
                    col.add({"sig": "native::coherence::foreign_block_changed", "what": f"dict model: kernel on {own} changed {k_}", "input": inp})
                    return
            ms = o.model_state
    col.add(None)


def legacy_transform_case(col, seed):
    """a model in which a calculation hangs directly on a variable's value node (deprecated GraphBuilder.transform): kernels address the
    new variable by its VARIABLE name; after every transition sigma = exp(sigma_transformed) and the stored log-probability are recomputed"""
    import warnings
    sigma = lsl.param(1.0, lsl.Dist(tfd.HalfNormal, scale=2.0), name="sigma")
    mu = lsl.param(0.0, lsl.Dist(tfd.Normal, loc=0.0, scale=3.0), name="mu")
    y = lsl.obs(Y, lsl.Dist(tfd.Normal, loc=mu, scale=sigma), name="y")
    gb = lsl.GraphBuilder().add(y)
    with warnings.catch_warnings():
        warnings.simplefilter("ignore")
        import tensorflow_probability.substrates.jax.bijectors as tfb
        gb.transform(sigma, tfb.Exp)
    model = gb.build_model()
    iface = gs.LieselInterface(model)
    inp = {"model": "legacy GraphBuilder.transform(sigma, Exp)", "position_keys": ["sigma_transformed (variable name)", "mu"], "seed": seed}

    def check(state, what):
        st = float(state["sigma_transformed_value"].value)
        m_ = float(state["mu_value"].value)
        sg = np.exp(np.float64(st))
        ll = np.sum(-0.5 * ((Y - m_) / sg) ** 2 - np.log(sg) - 0.5 * np.log(2 * np.pi))
        got_s, got_ll = float(state["sigma_value"].value), float(np.asarray(state["_model_log_lik"].value))
        if not (np.isclose(got_s, sg, rtol=1e-4) and np.isclose(got_ll, ll, rtol=2e-4, atol=2e-4)):
            return {"sig": "native::coherence::direct_value_node_consumer", "what": f"{what}: stored sigma={got_s}, log-lik={got_ll}; recomputed from the stored sigma_transformed={st}, mu={m_}: "
                    f"sigma={sg}, log-lik={ll}", "input": inp}
        return None

    st1 = iface.update_state({"sigma_transformed": jnp.float32(-0.53), "mu": jnp.float32(0.4)}, model.state)
    v = check(st1, "update_state with the variable name as key")
    if v is None:
        k1, k2 = gs.RWKernel(["sigma_transformed"], initial_step_size=0.7), gs.RWKernel(["mu"], initial_step_size=0.7)
        for i, k in enumerate((k1, k2)):
            k.set_model(iface)
            k.identifier = f"k{i}"
        seq = KernelSequence([k1, k2])
        key = jax.random.PRNGKey(seed)
        ms, ks = model.state, seq.init_states(key, model.state)
        ep = EpochConfig(EpochType.POSTERIOR, 8, 1, None).to_state(1, 0)
        tr = jax.jit(seq.transition)
        for it in range(8):
            key, sub = jax.random.split(key)
            o = tr(sub, ks, ms, ep)
            ms, ks = o.model_state, o.kernel_states
            v = check(ms, f"iteration {it}")
            if v:
                break
    col.add(v)


def weak_var_with_dist_case(col, seed):
    """the likelihood sits on a DERIVED quantity: resid = y - x*beta is a weak variable with a distribution N(0, exp(log_sigma)) whose value
    path is deeper than its parameter path; single-key positions (only beta / only log_sigma change)"""
    rng = np.random.default_rng(seed)
    x_np = rng.normal(size=6).astype(np.float32)
    y_np = (1.5 * x_np + 0.3 * rng.normal(size=6)).astype(np.float32)
    x, y = lsl.obs(x_np, name="x"), lsl.obs(y_np, name="y")
    beta = lsl.param(jnp.float32(0.0), lsl.Dist(tfd.Normal, loc=0.0, scale=10.0), name="beta")
    log_sigma = lsl.param(jnp.float32(0.0), lsl.Dist(tfd.Normal, loc=0.0, scale=3.0), name="log_sigma")
    mu = lsl.Var(lsl.Calc(lambda x_, b_: x_ * b_, x, beta), name="mu")
    resid = lsl.Var(lsl.Calc(lambda y_, m_: y_ - m_, y, mu), lsl.Dist(lambda log_scale: tfd.Normal(loc=0.0, scale=jnp.exp(log_scale)), log_scale=log_sigma), name="resid")
    resid.observed = True
    model = lsl.GraphBuilder().add(resid).build_model()
    iface = gs.LieselInterface(model)
    inp = {"model": "resid = y - x*beta (weak variable) ~ N(0, exp(log_sigma)), observed", "seed": seed}

    def check(state, what):
        b_, ls_ = np.float64(state["beta_value"].value), np.float64(state["log_sigma_value"].value)
        r = y_np.astype(np.float64) - x_np.astype(np.float64) * b_
        ll = np.sum(-0.5 * (r / np.exp(ls_)) ** 2 - ls_ - 0.5 * np.log(2 * np.pi))
        got_r, got_ll = np.asarray(state["resid_value"].value, np.float64), float(np.sum(np.asarray(state["resid_log_prob"].value)))
        if not (np.allclose(got_r, r, rtol=1e-4, atol=1e-5) and np.isclose(got_ll, ll, rtol=2e-4, atol=2e-4) and np.isclose(float(np.asarray(state["_model_log_lik"].value)), ll, rtol=2e-4, atol=2e-4)):
            return {"sig": "native::coherence::weak_variable_with_distribution", "what": f"{what}: stored residual log-density {got_ll} (log-lik {float(np.asarray(state['_model_log_lik'].value))}); "
                    f"recomputed from the stored beta={b_}, log_sigma={ls_}: {ll}", "input": inp}
        return None

    v = check(iface.update_state({"beta": jnp.float32(1.1)}, model.state), "update_state({'beta': 1.1})")
    v = v or check(iface.update_state({"log_sigma": jnp.float32(-0.4)}, model.state), "update_state({'log_sigma': -0.4})")
    if v is None:
        k1, k2 = gs.RWKernel(["beta"], initial_step_size=0.5), gs.RWKernel(["log_sigma"], initial_step_size=0.5)
        for i, k in enumerate((k1, k2)):
            k.set_model(iface)
            k.identifier = f"k{i}"
        seq = KernelSequence([k1, k2])
        key = jax.random.PRNGKey(seed)
        ms, ks = model.state, seq.init_states(key, model.state)
        ep = EpochConfig(EpochType.POSTERIOR, 8, 1, None).to_state(1, 0)
        tr = jax.jit(seq.transition)
        for it in range(8):
            key, sub = jax.random.split(key)
            o = tr(sub, ks, ms, ep)
            ms, ks = o.model_state, o.kernel_states
            v = check(ms, f"iteration {it}")
            if v:
                break
    col.add(v)


def gibbs_dtype_case(col, seed):
    """a Gibbs draw whose dtype differs from the stored value's (integer-initialised variable, fractional draws): whatever value ends up stored,
    every derived quantity stored next to it must be the one computed FROM that stored value (eager kernel sequence: Gibbs then RW)"""
    k = lsl.Var(1, name="k")
    mu = lsl.param(np.float32(0.0), lsl.Dist(tfd.Normal, loc=0.0, scale=5.0), name="mu")
    scale = lsl.Var(lsl.Calc(lambda kk: 0.5 + kk, k), name="scale")
    y = lsl.obs(np.array([0.3, -1.2, 2.0], np.float32), lsl.Dist(tfd.Normal, loc=mu, scale=scale), name="y")
    model = lsl.GraphBuilder().add(y).build_model()
    iface = gs.LieselInterface(model)
    draws = [0.5, 2.5, 1.5, 2.5]
    g = gs.GibbsKernel(["k"], lambda key, st: {"k": jnp.float32(draws[int(jax.random.randint(key, (), 0, 4))])})
    r = gs.RWKernel(["mu"], initial_step_size=0.5)
    for i, kk in enumerate((g, r)):
        kk.set_model(iface)
        kk.identifier = f"k{i}"
    seq = KernelSequence([g, r])
    key = jax.random.PRNGKey(seed)
    ms, ks = model.state, seq.init_states(key, model.state)
    ep = EpochConfig(EpochType.POSTERIOR, 6, 1, None).to_state(1, 0)
    bad = None
    for it in range(6):
        key, sub = jax.random.split(key)
        o = seq.transition(sub, ks, ms, ep)
        ms, ks = o.model_state, o.kernel_states
        kv, sv, m_ = float(ms["k_value"].value), float(ms["scale_value"].value), float(ms["mu_value"].value)
        ll = float(np.sum(np.asarray(tfd.Normal(m_, 0.5 + kv).log_prob(np.array([0.3, -1.2, 2.0], np.float32)))))
        got = float(np.sum(np.asarray(ms["y_log_prob"].value)))
        if not (np.isclose(sv, 0.5 + kv) and np.isclose(got, ll, rtol=1e-4, atol=1e-4)):
            bad = f"iteration {it}: stored k={kv}, stored scale={sv} (0.5 + k = {0.5 + kv}), stored log-lik {got}, recomputed from the stored values {ll}"
            break
    col.add(None if bad is None else {"sig": "native::coherence::gibbs_draw_of_other_dtype", "what": bad, "input": {"stored": "k = 1 (int)", "draws": draws, "seed": seed}})


def pit_case(col, seed):
    """a model with a probability-integral-transform variable (lsl.PIT: a caching node that is neither a Calc nor a Dist): u = Phi(y - mu) ~ Beta(a, 3);
    after every transition of RW(mu) and RW(a) the stored PIT values and the stored log-probability are recomputed by hand from the stored mu, a"""
    y_np = np.array([0.3, -0.8, 1.1], np.float32)
    mu = lsl.param(np.float32(0.0), lsl.Dist(tfd.Normal, loc=0.0, scale=10.0), name="mu")
    a = lsl.param(np.float32(2.0), lsl.Dist(tfd.Gamma, concentration=2.0, rate=1.0), name="a")
    y = lsl.obs(y_np, lsl.Dist(tfd.Normal, loc=mu, scale=1.0), name="y")
    u = lsl.PIT(y, distribution=lsl.Dist(tfd.Beta, concentration1=a, concentration0=3.0), name="u")
    model = lsl.GraphBuilder().add(u).build_model()
    iface = gs.LieselInterface(model)
    k1, k2 = gs.RWKernel(["mu"], initial_step_size=0.4), gs.RWKernel(["a"], initial_step_size=0.3)
    for i, k in enumerate((k1, k2)):
        k.set_model(iface)
        k.identifier = f"k{i}"
    seq = KernelSequence([k1, k2])
    key = jax.random.PRNGKey(seed)
    ms, ks = model.state, seq.init_states(key, model.state)
    ep = EpochConfig(EpochType.POSTERIOR, 8, 1, None).to_state(1, 0)
    tr = jax.jit(seq.transition)
    bad = None
    for it in range(8):
        key, sub = jax.random.split(key)
        o = tr(sub, ks, ms, ep)
        ms, ks = o.model_state, o.kernel_states
        m_, a_ = np.float64(ms["mu_value"].value), np.float64(ms["a_value"].value)
        u_want = np.asarray(tfd.Normal(np.float32(m_), 1.0).cdf(y_np), np.float64)
        lp_want = float(tfd.Normal(0.0, 10.0).log_prob(np.float32(m_)) + tfd.Gamma(2.0, 1.0).log_prob(np.float32(a_)) + np.sum(np.asarray(tfd.Normal(np.float32(m_), 1.0).log_prob(y_np)))
                        + np.sum(np.asarray(tfd.Beta(np.float32(a_), 3.0).log_prob(u_want.astype(np.float32)))))
        u_got, lp_got = np.asarray(ms["u_value"].value, np.float64), float(np.asarray(ms["_model_log_prob"].value))
        if not (np.allclose(u_got, u_want, rtol=1e-4, atol=1e-5) and np.isclose(lp_got, lp_want, rtol=1e-3, atol=1e-3)):
            bad = f"iteration {it}: stored PIT values {u_got.round(4).tolist()} / log-prob {lp_got:.4f}; recomputed from the stored mu={m_:.4f}, a={a_:.4f}: {u_want.round(4).tolist()} / {lp_want:.4f}"
            break
    col.add(None if bad is None else {"sig": "native::coherence::pit_node", "what": bad, "input": {"model": "u = PIT(y) ~ Beta(a, 3), y ~ N(mu, 1)", "seed": seed}})


def reported_code_case(col):
    """a kernel whose transitions MOVE and report a non-zero error code (a diagnostic: NUTS at its maximum tree depth, a user kernel that uses codes as warnings):
    the next kernel starts from the state that kernel left, and the sequence returns the last kernel's state - whatever the codes"""
    from rtc.fixtures import RecordingKernel
    model = gs.DictInterface(lambda s_: 0.0)
    k1 = RecordingKernel(["a"], codes=[2, 0, 1])          # a += 1 per transition, codes 2, 0, 1, 2, ...
    k2 = gs.GibbsKernel(["b"], lambda key, st: {"b": st["a"] * 10.0})  # reads what its predecessor left
    for i, k in enumerate((k1, k2)):
        k.set_model(model)
        k.identifier = f"k{i}"
    seq = KernelSequence([k1, k2])
    key = jax.random.PRNGKey(0)
    ms = {"a": jnp.float32(0.0), "b": jnp.float32(0.0)}
    kstates = seq.init_states(key, ms)
    bad = None
    for jit in (False, True):
        ep = EpochConfig(EpochType.POSTERIOR, 3, 1, None).to_state(1, 0)
        st, ks = ms, kstates
        trans = jax.jit(seq.transition) if jit else seq.transition
        for it in range(3):
            out = trans(key, ks, st, ep)
            st, ks = out.model_state, out.kernel_states
            a, b = float(st["a"]), float(st["b"])
            if a != it + 1 or b != 10.0 * (it + 1):
                bad = bad or f"{'jit' if jit else 'eager'}, iteration {it} (first kernel reports code {int(out.infos['k0'].error_code)}): the sequence returns a={a}, b={b}; the kernels composed by hand give a={it + 1}, b={10.0 * (it + 1)}"
            ep.advance_time(1)
    col.add(None if bad is None else {"sig": "native::threading::reported_error_code", "what": bad, "input": {"kernels": ["moving kernel reporting codes 2, 0, 1", "Gibbs b = 10 a"]}})


def model_replaced_before_build_case(col):
    """one builder: set_model(A), kernels added, then set_model(B) (a corrected model with the same names: sigma = softplus instead of exp) + its state, build, sample:
    the derived quantities carried in the state are those of B - the model the engine was built with - recomputed from the stored parameters"""
    def build(link):
        mu = lsl.param(0.0, lsl.Dist(tfd.Normal, loc=0.0, scale=3.0), name="mu")
        ls = lsl.param(0.1, lsl.Dist(tfd.Normal, loc=0.0, scale=1.0), name="log_sigma")
        sigma = lsl.Var(lsl.Calc(link, ls), name="sigma")
        y = lsl.obs(Y, lsl.Dist(tfd.Normal, loc=mu, scale=sigma), name="y")
        return lsl.GraphBuilder().add(y).build_model()
    model_a, model_b = build(jnp.exp), build(jax.nn.softplus)
    b = gs.EngineBuilder(seed=4, num_chains=2)
    b.set_model(gs.LieselInterface(model_a))
    b.add_kernel(gs.RWKernel(["mu"], initial_step_size=1.0))
    b.add_kernel(gs.RWKernel(["log_sigma"], initial_step_size=0.5))
    b.set_model(gs.LieselInterface(model_b))
    b.set_initial_values(model_b.state)
    b.set_epochs([EpochConfig(EpochType.INITIAL_VALUES, 1, 1, None), EpochConfig(EpochType.POSTERIOR, 12, 1, None)])
    b.positions_included = ["sigma"]
    b.show_progress = False
    eng = b.build()
    eng.sample_all_epochs()
    smp = {k: np.asarray(v) for k, v in eng.get_results().get_samples().items()}
    want = np.asarray(jax.nn.softplus(jnp.asarray(smp["log_sigma"])))
    ok = np.allclose(smp["sigma"], want, rtol=1e-5, atol=1e-6) and len(np.unique(smp["log_sigma"])) > 2
    col.add(None if ok else {"sig": "native::coherence::model_replaced_before_build", "what": f"stored sigma differs from softplus(log_sigma) of the engine's model by up to {float(np.abs(smp['sigma'] - want).max()):.4f} "
                             "(it follows the model that was set when the kernels were added)", "input": {"calls": ["set_model(A)", "add_kernel x 2", "set_model(B)", "set_initial_values(B.state)", "build"]}})


def order_case(col, via_engine):
    """two deterministic Gibbs kernels on disjoint blocks whose composition is order-sensitive (a <- b + 1, then b <- 2a + 1);
    identifiers chosen so that alphabetical order differs from the configured order"""
    inp = {"kernels": ["scale_block: a <- b+1", "loc_block: b <- 2a+1"], "via_engine": via_engine}
    model = gs.DictInterface(lambda s_: 0.0)
    k1 = gs.GibbsKernel(["a"], lambda key, ms: {"a": ms["b"] + 1.0})
    k2 = gs.GibbsKernel(["b"], lambda key, ms: {"b": 2.0 * ms["a"] + 1.0})
    k1.identifier, k2.identifier = "scale_block", "loc_block"
    a, b, want = 0.0, 0.0, []
    for _ in range(4):
        a = b + 1.0
        b = 2.0 * a + 1.0
        want.append((a, b))
    if via_engine:
        bld = gs.EngineBuilder(seed=1, num_chains=1)
        bld.set_epochs([EpochConfig(EpochType.INITIAL_VALUES, 1, 1, None), EpochConfig(EpochType.POSTERIOR, 4, 1, None)])
        bld.set_model(model)
        bld.set_initial_values({"a": jnp.float32(0.0), "b": jnp.float32(0.0)})
        bld.add_kernel(k1); bld.add_kernel(k2)
        bld.show_progress = False
        eng = bld.build()
        eng.sample_all_epochs()
        s_ = eng.get_results().get_posterior_samples()
        got = [(float(x), float(y)) for x, y in zip(np.asarray(s_["a"])[0], np.asarray(s_["b"])[0])]
        idents = [k.identifier for k in eng._kernel_sequence.get_kernels()] if hasattr(eng, "_kernel_sequence") else None
    else:
        for k in (k1, k2):
            k.set_model(model)
        seq = KernelSequence([k1, k2])
        ms = {"a": jnp.float32(0.0), "b": jnp.float32(0.0)}
        key = jax.random.PRNGKey(0)
        st = seq.init_states(key, ms)
        ep = EpochConfig(EpochType.POSTERIOR, 4, 1, None).to_state(1, 0)
        got = []
        for _ in range(4):
            o = seq.transition(key, st, ms, ep)
            ms, st = o.model_state, o.kernel_states
            got.append((float(ms["a"]), float(ms["b"])))
        idents = [k.identifier for k in seq.get_kernels()]
    ok = got == want and (idents is None or idents == ["scale_block", "loc_block"])
    col.add(None if ok else {"sig": "native::order::configured_order", "what": f"kernels did not run in the configured order: states {got}, expected {want}; sequence order {idents}", "input": inp})


def bounded(tier, seed):
    col = util.Collector()
    from rtc.c01 import CORE_RULE, core_native
    core_native(col, seed)
    try:
        model_replaced_before_build_case(col)
    except Exception as e:
        col.add({"sig": f"native::coherence::exception::{type(e).__name__}", "what": str(e)[:200], "input": {"scenario": "model replaced before build"}})
    try:
        reported_code_case(col)
    except Exception as e:
        col.add({"sig": f"native::threading::exception::{type(e).__name__}", "what": str(e)[:200], "input": {"scenario": "kernel reporting non-zero codes"}})
    for via_engine in (False, True):
        try:
            order_case(col, via_engine)
        except Exception as e:
            col.add({"sig": f"native::order::exception::{type(e).__name__}", "what": str(e)[:200], "input": {"via_engine": via_engine}})
    try:
        from rtc.c03 import param_dependent_bijector_case
        sub = util.Collector()
        param_dependent_bijector_case(sub)
        col.add({**sub.violations[0], "sig": "native::coherence::parameter_dependent_bijector"} if sub.violations else None)
    except Exception as e:
        col.add({"sig": f"native::coherence::exception::{type(e).__name__}", "what": str(e)[:200], "input": {"scenario": "parameter-dependent default bijector"}})
    try:  # a rejected proposal hands the SAME state object to the next kernel (eager execution): no leftovers of the earlier block's proposal
        from rtc.c03 import same_state_object_case
        sub = util.Collector()
        same_state_object_case(sub)
        col.add({**sub.violations[0], "sig": "native::coherence::leftover_of_earlier_call"} if sub.violations else None)
    except Exception as e:
        col.add({"sig": f"native::coherence::exception::{type(e).__name__}", "what": str(e)[:200], "input": {"scenario": "two update_state calls on one state object"}})
    try:  # the stored log-probability counts every distribution node, also one that belongs to no variable (a soft constraint)
        from rtc.c02 import bare_dist_case
        sub = util.Collector()
        bare_dist_case(sub, np.random.default_rng(seed + 7))
        col.add({**sub.violations[0], "sig": "native::coherence::distribution_node_without_variable"} if sub.violations else None)
    except Exception as e:
        col.add({"sig": f"native::coherence::exception::{type(e).__name__}", "what": str(e)[:200], "input": {"scenario": "distribution node without a variable"}})
    try:  # built-in Gibbs kernels start from the state they are handed (hyper-parameters changed after the kernel was created)
        from rtc.c13 import tau2_case
        sub = util.Collector()
        tau2_case(sub, np.random.default_rng(seed + 3), True, True)
        col.add({**sub.violations[0], "sig": "native::threading::tau2_kernel_state"} if sub.violations else None)
    except Exception as e:
        col.add({"sig": f"native::coherence::exception::{type(e).__name__}", "what": str(e)[:200], "input": {"scenario": "tau2 kernel with changed hyper-parameters"}})
    try:  # building the finite-discrete Gibbs kernel leaves the user's model as it was (its state stays a coherent start state)
        from rtc.c13 import discrete_case
        sub = util.Collector()
        discrete_case(sub, np.random.default_rng(seed + 5))
        col.add({**sub.violations[0], "sig": "native::coherence::finite_discrete_kernel_side_effect"} if sub.violations else None)
    except Exception as e:
        col.add({"sig": f"native::coherence::exception::{type(e).__name__}", "what": str(e)[:200], "input": {"scenario": "finite-discrete kernel construction"}})
    try:
        pit_case(col, seed + 8)
    except Exception as e:
        col.add({"sig": f"native::coherence::exception::{type(e).__name__}", "what": str(e)[:200], "input": {"scenario": "PIT node"}})
    try:
        gibbs_dtype_case(col, seed + 6)
    except Exception as e:
        col.add({"sig": f"native::coherence::exception::{type(e).__name__}", "what": str(e)[:200], "input": {"scenario": "Gibbs draw of another dtype"}})
    try:
        weak_var_with_dist_case(col, seed + 4)
    except Exception as e:
        col.add({"sig": f"native::coherence::exception::{type(e).__name__}", "what": str(e)[:200], "input": {"scenario": "weak variable with distribution"}})
    try:
        legacy_transform_case(col, seed + 2)
    except Exception as e:
        col.add({"sig": f"native::coherence::exception::{type(e).__name__}", "what": str(e)[:200], "input": {"scenario": "legacy transform, variable-name keys"}})
    n = 12 if tier == "quick" else 60
    combos = [(True, "Gibbs"), (False, "Gibbs"), (False, "NUTS")] if tier == "quick" else [(a, s) for a in (True, False) for s in ("Gibbs", "NUTS", "IWLS")]
    for au, second in combos:
        liesel_case(col, au, second, seed + 11, n)
    for hist in ("pop", "copy"):  # variables with a history in an earlier model
        liesel_case(col, True, "Gibbs", seed + 11, n, history=hist)
    dict_case(col, seed + 5, n)
    return {
        "evaluations": col.evals, "distinct_nontrivial": len(combos) + 1,
        "rule": (CORE_RULE + "; " + f"BOUNDED: Liesel model (mu, log_sigma, derived sigma=exp(log_sigma), leaf pred=2mu+1, 5 observations) with kernel sequences RW(mu) + "
                 f"{{Gibbs, NUTS, IWLS}}(log_sigma), auto_update on and off (and the model rebuilt from the popped / copied variables of an earlier model in which the parameters had been assigned), {n} jitted iterations each: after every single-kernel transition and every iteration the stored sigma, pred, "
                 "log-lik, log-prior, log-prob are compared with closed-form recomputation from the stored parameters (float64), and the other block must be bitwise "
                 f"unchanged; same blockwise check on a dict model with RW + HMC; a model whose likelihood sits on a weak variable with a distribution (value path deeper than parameter path, single-key positions); a model built with the deprecated GraphBuilder.transform (a calculation directly on a value node) sampled with variable-name position keys; two update_state calls with different keys on one state object; a Gibbs kernel whose draws have another dtype than the stored value (eager); the built-in tau2 Gibbs kernel on a state whose hyper-parameters differ from those at kernel creation; a model with a legacy PIT node (caching node outside the Calc / Dist hierarchy) under two RW kernels; two order-sensitive deterministic Gibbs kernels with "
                 f"identifiers whose alphabetical order differs from the configured order (bare KernelSequence and through EngineBuilder). seed={seed}"),
        "samples": [{"auto_update": False, "kernels": ["RW(mu)", "Gibbs(log_sigma)"]}],
        "exhaustive": False, "violations": col.violations,
    }

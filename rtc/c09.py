"""C09 bounded stand-in: real kernel sequences on a Liesel graph model (and a dict model); after every transition all
derived quantities in the carried model state are recomputed by hand from the stored parameter values."""
from __future__ import annotations

import jax
import jax.numpy as jnp
import numpy as np
import tensorflow_probability.substrates.jax.distributions as tfd

from rtc import util
import liesel.goose as gs
import liesel.model as lsl
from liesel.goose.epoch import EpochConfig, EpochType
from liesel.goose.kernel_sequence import KernelSequence

Y = np.array([0.3, -0.8, 1.9, 0.4, 1.1], dtype=np.float32)


def build_model(auto_update):
    mu = lsl.param(0.0, lsl.Dist(tfd.Normal, loc=0.0, scale=3.0), name="mu")
    log_sigma = lsl.param(0.1, lsl.Dist(tfd.Normal, loc=0.0, scale=1.0), name="log_sigma")
    sigma = lsl.Var(lsl.Calc(jnp.exp, log_sigma), name="sigma")
    pred = lsl.Var(lsl.Calc(lambda m: 2.0 * m + 1.0, mu), name="pred")  # leaf: feeds no distribution
    y = lsl.obs(Y, lsl.Dist(tfd.Normal, loc=mu, scale=sigma), name="y")
    model = lsl.GraphBuilder().add(y, pred).build_model()
    model.auto_update = auto_update
    return model


def recompute(mu, ls):
    mu, ls = np.float64(mu), np.float64(ls)
    sigma = np.exp(ls)
    lp_mu = -0.5 * (mu / 3.0) ** 2 - np.log(3.0) - 0.5 * np.log(2 * np.pi)
    lp_ls = -0.5 * ls**2 - 0.5 * np.log(2 * np.pi)
    ll = np.sum(-0.5 * ((Y - mu) / sigma) ** 2 - np.log(sigma) - 0.5 * np.log(2 * np.pi))
    return {"sigma_value": sigma, "pred_value": 2 * mu + 1, "_model_log_lik": ll, "_model_log_prior": lp_mu + lp_ls, "_model_log_prob": ll + lp_mu + lp_ls}


def check_state(state, what, inp):
    mu, ls = float(state["mu_value"].value), float(state["log_sigma_value"].value)
    want = recompute(mu, ls)
    for k, w in want.items():
        node = state[k] if k in state else None
        if node is None:
            continue
        g = float(np.asarray(node.value).sum())
        if not np.isclose(g, w, rtol=2e-4, atol=2e-4):
            return {"sig": f"native::coherence::{k}", "what": f"{what}: stored {k}={g!r} but recomputed from the stored parameters (mu={mu}, log_sigma={ls}) it is {w!r}", "input": inp}
    return None


def liesel_case(col, auto_update, second, seed, n_iter):
    inp = {"auto_update": auto_update, "kernels": ["RW(mu)", second], "seed": seed}
    model = build_model(auto_update)
    iface = gs.LieselInterface(model)
    k1 = gs.RWKernel(["mu"], initial_step_size=1.0)
    if second == "Gibbs":
        k2 = gs.GibbsKernel(["log_sigma"], lambda key, st: {"log_sigma": 0.3 * jax.random.normal(key)})
    elif second == "NUTS":
        k2 = gs.NUTSKernel(["log_sigma"], initial_step_size=0.3, max_treedepth=3)
    else:
        k2 = gs.IWLSKernel(["log_sigma"], initial_step_size=0.5)
    for i, k in enumerate((k1, k2)):
        k.set_model(iface)
        k.identifier = f"k{i}"
    seq = KernelSequence([k1, k2])
    key = jax.random.PRNGKey(seed)
    ms = model.state
    kstates = seq.init_states(key, ms)
    ep = EpochConfig(EpochType.POSTERIOR, n_iter, 1, None).to_state(1, 0)
    trans = jax.jit(seq.transition)
    single = [jax.jit(k.transition) for k in (k1, k2)]
    acc = rej = 0
    for it in range(n_iter):
        key, sub, s1 = jax.random.split(key, 3)
        # blockwise: a single kernel leaves the other block untouched
        for j, (own, other) in enumerate((("mu_value", "log_sigma_value"), ("log_sigma_value", "mu_value"))):
            o = single[j](s1, kstates[j], ms, ep)
            if not np.array_equal(np.asarray(o.model_state[other].value, dtype=np.float32), np.asarray(ms[other].value, dtype=np.float32)):
                col.add({"sig": "native::coherence::foreign_block_changed", "what": f"kernel {j} changed {other}, which is not among its position keys", "input": inp})
                return
            v = check_state(o.model_state, f"after kernel {j} alone (iteration {it})", inp)
            if v:
                col.add(v)
                return
        out = trans(sub, kstates, ms, ep)
        moved = float(out.model_state["mu_value"].value) != float(ms["mu_value"].value)
        acc, rej = acc + moved, rej + (not moved)
        ms, kstates = out.model_state, out.kernel_states
        v = check_state(ms, f"after iteration {it} ({'accepted' if moved else 'rejected'} RW step)", inp)
        if v:
            col.add(v)
            return
    if acc == 0 or rej == 0:
        col.add({"sig": "native::infrastructure::coverage", "what": f"scenario did not exercise both outcomes (accepted={acc}, rejected={rej})", "input": inp})
    else:
        col.add(None)


def dict_case(col, seed, n_iter):
    inp = {"model": "dict", "seed": seed}
    model = gs.DictInterface(lambda s: -0.5 * jnp.sum(s["a"] ** 2) - 0.5 * (s["b"] - 1.0) ** 2)
    k1, k2 = gs.RWKernel(["a"]), gs.HMCKernel(["b"], initial_step_size=0.3, num_integration_steps=2)
    for i, k in enumerate((k1, k2)):
        k.set_model(model)
        k.identifier = f"k{i}"
    ms = {"a": jnp.array([0.1, 0.2]), "b": jnp.float32(0.5), "untouched": jnp.float32(42.0)}
    key = jax.random.PRNGKey(seed)
    ep = EpochConfig(EpochType.POSTERIOR, n_iter, 1, None).to_state(1, 0)
    st = [k.init_state(key, ms) for k in (k1, k2)]
    tr = [jax.jit(k.transition) for k in (k1, k2)]
    for it in range(n_iter):
        key, sub = jax.random.split(key)
        for j, own in enumerate(("a", "b")):
            o = tr[j](sub, st[j], ms, ep)
            for k_ in ms:
                if k_ != own and not np.array_equal(np.asarray(o.model_state[k_], dtype=np.float32), np.asarray(ms[k_], dtype=np.float32)):
                    col.add({"sig": "native::coherence::foreign_block_changed", "what": f"dict model: kernel on {own} changed {k_}", "input": inp})
                    return
            ms = o.model_state
    col.add(None)


def bounded(tier, seed):
    col = util.Collector()
    n = 12 if tier == "quick" else 60
    combos = [(True, "Gibbs"), (False, "Gibbs"), (False, "NUTS")] if tier == "quick" else [(a, s) for a in (True, False) for s in ("Gibbs", "NUTS", "IWLS")]
    for au, second in combos:
        liesel_case(col, au, second, seed + 11, n)
    dict_case(col, seed + 5, n)
    return {
        "evaluations": col.evals, "distinct_nontrivial": len(combos) + 1,
        "rule": (f"BOUNDED: Liesel model (mu, log_sigma, derived sigma=exp(log_sigma), leaf pred=2mu+1, 5 observations) with kernel sequences RW(mu) + "
                 f"{{Gibbs, NUTS, IWLS}}(log_sigma), auto_update on and off, {n} jitted iterations each: after every single-kernel transition and every iteration the stored sigma, pred, "
                 "log-lik, log-prior, log-prob are compared with closed-form recomputation from the stored parameters (float64), and the other block must be bitwise "
                 f"unchanged; same blockwise check on a dict model with RW + HMC. seed={seed}"),
        "samples": [{"auto_update": False, "kernels": ["RW(mu)", "Gibbs(log_sigma)"]}],
        "exhaustive": False, "violations": col.violations,
    }

"""C02 bounded stand-in: generated model family, totals compared with direct TFP evaluation in float64-ish numpy."""
from __future__ import annotations

import jax
import jax.numpy as jnp
import numpy as np
import tensorflow_probability.substrates.jax.distributions as tfd

from rtc import util
import liesel.model as lsl
from liesel.distributions import MultivariateNormalDegenerate


def build(rng, per_obs, auto_transform, user_nodes):
    n = 6
    tau = lsl.param(np.float32(rng.uniform(0.5, 2.0)), lsl.Dist(tfd.InverseGamma, concentration=2.0, scale=1.0), name="tau")
    tau.auto_transform = auto_transform
    mu = lsl.param(np.float32(rng.normal()), lsl.Dist(tfd.Normal, loc=0.0, scale=tau), name="mu")
    beta = lsl.param(jnp.asarray(rng.normal(size=3), jnp.float32), None, name="beta")
    K = np.diff(np.eye(3), axis=0)
    K = (K.T @ K).astype(np.float32)
    beta.dist_node = lsl.Dist(MultivariateNormalDegenerate.from_penalty, loc=0.0, var=tau, pen=K)
    X = jnp.asarray(rng.normal(size=(n, 3)), jnp.float32)
    eta = lsl.Var(lsl.Calc(lambda m, b: m + X @ b, mu, beta), name="eta")
    ydist = lsl.Dist(tfd.Normal, loc=eta, scale=1.3)
    ydist.per_obs = per_obs
    y = lsl.obs(jnp.asarray(rng.normal(size=n), jnp.float32), ydist, name="y")
    free = lsl.Var(np.float32(0.4), lsl.Dist(tfd.Normal, loc=0.0, scale=1.0), name="free")  # neither observed nor parameter
    gb = lsl.GraphBuilder().add(y, free)
    if user_nodes:
        gb.log_lik_node = lsl.Calc(lambda e: jnp.sum(e) * 2.0, eta, _name="user_lik")
    return gb.build_model(), X, K


def direct(model, X, K, auto_transform):
    v = {k: np.asarray(model.vars[k].value, dtype=np.float64) for k in ("tau", "mu", "beta", "y", "free")}
    lp = {}
    lp["tau"] = float(tfd.InverseGamma(2.0, 1.0).log_prob(v["tau"]))
    if auto_transform:
        t = float(model.vars["tau_transformed"].value)
        b = tfd.InverseGamma(2.0, 1.0).experimental_default_event_space_bijector()
        lp["tau"] = float(tfd.InverseGamma(2.0, 1.0).log_prob(b.forward(np.float32(t))) + b.forward_log_det_jacobian(np.float32(t), event_ndims=0))
    lp["mu"] = float(tfd.Normal(0.0, v["tau"]).log_prob(v["mu"]))
    lp["beta"] = float(MultivariateNormalDegenerate.from_penalty(0.0, np.float32(v["tau"]), K).log_prob(jnp.asarray(v["beta"], jnp.float32)))
    lp["y"] = float(np.sum(tfd.Normal(v["mu"] + np.asarray(X, np.float64) @ v["beta"], 1.3).log_prob(v["y"])))
    lp["free"] = float(tfd.Normal(0.0, 1.0).log_prob(v["free"]))
    return lp


def case(col, rng, per_obs, auto_transform, user_nodes):
    inp = {"per_obs": per_obs, "auto_transform": auto_transform, "user_lik_node": user_nodes}
    model, X, K = build(rng, per_obs, auto_transform, user_nodes)
    for step in range(2):
        lp = direct(model, X, K, auto_transform)
        prob, lik, prior = float(model.log_prob), float(model.log_lik), float(model.log_prior)
        want_prob = sum(lp.values())
        want_lik = lp["y"] if not user_nodes else float(np.sum(np.asarray(model.vars["eta"].value)) * 2.0)
        want_prior = lp["tau"] + lp["mu"] + lp["beta"]
        bad = None
        if not np.isclose(prob, want_prob, rtol=2e-4, atol=2e-3):
            bad = ("log_prob", prob, want_prob)
        elif not np.isclose(lik, want_lik, rtol=2e-4, atol=2e-3):
            bad = ("log_lik", lik, want_lik)
        elif not np.isclose(prior, want_prior, rtol=2e-4, atol=2e-3):
            bad = ("log_prior", prior, want_prior)
        if bad:
            col.add({"sig": f"native::totals::{bad[0]}", "what": f"{bad[0]}={bad[1]:.5f} but the direct sum of log-densities is {bad[2]:.5f} (step {step})", "input": inp})
            return
        # re-assign values
        model.vars["mu"].value = np.float32(rng.normal())
        model.vars["beta"].value = jnp.asarray(rng.normal(size=3), jnp.float32)
        (model.vars["tau_transformed"] if auto_transform else model.vars["tau"]).value = np.float32(rng.uniform(0.2, 1.5))
    col.add(None)


def user_node_fully_flagged_case(col, rng):
    """every distribution belongs to exactly one flag, a user node replaces ONE of the partial totals: log_prob stays the joint density"""
    for which in ("lik", "prior"):
        mu = lsl.param(np.float32(rng.normal()), lsl.Dist(tfd.Normal, loc=0.0, scale=2.0), name="mu")
        y = lsl.obs(jnp.asarray(rng.normal(size=4), jnp.float32), lsl.Dist(tfd.Normal, loc=mu, scale=1.0), name="y")
        gb = lsl.GraphBuilder().add(y)
        user = lsl.Calc(lambda m: jnp.asarray(m) * 0.0 + 123.0, mu, _name="user_total")
        if which == "lik":
            gb.log_lik_node = user
        else:
            gb.log_prior_node = user
        model = gb.build_model()
        joint = float(tfd.Normal(0.0, 2.0).log_prob(model.vars["mu"].value)) + float(jnp.sum(tfd.Normal(model.vars["mu"].value, 1.0).log_prob(model.vars["y"].value)))
        got = float(model.log_prob)
        forwarded = float(model.log_lik if which == "lik" else model.log_prior)
        bad = None
        if not np.isclose(got, joint, rtol=1e-4, atol=1e-3):
            bad = f"log_prob={got} but the joint log-density is {joint} (user log_{which} node present)"
        elif forwarded != 123.0:
            bad = f"user log_{which} node not forwarded unchanged ({forwarded})"
        col.add({"sig": "native::totals::user_node_leaks_into_log_prob", "what": bad, "input": {"user_node": which}} if bad else None)


def distreg_case(col, rng):
    import liesel.model as lsl
    from liesel.model import DistRegBuilder
    n = 12
    X = rng.normal(size=(n, 2)).astype(np.float32)
    y = rng.normal(size=n).astype(np.float32)
    import tensorflow_probability.substrates.jax.bijectors as tfb
    b = DistRegBuilder()
    b.add_response(y, tfd.Normal)
    b.add_predictor("loc", tfb.Identity)
    b.add_predictor("scale", tfb.Exp)
    b.add_p_smooth(X, m=0.0, s=10.0, predictor="loc")
    Z = rng.normal(size=(n, 4)).astype(np.float32)
    D = np.diff(np.eye(4), axis=0)
    b.add_np_smooth(Z, (D.T @ D).astype(np.float32), a=1.0, b=0.5, predictor="loc")
    b.add_p_smooth(np.ones((n, 1), np.float32), m=0.0, s=3.0, predictor="scale")
    model = b.build_model()
    flags_ok = all((v.observed != v.parameter) for v in model.vars.values() if v.has_dist)
    lik, prior, prob = float(model.log_lik), float(model.log_prior), float(model.log_prob)
    dist_sum = sum(float(np.sum(np.asarray(nd.value))) for nd in model.nodes.values() if isinstance(nd, lsl.Dist))
    ok = flags_ok and np.isclose(prob, lik + prior, rtol=1e-4, atol=1e-3) and np.isclose(prob, dist_sum, rtol=1e-4, atol=1e-3)
    col.add(None if ok else {"sig": "native::totals::distreg", "what": f"DistRegBuilder model: log_prob={prob}, lik+prior={lik + prior}, sum of dist nodes={dist_sum}, flags exactly-one={flags_ok}", "input": {"model": "distreg"}})


def named_update_case(col, rng):
    """totals refreshed through the NAMED update (auto-update off) on a model with a weak variable that carries a distribution"""
    x_np = rng.normal(size=5).astype(np.float32)
    x = lsl.param(np.float32(0.3), lsl.Dist(tfd.Normal, loc=0.0, scale=2.0), name="x")
    z = lsl.Var(lsl.Calc(lambda v: 2.0 * v, x), lsl.Dist(tfd.Normal, loc=1.0, scale=0.5), name="z")
    z.parameter = True
    mid = lsl.Var(lsl.Calc(lambda v: v + 1.0, x), name="mid")
    r = lsl.Var(lsl.Calc(lambda m: jnp.asarray(x_np) - m, mid), lsl.Dist(tfd.Normal, loc=0.0, scale=1.5), name="r")
    r.observed = True
    model = lsl.GraphBuilder().add(z, r).build_model()
    model.auto_update = False
    bad = None
    for v in (1.7, -0.6):
        model.vars["x"].value = np.float32(v)
        model.update("_model_log_prob", "_model_log_lik", "_model_log_prior")
        prior = float(tfd.Normal(0.0, 2.0).log_prob(np.float32(v))) + float(tfd.Normal(1.0, 0.5).log_prob(np.float32(2 * v)))
        lik = float(jnp.sum(tfd.Normal(0.0, 1.5).log_prob(jnp.asarray(x_np) - (np.float32(v) + 1.0))))
        got = (float(model.log_prior), float(model.log_lik), float(model.log_prob))
        if not np.allclose(got, (prior, lik, prior + lik), rtol=1e-4, atol=1e-3):
            bad = f"x = {v}, named update with auto-update off: (log_prior, log_lik, log_prob) = {got}, joint density gives {(prior, lik, prior + lik)}"
            break
    col.add({"sig": "native::totals::named_update_weak_variable", "what": bad, "input": {"update": ["_model_log_prob", "_model_log_lik", "_model_log_prior"], "auto_update": False}} if bad else None)


def outside_assignment_case(col, rng):
    """values assigned while the graph is not in a model - before the first build, and after pop_nodes_and_vars() - then (re)built:
    the totals are the joint density at the values the variables hold at build time (direct TFP reference)"""
    y_np = rng.normal(size=4).astype(np.float32)
    log_sigma = lsl.param(np.float32(0.0), lsl.Dist(tfd.Normal, loc=0.0, scale=1.0), name="log_sigma")
    sigma = lsl.Var(lsl.Calc(jnp.exp, log_sigma), name="sigma")
    mu = lsl.param(np.float32(0.1), lsl.Dist(tfd.Normal, loc=0.0, scale=3.0), name="mu")
    y = lsl.obs(y_np, lsl.Dist(tfd.Normal, loc=mu, scale=sigma), name="y")

    def ref(ls, m):
        prior = float(tfd.Normal(0.0, 1.0).log_prob(np.float32(ls))) + float(tfd.Normal(0.0, 3.0).log_prob(np.float32(m)))
        lik = float(jnp.sum(tfd.Normal(np.float32(m), np.exp(np.float32(ls))).log_prob(y_np)))
        return prior, lik, prior + lik

    bad = None
    log_sigma.value = np.float32(1.0)  # outside a model: sigma's calculator was evaluated at construction with exp(0)
    mu.value = np.float32(-0.8)
    model = lsl.GraphBuilder().add(y).build_model()
    got = (float(model.log_prior), float(model.log_lik), float(model.log_prob))
    if not np.allclose(got, ref(1.0, -0.8), rtol=1e-4, atol=1e-3):
        bad = f"values assigned before build_model(): (log_prior, log_lik, log_prob) = {got}, joint density at the build-time values {ref(1.0, -0.8)}"
    if bad is None:
        _nodes, vars_ = model.pop_nodes_and_vars()
        vars_["log_sigma"].value = np.float32(-0.5)
        vars_["mu"].value = np.float32(2.0)
        model2 = lsl.GraphBuilder().add(vars_["y"]).build_model()
        got = (float(model2.log_prior), float(model2.log_lik), float(model2.log_prob))
        if not np.allclose(got, ref(-0.5, 2.0), rtol=1e-4, atol=1e-3):
            bad = f"values assigned after pop_nodes_and_vars(), model rebuilt: (log_prior, log_lik, log_prob) = {got}, joint density at the build-time values {ref(-0.5, 2.0)}"
    col.add({"sig": "native::totals::assigned_outside_a_model", "what": bad, "input": {"sequence": ["construct", "assign", "build", "pop", "assign", "build"]}} if bad else None)


def literal_hyperparameter_case(col, rng):
    """hyper-parameters given as plain literals live in anonymous Value nodes of the model: after assigning to such a node the totals are the joint
    density under the CURRENT hyper-parameters (direct TFP reference)"""
    y_np = rng.normal(size=3).astype(np.float32)
    dmu = lsl.Dist(tfd.Normal, loc=0.0, scale=1.0)
    mu = lsl.param(np.float32(1.0), dmu, name="mu")
    dy = lsl.Dist(tfd.Normal, loc=mu, scale=0.5)
    y = lsl.obs(y_np, dy, name="y")
    model = lsl.GraphBuilder().add(y).build_model()

    def ref(m, s_mu, s_y):
        prior = float(tfd.Normal(0.0, np.float32(s_mu)).log_prob(np.float32(m)))
        lik = float(jnp.sum(tfd.Normal(np.float32(m), np.float32(s_y)).log_prob(y_np)))
        return prior, lik, prior + lik

    bad = None
    got = (float(model.log_prior), float(model.log_lik), float(model.log_prob))
    if not np.allclose(got, ref(1.0, 1.0, 0.5), rtol=1e-4, atol=1e-3):
        bad = f"as built: {got} vs {ref(1.0, 1.0, 0.5)}"
    if bad is None:
        model.nodes[dmu.kwinputs["scale"].name].value = np.float32(10.0)
        model.nodes[dy.kwinputs["scale"].name].value = np.float32(2.0)
        got = (float(model.log_prior), float(model.log_lik), float(model.log_prob))
        if not np.allclose(got, ref(1.0, 10.0, 2.0), rtol=1e-4, atol=1e-3):
            bad = f"prior scale node set to 10, likelihood scale node set to 2: (log_prior, log_lik, log_prob) = {got}, joint density under the current hyper-parameters {ref(1.0, 10.0, 2.0)}"
    if bad is None:
        st = model.state
        st[dmu.kwinputs["scale"].name] = type(st[dmu.kwinputs["scale"].name])(np.float32(3.0), False)
        model.auto_update = False
        model.state = st
        for n_ in model.nodes.values():
            if n_.name in ("mu_log_prob",):
                n_.flag_outdated() if hasattr(n_, "flag_outdated") else None
        model.update()
        got = float(model.log_prior)
        if not np.isclose(got, ref(1.0, 3.0, 2.0)[0], rtol=1e-4, atol=1e-3):
            bad = f"prior scale restored as 3 through model.state, mu_log_prob flagged and updated: log_prior = {got}, expected {ref(1.0, 3.0, 2.0)[0]}"
    col.add({"sig": "native::totals::literal_hyperparameter_reassigned", "what": bad, "input": {"nodes": "anonymous Value nodes of literal scale parameters"}} if bad else None)


def bare_dist_case(col, rng):
    """a distribution node that belongs to NO variable (a soft constraint evaluated at a function of mu, evaluation point set by hand): it is one of the model's
    distribution nodes, so log_prob includes it (direct TFP reference); log_lik / log_prior do not"""
    y_np = rng.normal(size=3).astype(np.float32)
    mu = lsl.param(np.float32(0.4), lsl.Dist(tfd.Normal, loc=0.0, scale=3.0), name="mu")
    y = lsl.obs(y_np, lsl.Dist(tfd.Normal, loc=mu, scale=1.0), name="y")
    pen = lsl.Dist(tfd.Normal, loc=0.0, scale=0.1, _name="mu_sum_constraint")
    pen.at = lsl.Calc(lambda m: m * 3.0, mu, _name="three_mu")
    model = lsl.GraphBuilder().add(y, pen).build_model()
    bad = None
    for v in (0.4, -1.2):
        model.vars["mu"].value = np.float32(v)
        prior = float(tfd.Normal(0.0, 3.0).log_prob(np.float32(v)))
        lik = float(jnp.sum(tfd.Normal(np.float32(v), 1.0).log_prob(y_np)))
        penalty = float(tfd.Normal(0.0, 0.1).log_prob(np.float32(3.0 * v)))
        got = (float(model.log_prior), float(model.log_lik), float(model.log_prob))
        if not np.allclose(got, (prior, lik, prior + lik + penalty), rtol=1e-4, atol=1e-3):
            bad = f"mu = {v}: (log_prior, log_lik, log_prob) = {got}; sum over all distribution nodes gives log_prob = {prior + lik + penalty} (penalty node {penalty})"
            break
    col.add({"sig": "native::totals::bare_distribution_node", "what": bad, "input": {"node": "Dist without variable, at = Calc(3 mu)"}} if bad else None)


def host_state_case(col, rng):
    """log-densities held as HOST (NumPy) arrays - a state fetched with jax.device_get and restored - are reduced like device arrays: after the restore one
    variable is re-assigned, so only some distribution nodes are re-evaluated and the totals add NumPy and JAX log-densities"""
    for per_obs in (True, False):
        model, X, K = build(rng, per_obs, False, False)
        bpri = lsl.Dist(tfd.Normal, loc=0.0, scale=model.vars["tau"])
        nodes, vars_ = model.pop_nodes_and_vars()
        vars_["beta"].dist_node = bpri
        bpri.per_obs = per_obs
        model = lsl.GraphBuilder().add(vars_["y"], vars_["free"]).build_model()
        model.state = jax.device_get(model.state)
        model.vars["mu"].value = np.float32(rng.normal())
        v = {k: np.asarray(model.vars[k].value, dtype=np.float64) for k in ("tau", "mu", "beta", "y", "free")}
        lp = {"tau": float(tfd.InverseGamma(2.0, 1.0).log_prob(v["tau"])), "mu": float(tfd.Normal(0.0, v["tau"]).log_prob(v["mu"])),
              "beta": float(np.sum(tfd.Normal(0.0, v["tau"]).log_prob(v["beta"]))), "free": float(tfd.Normal(0.0, 1.0).log_prob(v["free"])),
              "y": float(np.sum(tfd.Normal(v["mu"] + np.asarray(X, np.float64) @ v["beta"], 1.3).log_prob(v["y"])))}
        want = {"log_prob": sum(lp.values()), "log_lik": lp["y"], "log_prior": lp["tau"] + lp["mu"] + lp["beta"]}
        for nm, w in want.items():
            got = np.asarray(getattr(model, nm))
            if got.shape != () or not np.isclose(float(got), w, rtol=2e-4, atol=2e-3):
                col.add({"sig": f"native::totals::host_arrays::{nm}", "what": f"{nm} is {np.array2string(got, precision=4)} (shape {got.shape}) after restoring a host-side state and re-assigning mu; the sum of the log-densities is {w:.5f}",
                         "input": {"per_obs": per_obs, "state": "jax.device_get(model.state)"}})
                return
    col.add(None)


def parameter_dependent_bijector_case(col, rng):
    """x ~ Uniform(0, upper) re-parameterised automatically with the DEFAULT bijector Sigmoid(0, upper), upper a model variable: after `upper` is re-assigned
    the prior total is the transformed density under the CURRENT bound (x = upper * sigmoid(t)), log_lik follows x, and prob = lik + prior"""
    import tensorflow_probability.substrates.jax.bijectors as tfb
    upper = lsl.Var(np.float32(1.0), name="upper")
    x = lsl.param(np.float32(0.5), lsl.Dist(tfd.Uniform, low=0.0, high=upper), name="x")
    x.auto_transform = True
    y = lsl.obs(jnp.asarray(rng.normal(size=4), jnp.float32), lsl.Dist(tfd.Normal, loc=x, scale=1.0), name="y")
    model = lsl.GraphBuilder().add(y).build_model()
    bad = None
    for up, t in ((1.0, 0.3), (3.0, 0.3), (3.0, -0.8)):
        model.vars["upper"].value = np.float32(up)
        model.vars["x_transformed"].value = np.float32(t)
        b = tfb.Sigmoid(low=0.0, high=np.float32(up))
        xv = float(b.forward(np.float32(t)))
        want_prior = float(tfd.Uniform(0.0, np.float32(up)).log_prob(xv) + b.forward_log_det_jacobian(np.float32(t), event_ndims=0))
        want_lik = float(np.sum(tfd.Normal(xv, 1.0).log_prob(np.asarray(model.vars["y"].value))))
        got = (float(model.log_prior), float(model.log_lik), float(model.log_prob))
        if not np.allclose(got, (want_prior, want_lik, want_prior + want_lik), rtol=2e-4, atol=2e-4):
            bad = bad or f"upper = {up}, x_transformed = {t}: (log_prior, log_lik, log_prob) = {tuple(round(g, 4) for g in got)}, the joint density gives {(round(want_prior, 4), round(want_lik, 4), round(want_prior + want_lik, 4))}"
    col.add(None if bad is None else {"sig": "native::totals::parameter_dependent_default_bijector", "what": bad, "input": {"model": "x ~ Uniform(0, upper), auto_transform; y ~ N(x, 1)"}})


def repeated_build_case(col, rng):
    """one builder with user-supplied total nodes, built three times (copy=True, copy=True, copy=False): every model forwards the user nodes"""
    mu = lsl.param(np.float32(rng.normal()), lsl.Dist(tfd.Normal, loc=0.0, scale=2.0), name="mu")
    y = lsl.obs(jnp.asarray(rng.normal(size=4), jnp.float32), lsl.Dist(tfd.Normal, loc=mu, scale=1.0), name="y")
    gb = lsl.GraphBuilder().add(y)
    gb.log_lik_node = lsl.Calc(lambda m: jnp.asarray(m) * 0.0 + 11.0, mu, _name="user_lik")
    gb.log_prior_node = lsl.Calc(lambda m: jnp.asarray(m) * 0.0 + 22.0, mu, _name="user_prior")
    gb.log_prob_node = lsl.Calc(lambda m: jnp.asarray(m) * 0.0 + 44.0, mu, _name="user_prob")
    bad = None
    for i, copy in enumerate((True, True, False)):
        model = gb.build_model(copy=copy)
        got = (float(model.log_lik), float(model.log_prior), float(model.log_prob))
        if got != (11.0, 22.0, 44.0):
            bad = f"build #{i + 1} (copy={copy}) of the same builder: totals {got}, the user nodes say (11.0, 22.0, 44.0)"
            break
    col.add({"sig": "native::totals::user_nodes_lost_on_rebuild", "what": bad, "input": {"builds": ["copy=True", "copy=True", "copy=False"]}} if bad else None)


def bounded(tier, seed):
    rng = np.random.default_rng(seed)
    col = util.Collector()
    from rtc.c01 import CORE_RULE, core_native
    core_native(col, seed)
    try:
        from rtc.c01 import inplace_case
        sub = util.Collector()
        for au in (True, False):
            inplace_case(sub, au)
        col.add({**sub.violations[0], "sig": "native::totals::in_place_mutation"} if sub.violations else None)
    except Exception as e:
        col.add({"sig": f"native::totals::exception::{type(e).__name__}", "what": str(e)[:200], "input": {"scenario": "in-place mutation"}})
    try:
        named_update_case(col, rng)
    except Exception as e:
        col.add({"sig": f"native::totals::exception::{type(e).__name__}", "what": str(e)[:200], "input": {"scenario": "named update, weak variable with distribution"}})
    try:
        bare_dist_case(col, rng)
    except Exception as e:
        col.add({"sig": f"native::totals::exception::{type(e).__name__}", "what": str(e)[:200], "input": {"scenario": "bare distribution node"}})
    try:
        literal_hyperparameter_case(col, rng)
    except Exception as e:
        col.add({"sig": f"native::totals::exception::{type(e).__name__}", "what": str(e)[:200], "input": {"scenario": "literal hyper-parameter reassigned"}})
    try:
        outside_assignment_case(col, rng)
    except Exception as e:
        col.add({"sig": f"native::totals::exception::{type(e).__name__}", "what": str(e)[:200], "input": {"scenario": "values assigned outside a model"}})
    try:
        parameter_dependent_bijector_case(col, rng)
    except Exception as e:
        col.add({"sig": f"native::totals::exception::{type(e).__name__}", "what": str(e)[:200], "input": {"scenario": "parameter-dependent default bijector"}})
    try:
        host_state_case(col, rng)
    except Exception as e:
        col.add({"sig": f"native::totals::exception::{type(e).__name__}", "what": str(e)[:200], "input": {"scenario": "host-side state restored"}})
    try:
        repeated_build_case(col, rng)
    except Exception as e:
        col.add({"sig": f"native::totals::exception::{type(e).__name__}", "what": str(e)[:200], "input": {"scenario": "repeated build with user nodes"}})
    combos = [(po, at, un) for po in (True, False) for at in (False, True) for un in (False, True)]
    reps = 1 if tier == "quick" else 8
    for _ in range(reps):
        for c_ in combos:
            try:
                case(col, rng, *c_)
            except Exception as e:
                col.add({"sig": f"native::totals::exception::{type(e).__name__}", "what": f"{type(e).__name__}: {str(e)[:200]}", "input": {"combo": list(c_)}})
    try:
        user_node_fully_flagged_case(col, rng)
    except Exception as e:
        col.add({"sig": f"native::totals::exception::{type(e).__name__}", "what": str(e)[:200], "input": {"scenario": "user node, fully flagged"}})
    try:
        distreg_case(col, rng)
    except Exception as e:
        col.add({"sig": f"native::totals::distreg_exception::{type(e).__name__}", "what": str(e)[:200], "input": {}})
    return {"evaluations": col.evals, "distinct_nontrivial": len(combos) * reps + 1,
            "rule": (CORE_RULE + "; " + f"BOUNDED: hierarchical model family (InverseGamma variance with/without auto-transform, Normal mean, degenerate-MVN coefficient prior via from_penalty, weak linear "
                     f"predictor, vector Normal response stored per observation or summed, an unflagged distributed variable, optional user log-lik node) x {reps} seeded value draws, each "
                     "checked after build and after re-assigning values: log_prob / log_lik / log_prior against direct TFP evaluation; one DistRegBuilder model (flags exactly-one, "
                     f"prob = lik + prior = sum of distribution nodes); values assigned while the graph is outside a model (before build, after pop_nodes_and_vars) then built; literal hyper-parameters re-assigned through their anonymous Value nodes; a distribution node that belongs to no variable; an auto-transformed Uniform(0, upper) variable (default bijector depends on a model variable) after `upper` was re-assigned; a host-side (NumPy) state restored and one variable re-assigned (totals mix NumPy and JAX log-densities). seed={seed}"),
            "samples": [{"per_obs": False, "auto_transform": True, "user_lik_node": False}], "exhaustive": False, "violations": col.violations}

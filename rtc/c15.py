"""C15 bounded stand-in: native round trips (pop + rebuild, copy_nodes_and_vars, deepcopy, copy=True, save / load) and mutation
attempts on generated graphs (groups, unnamed nodes, shared inputs, seeded nodes)."""
from __future__ import annotations

import copy
import io
import os
import tempfile

import jax
import jax.numpy as jnp
import numpy as np
import tensorflow_probability.substrates.jax.distributions as tfd

from rtc import util
import liesel.model as lsl


def build(rng, seeded=False, grouped=True, auto=False):
    a = lsl.param(np.float32(rng.normal()), lsl.Dist(tfd.Normal, loc=0.0, scale=2.0), name="a")
    shared = lsl.Calc(lambda x: jnp.asarray(x) * 2.0, a)  # unnamed, shared
    left = lsl.Var(lsl.Calc(lambda s: jnp.asarray(s) + 1.0, shared), name="left")
    right = lsl.TransientCalc(lambda s: jnp.asarray(s) - 1.0, shared, _name="right")
    nodes = [left]
    # bare, monitored root nodes whose names merely CONTAIN the reserved `_model` prefix (a "null model", a sub-model ...): ordinary user nodes
    nodes += [lsl.Calc(lambda s: jnp.asarray(s) * 0.5, shared, _name="null_model_log_prob"), lsl.Calc(lambda s: jnp.asarray(s) - 2.0, shared, _name="my_model_x_seed")]
    if seeded:
        noisy = lsl.Calc(lambda s, seed: s + 0.0 * jax.random.normal(seed), shared, _name="noisy", _needs_seed=True)
        nodes.append(noisy)
    yvals = jnp.asarray(rng.normal(size=3), jnp.float32)
    if auto:  # a positive parameter that build_model re-parameterises automatically (auto_transform)
        sc = lsl.param(np.float32(1.3), lsl.Dist(tfd.InverseGamma, concentration=2.0, scale=1.0), name="sc")
        sc.auto_transform = True
        y = lsl.obs(yvals, lsl.Dist(tfd.Normal, loc=left, scale=lsl.Calc(lambda r, s_: jnp.exp(r) * s_, right, sc)), name="y")
    else:
        y = lsl.obs(yvals, lsl.Dist(tfd.Normal, loc=left, scale=lsl.Calc(jnp.exp, right)), name="y")
    gb = lsl.GraphBuilder().add(y, *nodes)
    if grouped:
        gb.add_groups(lsl.Group("grp", a=a, left=left))
    return gb.build_model()


def snapshot(m):
    return {k: (None if v.value is None else np.asarray(v.value, dtype=np.float32), bool(v.outdated)) for k, v in m.state.items() if not k.endswith("_seed")}


def same(s1, s2):
    return s1.keys() == s2.keys() and all(s1[k][1] == s2[k][1] and ((s1[k][0] is None and s2[k][0] is None) or (s1[k][0] is not None and s2[k][0] is not None and np.allclose(s1[k][0], s2[k][0], rtol=1e-6))) for k in s1)


def behaves_same(m1, m2):
    for m in (m1, m2):
        m.vars["a"].value = np.float32(0.77)
    return same(snapshot(m1), snapshot(m2))


def structure_ok(m):
    names = list(m.nodes)
    if len(set(names)) != len(names) or any(not n for n in names):
        return "names not unique / empty"
    for n in m.nodes.values():
        inv = [o for o in m.nodes.values() if any(n is i for i in o.all_input_nodes())]
        outs = list(n.outputs)
        if len(outs) != len(inv) or any(not any(o is x for x in inv) for o in outs):
            return f"outputs of {n.name} are not the inverse of inputs"
    pos = {id(n): i for i, n in enumerate(m._sorted_nodes)}
    if any(pos[id(i)] >= pos[id(n)] for n in m.nodes.values() for i in n.all_input_nodes()):
        return "update order not topological"
    return None


def case(col, rng, how, seeded, auto=False):
    inp = {"round_trip": how, "seeded_node": seeded, "auto_transformed_parameter": auto}
    seed0 = int(rng.integers(0, 1000))
    r1 = np.random.default_rng(seed0)
    orig = build(r1, seeded, auto=auto)
    ref = snapshot(orig)
    bad = structure_ok(orig)
    try:
        if how == "pop_rebuild":
            nodes, vars_ = orig.pop_nodes_and_vars()
            new = lsl.GraphBuilder().add(*nodes.values(), *vars_.values()).build_model()
            other = build(np.random.default_rng(seed0), seeded, auto=auto)
        elif how == "copy_nodes_rebuild":
            nodes, vars_ = orig.copy_nodes_and_vars()
            new = lsl.GraphBuilder().add(*nodes.values(), *vars_.values()).build_model()
            other = orig
        elif how == "deepcopy":
            new = copy.deepcopy(orig)
            other = orig
        elif how == "copy_true":
            r2 = np.random.default_rng(seed0)
            a = lsl.param(np.float32(r2.normal()), lsl.Dist(tfd.Normal, loc=0.0, scale=2.0), name="a")
            gb = lsl.GraphBuilder().add(a)
            if auto:
                a.auto_transform = True
            new = gb.build_model(copy=True)
            new2 = gb.build_model(copy=True)
            tgt = "a_transformed" if auto else "a"
            new.vars[tgt].value = np.float32(5.0)
            ok = float(new2.vars[tgt].value) != 5.0 and a.model is None and list(new.vars) == list(new2.vars)
            col.add(None if ok else {"sig": "native::roundtrip::copy_true", "what": "copy=True models are not independent of the builder's nodes", "input": inp})
            return
        else:
            with tempfile.TemporaryDirectory(dir=os.environ.get("VERIF_TMP", "/var/tmp")) as d:
                p = os.path.join(d, "m.pkl")
                lsl.save_model(orig, p)
                new = lsl.load_model(p)
            other = orig
    except Exception as e:
        sig = "native::roundtrip::seeded_nodes_rebuild" if seeded and how in ("pop_rebuild", "copy_nodes_rebuild") else f"native::roundtrip::exception::{how}"
        col.add({"sig": sig, "what": f"{how}: {type(e).__name__}: {str(e)[:160]}", "input": inp})
        return
    bad = bad or structure_ok(new)
    if not bad and not same(snapshot(new), ref):
        bad = "state differs after the round trip"
    if not bad and how != "pop_rebuild":
        new.vars["a"].value = np.float32(-3.0)
        if not same(snapshot(other), ref):
            bad = "the copy is not independent of the original"
        new.vars["a"].value = np.float32(other.vars["a"].value)
    if not bad and not behaves_same(new, other):
        bad = "behaviour under assignment differs"
    col.add({"sig": f"native::roundtrip::{how}", "what": f"{how}: {bad}", "input": inp} if bad else None)


def model_from_iterable_case(col, rng):
    """Model(nodes_and_vars: Iterable, grow=...) given a one-shot iterable (itertools.chain over the popped nodes and variables) builds the model a list gives"""
    import itertools
    out = {}
    for grow in (True, False):
        for how in ("list", "chain"):
            m = build(np.random.default_rng(7))
            nodes, vars_ = m.pop_nodes_and_vars()
            objs = itertools.chain(nodes.values(), vars_.values())
            try:
                m2 = lsl.Model(list(objs) if how == "list" else objs, grow=grow)
                out[(grow, how)] = (sorted(m2.nodes), sorted(m2.vars))
            except Exception as e:
                out[(grow, how)] = f"{type(e).__name__}: {str(e)[:100]}"
    bad = [f"grow={g}: from a list {len(out[(g, 'list')][0])} nodes / {len(out[(g, 'list')][1])} variables, from a one-shot iterable "
           + (f"{len(out[(g, 'chain')][0])} nodes / {len(out[(g, 'chain')][1])} variables" if not isinstance(out[(g, 'chain')], str) else out[(g, 'chain')])
           for g in (True, False) if not isinstance(out[(g, "list")], str) and out[(g, "chain")] != out[(g, "list")]]
    col.add(None if not bad else {"sig": "native::structure::model_from_one_shot_iterable", "what": "; ".join(bad), "input": {"constructor": "lsl.Model(itertools.chain(nodes.values(), vars.values()), grow=...)"}})


def mutation_case(col, rng):
    m = build(rng)
    n, v, d = m.nodes["left_value"], m.vars["left"], m.nodes["y_log_prob"]
    attempts = [lambda: setattr(n, "name", "x"), lambda: n.set_inputs(), lambda: n.add_inputs(1.0), lambda: setattr(n, "function", abs), lambda: setattr(n, "needs_seed", True),
                lambda: setattr(d, "distribution", tfd.Cauchy), lambda: setattr(d, "per_obs", False), lambda: setattr(d, "at", None),
                lambda: setattr(v, "name", "z"), lambda: setattr(v, "observed", True), lambda: setattr(v, "parameter", True), lambda: setattr(v, "value_node", 1.0), lambda: setattr(v, "dist_node", None)]
    before = (n.name, n.inputs, dict(n.kwinputs), n.function, n.needs_seed, d.distribution, d.per_obs, d.at, v.name, v.observed, v.parameter, v.value_node, v.dist_node)
    bad = None
    for i, f in enumerate(attempts):
        try:
            f()
            bad = f"mutation attempt #{i} on a node/variable of a model was not rejected"
            break
        except RuntimeError:
            pass
    after = (n.name, n.inputs, dict(n.kwinputs), n.function, n.needs_seed, d.distribution, d.per_obs, d.at, v.name, v.observed, v.parameter, v.value_node, v.dist_node)
    if not bad and any(x is not y and x != y for x, y in zip(before, after)):
        bad = "a rejected mutation changed the node"
    col.add({"sig": "native::frozen", "what": bad, "input": {}} if bad else None)
    for mk, what in ((lambda: lsl.GraphBuilder().add(lsl.Value(1.0, _name="d"), lsl.Value(2.0, _name="d")).build_model(), "duplicate names"),):
        try:
            mk()
            col.add({"sig": "native::rejections", "what": f"{what} accepted", "input": {}})
        except RuntimeError:
            col.add(None)


def constructor_rejections_case(col):
    """Model(nodes_and_vars, grow=False) used directly (no automatic naming): unnamed duplicates must be rejected like named ones"""
    bad = None
    def attempts():
        a, b = lsl.Value(1.0), lsl.Value(2.0)
        yield "two unnamed nodes", lambda: lsl.Model([a, b, lsl.Calc(lambda x, y: x + y, a, b, _name="c")], grow=False)
        d1, d2 = lsl.Value(1.0, _name="d"), lsl.Value(2.0, _name="d")
        yield "duplicate name next to a distinct one", lambda: lsl.Model([lsl.Value(0.0, _name="n"), d1, d2], grow=False)
        v1, v2 = lsl.Var(1.0), lsl.Var(2.0)
        for i, v in enumerate((v1, v2)):
            v.value_node.name = f"w{i}_value"
            v.var_value_node.name = f"w{i}_var_value"
        yield "two unnamed variables", lambda: lsl.Model([v1, v2, v1.value_node, v2.value_node, v1.var_value_node, v2.var_value_node], grow=False)
    for what, mk in attempts():
        try:
            m = mk()
            bad = f"{what}: accepted (model nodes {list(m.nodes)}, vars {list(m.vars)})"
            break
        except RuntimeError:
            pass
    col.add({"sig": "native::rejections::constructor", "what": bad, "input": {"entry": "Model(..., grow=False)"}} if bad else None)


def cycle_rejections_case(col):
    """cyclic graphs are rejected whichever kind of edge closes the cycle: ordinary inputs, or the EVALUATION edge of a distribution
    (functions tolerate None so that nothing else fails first); an acyclic control is accepted"""
    import tensorflow_probability.substrates.jax.distributions as tfd_
    tol = lambda v: 0.0 if v is None else jnp.sum(jnp.asarray(v)) * 0.0  # noqa: E731

    def plain():
        p = lsl.Calc(lambda *a: 0.0, _name="p")
        q = lsl.Calc(lambda v: 0.0, p, _name="q")
        p.set_inputs(q)
        return lsl.GraphBuilder().add(q).build_model()

    def at_cycle():
        d = lsl.Dist(tfd_.Normal, loc=0.0, scale=1.0)
        c = lsl.Calc(tol, d, _name="c")
        d.at = c
        return lsl.Model([c])

    def self_density():
        x = lsl.Var(0.5, lsl.Dist(tfd_.Normal, loc=0.0, scale=1.0), name="x")
        x.value_node = lsl.Calc(tol, x.dist_node)
        return lsl.GraphBuilder().add(x).build_model()

    bad = None
    for what, mk in (("cycle of calculations", plain), ("distribution evaluated at a function of its own log-density", at_cycle), ("variable whose value depends on its own log-density", self_density)):
        try:
            m = mk()
            bad = f"{what}: accepted, update order {[n.name for n in m._sorted_nodes][:8]}"
            break
        except Exception:
            pass
    try:
        ok = lsl.GraphBuilder().add(lsl.Var(lsl.Calc(tol, lsl.Var(1.0, name="a")), name="b")).build_model()
    except Exception as e:
        bad = bad or f"acyclic control rejected: {type(e).__name__}"
    col.add({"sig": "native::rejections::cycle", "what": bad, "input": {"graphs": ["calc cycle", "at-edge cycle (bare Dist)", "at-edge cycle (variable)"]}} if bad else None)


def foreign_variable_case(col):
    """a model-free variable must not be able to take over a node frozen in a model (bare Value node: no variable owns it)"""
    z = lsl.Value(np.float32(2.5), _name="z")
    top = lsl.Calc(lambda a: a * 2.0, z, _name="top")
    model = lsl.GraphBuilder().add(top).build_model()
    zz = model.nodes["z"]
    bad = None
    for what, act in (("free_var.value_node = node", lambda: setattr(lsl.Var(np.float32(1.0), name="thief"), "value_node", zz)), ("Var(node)", lambda: lsl.Var(zz, name="thief2")),
                      ("obs(node)", lambda: lsl.obs(zz, name="thief3"))):
        try:
            act()
            bad = f"{what}: a node that belongs to a model was accepted as the value node of a model-free variable"
            break
        except RuntimeError:
            pass
        if zz.var is not None or zz.model is not model:
            bad = f"{what}: rejected, but the frozen node was modified (node.var = {zz.var!r})"
            break
    if bad is None:
        n_before = (len(model.nodes), len(model.vars))
        nodes, vars_ = model.pop_nodes_and_vars()
        m2 = lsl.GraphBuilder().add(*nodes.values(), *vars_.values()).build_model()
        if (len(m2.nodes), len(m2.vars)) != n_before:
            bad = f"pop + rebuild after the rejected attempts gives {len(m2.nodes)} nodes / {len(m2.vars)} variables instead of {n_before}"
    col.add({"sig": "native::frozen::foreign_variable", "what": bad, "input": {"node": "bare Value node inside a model"}} if bad else None)


def groups_case(col, rng):
    """the groups a model reports hold the model's OWN members (also for copy=True and deep copies)"""
    for how in ("copy_false", "copy_true", "deepcopy"):
        a = lsl.param(np.float32(0.3), lsl.Dist(tfd.Normal, loc=0.0, scale=2.0), name="a")
        b = lsl.Var(lsl.Calc(lambda x: jnp.asarray(x) * 2.0, a), name="b")
        r = lsl.Var(np.float32(7.0), name="r")  # members that nothing else in the builder leads to
        nb = lsl.Calc(lambda: 1.0, _name="n_bare")
        gb = lsl.GraphBuilder().add(b)
        gb.add_groups(lsl.Group("grp", a=a, b=b, r=r, n=nb))
        m = gb.build_model(copy=(how == "copy_true"))
        if "r" not in m.vars or "n_bare" not in m.nodes:
            col.add({"sig": "native::structure::groups", "what": f"{how}: members of an added group are missing from the model: vars {sorted(m.vars)}, 'n_bare' in nodes: {'n_bare' in m.nodes}", "input": {"build": how}})
            continue
        if how == "deepcopy":
            m = copy.deepcopy(m)
        g = m.groups().get("grp")
        bad = None
        if g is None or sorted(g.vars) != ["a", "b", "r"]:
            bad = "group missing or members missing"
        elif g["a"] is not m.vars["a"] or g["b"] is not m.vars["b"]:
            bad = "group member is not the variable held by the model"
        else:
            g["a"].value = np.float32(1.5)
            if float(m.vars["b"].value) != 3.0:
                bad = "assigning through the group member does not act on the model"
        col.add({"sig": "native::structure::groups", "what": f"{how}: {bad}", "input": {"build": how}} if bad else None)


def dropped_model_case(col):
    """nodes of a model that was dropped (not popped) are re-wired and rebuilt"""
    import gc
    a = lsl.Value(1.0, _name="a")
    b = lsl.Calc(lambda x: x + 1.0, a, _name="b")
    m1 = lsl.GraphBuilder().add(b).build_model()
    del m1
    gc.collect()
    c_ = lsl.Calc(lambda x: x * 3.0, a, _name="c")
    m2 = lsl.GraphBuilder().add(c_).build_model()
    bad = None
    if [o.name for o in a.outputs] != ["c"]:
        bad = f"outputs of a are {[o.name for o in a.outputs]}, but only c has it as an input"
    else:
        try:
            a.value = 2.0
            if float(c_.value) != 6.0:
                bad = "assignment did not propagate"
        except RuntimeError as e:
            bad = f"assignment raised {e}"
    col.add({"sig": "native::structure::stale_outputs", "what": bad, "input": {"scenario": "build, drop model, re-wire, rebuild"}} if bad else None)


def bare_dist_case(col):
    """a stand-alone Dist (no Var) whose evaluation point was set by hand and is reachable only through `at`"""
    x = lsl.Var(np.float32(0.3), name="x")
    point = lsl.Calc(lambda v: v * 2.0, x, _name="point")
    dist = lsl.Dist(tfd.Normal, loc=0.0, scale=1.0, _name="dist")
    dist.at = point
    bad = None
    for how in ("GraphBuilder", "Model"):
        m = lsl.GraphBuilder().add(dist).build_model() if how == "GraphBuilder" else lsl.Model([dist])
        if "point" not in m.nodes or "x" not in m.vars:
            bad = f"{how}: the evaluation point of the distribution (or its input variable) is missing from the model: nodes {sorted(n for n in m.nodes if not n.startswith('_model'))}"
        elif m.nodes["point"].model is not m or structure_ok(m) is not None:
            bad = f"{how}: evaluation point not owned by the model / {structure_ok(m)}"
        else:
            m.vars["x"].value = np.float32(1.0)
            want = float(tfd.Normal(0.0, 1.0).log_prob(2.0))
            if not np.isclose(float(m.nodes["dist"].value), want, rtol=1e-5):
                bad = f"{how}: after assigning x the distribution node holds {float(m.nodes['dist'].value)}, expected {want}"
        m.pop_nodes_and_vars()
        if bad:
            break
    col.add({"sig": "native::structure::bare_dist_at", "what": bad, "input": {"graph": "Dist(at=Calc(x)) added alone"}} if bad else None)


def bounded(tier, seed):
    rng = np.random.default_rng(seed)
    col = util.Collector()
    try:
        bare_dist_case(col)
    except Exception as e:
        col.add({"sig": f"native::structure::exception::{type(e).__name__}", "what": str(e)[:200], "input": {"scenario": "bare dist with hand-set at"}})
    try:
        groups_case(col, rng)
    except Exception as e:
        col.add({"sig": f"native::structure::exception::{type(e).__name__}", "what": str(e)[:200], "input": {"scenario": "groups"}})
    try:
        dropped_model_case(col)
    except Exception as e:
        col.add({"sig": f"native::structure::exception::{type(e).__name__}", "what": str(e)[:200], "input": {"scenario": "dropped model"}})
    hows = ("pop_rebuild", "copy_nodes_rebuild", "deepcopy", "copy_true", "save_load")
    n = 0
    for rep in range(1 if tier == "quick" else 4):
        for how in hows:
            for seeded in (False, True):
                if how == "copy_true" and seeded:
                    continue
                case(col, rng, how, seeded)
                n += 1
    for how in hows:  # the same round trips with a parameter that build_model re-parameterises automatically
        case(col, rng, how, False, auto=True)
        n += 1
    try:
        model_from_iterable_case(col, rng)
    except Exception as e:
        col.add({"sig": f"native::structure::exception::{type(e).__name__}", "what": str(e)[:200], "input": {"scenario": "Model from a one-shot iterable"}})
    mutation_case(col, rng)
    try:
        # "orders updates topologically" for the targeted update too: scripted histories of rtc.c01 on a graph with two paths of different length
        import random as _random
        from rtc.c01 import ORDER_SCRIPTS, OrderSpec, run_history
        v_ = None
        for sc in ORDER_SCRIPTS:
            v_ = v_ or run_history(None, _random.Random(0), OrderSpec(), 0, script=sc)
        col.add({**v_, "sig": "native::structure::targeted_update_order"} if v_ else None)
    except Exception as e:
        col.add({"sig": f"native::structure::exception::{type(e).__name__}", "what": str(e)[:200], "input": {"scenario": "targeted update order"}})
    try:
        cycle_rejections_case(col)
    except Exception as e:
        col.add({"sig": f"native::structure::exception::{type(e).__name__}", "what": str(e)[:200], "input": {"scenario": "cycle rejections"}})
    try:
        constructor_rejections_case(col)
    except Exception as e:
        col.add({"sig": f"native::rejections::exception::{type(e).__name__}", "what": str(e)[:200], "input": {"scenario": "constructor rejections"}})
    try:
        foreign_variable_case(col)
    except Exception as e:
        col.add({"sig": f"native::frozen::exception::{type(e).__name__}", "what": str(e)[:200], "input": {"scenario": "foreign variable"}})
    return {"evaluations": col.evals, "distinct_nontrivial": n + 2,
            "rule": ("BOUNDED: model with a parameter, an unnamed shared Calc, a weak variable, a transient node, an observed vector variable, a group, optionally a seeded node; a stand-alone distribution with a hand-set evaluation point: "
                     "pop + rebuild, copy_nodes_and_vars + rebuild, deepcopy, copy=True, save/load (dill) - structure invariants (unique names, outputs = inverse of inputs, topological "
                     f"order), equal state, independence, equal behaviour under assignment; 13 mutation attempts on frozen nodes/variables; take-over attempts through a model-free variable (setter, Var(), obs()); duplicate names. seed={seed}"),
            "samples": [{"round_trip": "save_load", "seeded_node": True}], "exhaustive": False, "violations": col.violations}

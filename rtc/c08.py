"""C08 bounded stand-in: the real Engine with deterministic counting kernels; stored chains compared with the
per-iteration states the statement prescribes, for several chunkings of the same schedule."""
from __future__ import annotations

import random

import jax
import jax.numpy as jnp
import numpy as np

from rtc import util
from rtc.fixtures import RecordingKernel, make_engine, mk_cfg
import liesel.goose as gs
from liesel.goose.chain import ListEpochChain


def divisors(n):
    return [d for d in range(1, n + 1) if n % d == 0]


def expected_positions(schedule, chains, key_index):
    """p_i starts at chain*100 + i*1000 and is incremented once per iteration; stored: initial, then every thinning-th"""
    init = np.arange(chains, dtype=np.float32) * 100.0 + key_index * 1000.0
    out = [init.copy()]
    post = []
    t = 0
    for (ty, d, th) in schedule[1:]:
        for i in range(1, d + 1):
            t += 1
            if i % th == 0:
                out.append(init + t)
                if ty == 4:
                    post.append(init + t)
    return np.stack(out, axis=1), (np.stack(post, axis=1) if post else None)


def engine_case(col, schedule, chunk, chains, kernels, store_ks, needs_history=(False, False)):
    inp = {"schedule": schedule, "chunk": chunk, "chains": chains, "kernels": kernels, "store_kernel_states": store_ks, "needs_history": list(needs_history)}
    try:
        eng = make_engine(schedule, chunk, chains, kernels, store_kernel_states=store_ks, needs_history=needs_history)
        eng.sample_all_epochs()
        res = eng.get_results()
        samples = res.get_samples()
    except Exception as e:
        col.add({"sig": "native::chain::exception", "what": f"{type(e).__name__}: {str(e)[:200]}", "input": inp})
        return None
    total = sum(d for _, d, _ in schedule[1:])
    for ki in range(kernels):
        want, want_post = expected_positions(schedule, chains, ki)
        got = np.asarray(samples[f"p{ki}"])
        if got.shape != want.shape or not np.array_equal(got, want):
            col.add({"sig": "native::chain::positions", "what": f"stored chain of p{ki} has shape {got.shape}, expected {want.shape}; "
                     f"first chain got {got[0].tolist()[:12]} expected {want[0].tolist()[:12]}", "input": inp})
            return None
        if want_post is not None:
            gp = np.asarray(res.get_posterior_samples()[f"p{ki}"])
            if gp.shape != want_post.shape or not np.array_equal(gp, want_post):
                col.add({"sig": "native::chain::posterior", "what": f"posterior samples of p{ki}: shape {gp.shape}, expected {want_post.shape}", "input": inp})
                return None
    tis = res.transition_infos.combine_all().unwrap()
    for kid, ti in tis.items():
        if np.asarray(ti.error_code).shape != (chains, total):
            col.add({"sig": "native::chain::transition_infos", "what": f"{kid}: {np.asarray(ti.error_code).shape[1]} transition infos stored for {total} transitions", "input": inp})
            return None
    n_post = sum(d for t, d, _ in schedule[1:] if t == 4)
    if n_post:
        pti = res.get_posterior_transition_infos()
        for kid, ti in pti.items():
            if np.asarray(ti.error_code).shape != (chains, n_post):
                col.add({"sig": "native::chain::posterior_infos", "what": f"{kid}: {np.asarray(ti.error_code).shape[1]} posterior transition infos for {n_post} posterior transitions", "input": inp})
                return None
    if store_ks:
        ks = res.kernel_states.unwrap().combine_all().unwrap()
        n = np.asarray(ks[0]["ptr"]).shape[1]
        if n != total + 1:
            col.add({"sig": "native::chain::kernel_states", "what": f"{n} kernel states stored, expected initial + {total}", "input": inp})
            return None
    elif res.kernel_states.is_some():
        col.add({"sig": "native::chain::kernel_states", "what": "kernel states stored although not requested", "input": inp})
        return None
    col.add(None)
    return {k: np.asarray(v) for k, v in samples.items()}


def accessor_aliasing_case(col, schedule, chunk):
    """what the accessors return is the caller's to modify: after editing / deleting entries of a returned dict (as gs.Summary does with its own copy of
    the posterior samples), the accessors still return exactly the stored, tracked quantities"""
    import liesel.goose as gs
    inp = {"schedule": schedule, "chunk": chunk}
    eng = make_engine(schedule, chunk, 2, 2)
    eng.sample_all_epochs()
    res = eng.get_results()
    ref_post = {k: np.array(v) for k, v in res.get_posterior_samples().items()}
    ref_all = {k: np.array(v) for k, v in res.get_samples().items()}
    first = res.get_posterior_samples()
    first["derived"] = first["p0"] * 2
    del first["p1"]
    first["p0"] = np.zeros_like(np.asarray(first["p0"]))
    try:
        gs.Summary(res, deselected=["p1"])
    except Exception:
        pass
    try:
        again = {k: np.asarray(v) for k, v in res.get_posterior_samples().items()}
        all_again = {k: np.asarray(v) for k, v in res.get_samples().items()}
    except Exception as e:
        col.add({"sig": "native::chain::accessor_aliasing", "what": f"after editing a returned dict the accessors raise {type(e).__name__}: {str(e)[:120]}", "input": inp})
        return
    ok = sorted(again) == sorted(ref_post) and all(np.array_equal(again[k], ref_post[k]) for k in ref_post) and sorted(all_again) == sorted(ref_all) and all(np.array_equal(all_again[k], ref_all[k]) for k in ref_all)
    col.add(None if ok else {"sig": "native::chain::accessor_aliasing", "what": f"after editing the dict returned by get_posterior_samples() (and gs.Summary(deselected=['p1'])) the accessor returns keys {sorted(again)} "
                             f"(tracked: {sorted(ref_post)}); values unchanged: { {k: bool(np.array_equal(again[k], ref_post[k])) for k in again if k in ref_post} }", "input": inp})


def continued_sampling_case(col, chunk):
    """ONE results object across continued sampling (it is a live view onto the engine's chains): accessors used, a further posterior epoch appended and
    sampled, accessors used again on the same object - they report the new epoch too, and agree with a results object fetched afterwards"""
    import liesel.goose as gs
    from rtc.fixtures import mk_cfg
    schedule = [(0, 1, 1), (3, 4, 1), (4, 4, 2)]
    eng = make_engine(schedule, chunk, 2, 2)
    eng.sample_all_epochs()
    res = eng.get_results()
    n1 = np.asarray(res.get_posterior_samples()["p0"]).shape[1]
    t1 = np.asarray(jax.tree_util.tree_leaves(res.get_posterior_transition_infos())[0]).shape[1]
    try:
        gs.Summary(res)
    except Exception:
        pass
    eng.append_epoch(mk_cfg(4, 8, 2))
    eng.sample_next_epoch()
    again = {k: np.asarray(v) for k, v in res.get_posterior_samples().items()}
    t2 = np.asarray(jax.tree_util.tree_leaves(res.get_posterior_transition_infos())[0]).shape[1]
    fresh = {k: np.asarray(v) for k, v in eng.get_results().get_posterior_samples().items()}
    ok = n1 == 2 and t1 == 4 and again["p0"].shape[1] == 6 and t2 == 12 and all(np.array_equal(again[k], fresh[k]) for k in fresh)
    col.add(None if ok else {"sig": "native::chain::accessors_after_continued_sampling", "what": f"posterior epochs (4, thinning 2) + (8, thinning 2): the results object obtained before the second epoch reports "
                             f"{again['p0'].shape[1]} posterior draws and {t2} posterior transition infos after it was sampled (stored: 6 and 12; a fresh results object: {fresh['p0'].shape[1]})",
                             "input": {"schedule": schedule + [(4, 8, 2)], "chunk": chunk}})


class ClockKernel(RecordingKernel):
    """key-ignoring kernel whose proposal reads the epoch clock: x = 1000 * epoch index + within-epoch time of the transition"""

    def transition(self, prng_key, kernel_state, model_state, epoch):
        from liesel.goose.kernel import DefaultTransitionInfo, TransitionOutcome
        pos = self.position(model_state)
        new = {k: jnp.zeros_like(v) + 1000.0 * epoch.nth_epoch + epoch.time_in_epoch for k, v in pos.items()}
        info = DefaultTransitionInfo(error_code=jnp.int32(0), acceptance_prob=jnp.float32(1.0), position_moved=jnp.int32(1))
        return TransitionOutcome(info, kernel_state, self.model.update_state(new, model_state))


def clock_case(col, schedule):
    """the stored chain of a clock-reading kernel is the same for every chunk size and shows a continuous within-epoch clock"""
    import math
    from liesel.goose.engine import Engine
    from liesel.goose.kernel_sequence import KernelSequence
    g = math.gcd(*[d for _, d, _ in schedule[1:]])
    want = [0.0]
    for j, (t, d, th) in enumerate(schedule[1:], start=1):
        want += [1000.0 * j + i for i in range(d) if (i + 1) % th == 0]
    for chunk in divisors(g):
        k = ClockKernel(["p0"])
        model = gs.DictInterface(lambda s_: 0.0)
        k.set_model(model)
        k.identifier = "kernel_00"
        eng = Engine(seeds=jax.random.split(jax.random.PRNGKey(0), 1), model_states={"p0": jnp.zeros((1,), jnp.float32)}, kernel_sequence=KernelSequence([k]),
                     epoch_configs=[mk_cfg(*c_) for c_ in schedule], jitted_sample_duration=chunk, model=model, position_keys=None, show_progress=False)
        eng.sample_all_epochs()
        got = np.asarray(eng.get_results().get_samples()["p0"])[0].tolist()
        if got != want:
            col.add({"sig": "native::chain::chunk_dependent_clock", "what": f"chunk size {chunk}: stored chain of a clock-reading kernel {got[:14]}..., expected {want[:14]}...", "input": {"schedule": schedule, "chunk": chunk}})
            return
    col.add(None)


def builder_case(col, included, excluded, shape):
    """tracked-key selection through the builder, with a non-scalar tracked quantity"""
    inp = {"included": included, "excluded": excluded, "shape": list(shape)}
    b = gs.EngineBuilder(seed=3, num_chains=2)
    b.set_epochs([mk_cfg(0, 1, 1), mk_cfg(3, 4, 2), mk_cfg(4, 4, 1)])
    b.set_model(gs.DictInterface(lambda s: 0.0))
    b.set_initial_values({"p0": jnp.zeros(shape), "p1": jnp.ones(shape), "q": jnp.full(shape, 7.0)})
    k0, k1 = RecordingKernel(["p0"]), RecordingKernel(["p1"])
    b.add_kernel(k0); b.add_kernel(k1)
    b.positions_included = list(included)
    b.positions_excluded = list(excluded)
    b.show_progress = False
    eng = b.build()
    eng.sample_all_epochs()
    s = eng.get_results().get_samples()
    want = [k for k in ["p0", "p1"] + list(included) if k not in excluded]
    if sorted(s.keys()) != sorted(set(want)):
        sig = "native::chain::tracked_keys_empty_selection" if not want else "native::chain::tracked_keys"
        col.add({"sig": sig, "what": f"tracked keys {sorted(s.keys())}, expected {sorted(set(want))}", "input": inp})
        return
    for k, v in s.items():
        if np.asarray(v).shape != (2, 1 + 2 + 4) + tuple(shape):
            col.add({"sig": "native::chain::tracked_shape", "what": f"{k}: shape {np.asarray(v).shape}", "input": inp})
            return
    col.add(None)


def chain_unit_cases(col, rng, n):
    """ListEpochChain.append directly: arbitrary chunk partitions of the same state sequence"""
    for _ in range(n):
        th = rng.randint(1, 5)
        total = rng.randint(1, 24)
        cuts, left = [], total
        while left:
            s = rng.randint(1, min(7, left))
            cuts.append(s)
            left -= s
        ch = ListEpochChain(mk_cfg(3, max(total, th), th), apply_thinning=True)
        t = 0
        for s in cuts:
            ch.append({"x": jnp.arange(t + 1, t + s + 1, dtype=jnp.float32)[None, :]})
            t += s
        got = ch.get()
        want = [float(i) for i in range(1, total + 1) if i % th == 0]
        g = [] if got.is_none() else np.asarray(got.unwrap()["x"])[0].tolist()
        if g != want:
            col.add({"sig": "native::chain::thinning", "what": f"kept iterations {g}, expected {want}", "input": {"thinning": th, "chunk_sizes": cuts}})
        else:
            col.add(None)


def bounded(tier, seed):
    rng = random.Random(seed)
    col = util.Collector()
    chain_unit_cases(col, rng, 150 if tier == "quick" else 5000)
    scheds = [
        [(0, 1, 1), (3, 6, 3), (4, 6, 2)],
        [(0, 1, 1), (1, 4, 1), (2, 8, 4), (4, 4, 4)],
        [(0, 1, 1), (4, 6, 1), (4, 6, 3)],
        [(0, 1, 1), (3, 4, 2), (4, 6, 2), (4, 6, 2)],  # two posterior epochs with EQUAL configs
        [(0, 1, 1), (1, 4, 1), (1, 4, 1), (4, 4, 1)],  # two warmup epochs with equal configs
        [(0, 1, 1), (1, 4, 1), (3, 10, 4), (4, 8, 4)],  # a thinned warmup epoch whose length is NOT a multiple of its thinning, then the same thinning again
    ]
    if tier != "quick":
        for _ in range(12):
            s = [(0, 1, 1)]
            post = False
            for _ in range(rng.randint(1, 3)):
                d = rng.choice((2, 3, 4, 6, 8))
                post = post or rng.random() < 0.4
                s.append((4 if post else rng.choice((1, 2, 3)), d, rng.choice(divisors(d))))
            scheds.append(s)
    n_cases = 0
    for s in scheds:
        import math
        g = math.gcd(*[d for _, d, _ in s[1:]])
        ref = None
        chunks = divisors(g) if tier != "quick" else sorted({1, g})
        for chunk in chunks:
            out = engine_case(col, s, chunk, 2, 2, store_ks=(chunk == chunks[0]))
            n_cases += 1
            if out is not None:
                if ref is None:
                    ref = out
                elif any(not np.array_equal(ref[k], out[k]) for k in ref):
                    col.add({"sig": "native::chain::chunk_dependence", "what": "stored results differ between chunk sizes for key-ignoring kernels", "input": {"schedule": s, "chunk": chunk}})
    # accessors hand out data the caller may modify (single stored chunk: posterior duration = chunk size; and several chunks)
    for s, ch in (([(0, 1, 1), (3, 8, 1), (4, 8, 2)], 8), ([(0, 1, 1), (3, 4, 1), (4, 8, 2)], 4)):
        try:
            accessor_aliasing_case(col, s, ch)
        except Exception as e:
            col.add({"sig": f"native::chain::exception::{type(e).__name__}", "what": str(e)[:200], "input": {"schedule": s, "scenario": "accessor aliasing"}})
        n_cases += 1
    for ch in (2, 4):
        try:
            continued_sampling_case(col, ch)
        except Exception as e:
            col.add({"sig": f"native::chain::exception::{type(e).__name__}", "what": str(e)[:200], "input": {"scenario": "accessors across continued sampling", "chunk": ch}})
        n_cases += 1
    # the same storage rule when a kernel asks for the tuning history (thinned warmup epochs of every type, incl. BURNIN)
    for s in ([(0, 1, 1), (3, 6, 3), (4, 6, 2)], [(0, 1, 1), (1, 4, 2), (3, 8, 4), (2, 8, 2), (4, 4, 4)]):
        engine_case(col, s, 2, 2, 2, store_ks=False, needs_history=(True, False))
        n_cases += 1
    for s_ in ([(0, 1, 1), (3, 12, 1), (4, 6, 2)], [(0, 1, 1), (1, 4, 1), (4, 8, 4)]):
        try:
            clock_case(col, s_)
        except Exception as e:
            col.add({"sig": f"native::chain::exception::{type(e).__name__}", "what": str(e)[:200], "input": {"schedule": s_, "kernel": "clock"}})
        n_cases += 1
    for inc, exc, shape in ((["q"], [], (3,)), (["q"], ["p1"], ()), ([], ["p0"], (2, 2)), ([], ["p0", "p1"], ()), (["q", "p0"], ["q"], ()), (["q"], ["q", "p1"], (2,))):
        builder_case(col, inc, exc, shape)
        n_cases += 1
    return {
        "evaluations": col.evals,
        "distinct_nontrivial": n_cases + (150 if tier == "quick" else 5000),
        "rule": (f"BOUNDED: ListEpochChain.append on seeded random chunk partitions (thinning 1..5, <= 24 states); real Engine with counting kernels (x += 1 per "
                 f"iteration) on {len(scheds)} schedules x chunk sizes dividing the durations (quick: smallest and largest), 2 chains, 2 kernels - stored positions, "
                 "posterior accessors, transition-info and kernel-state counts, equality across chunk sizes; accessors of ONE results object before and after a further posterior epoch was appended and sampled; accessors after the caller edited a returned dict / built a Summary with deselected keys (one stored chunk and several); two schedules with thinned FAST / BURNIN / SLOW epochs and a kernel that needs the tuning history; a clock-reading kernel (x = 1000*epoch + time in epoch) for every chunk size dividing the durations; builder runs for included/excluded keys and tracked shapes. "
                 f"seed={seed}"),
        "samples": [{"schedule": scheds[0], "chunks": [1, 6]}, {"included": ["q"], "excluded": ["p1"]}],
        "exhaustive": False,
        "violations": col.violations,
    }


def replay(unit_id, obligation, model):
    if unit_id != "C08.epoch_chain_append":
        return None
    try:
        seen, s, th = int(model["seen"]), int(model["chunk_size"]), int(model["thinning"])
    except (KeyError, TypeError, ValueError):
        return None
    if not (0 <= seen <= 200 and 1 <= s <= 200 and 1 <= th <= 50):
        return None
    ch = ListEpochChain(mk_cfg(3, max(seen + s, th), th), apply_thinning=True)
    if seen:
        ch.append({"x": jnp.arange(1, seen + 1, dtype=jnp.float32)[None, :]})
    ch.append({"x": jnp.arange(seen + 1, seen + s + 1, dtype=jnp.float32)[None, :]})
    got = ch.get()
    g = [] if got.is_none() else np.asarray(got.unwrap()["x"])[0].tolist()
    want = [float(i) for i in range(1, seen + s + 1) if i % th == 0]
    if g != want:
        return {"sig": "native::chain::thinning", "what": f"kept iterations {g}, expected {want}", "input": {"thinning": th, "chunk_sizes": [seen, s] if seen else [s]}}
    return None

"""Shared helpers for the bounded stand-ins."""
import contextlib
import logging
import signal


def quiet():
    import liesel  # noqa: F401  (installs its handlers on import)

    logging.getLogger("liesel").setLevel(logging.ERROR)
    logging.getLogger("absl").setLevel(logging.ERROR)


quiet()


@contextlib.contextmanager
def time_limit(seconds):
    def handler(signum, frame):
        raise TimeoutError()

    old = signal.signal(signal.SIGALRM, handler)
    signal.alarm(seconds)
    try:
        yield
    finally:
        signal.alarm(0)
        signal.signal(signal.SIGALRM, old)


class Collector:
    """collects violations (one per signature) and counts"""

    def __init__(self):
        self.violations = []
        self.sigs = set()
        self.evals = 0
        self.distinct = 0
        self.samples = []

    def add(self, v):
        self.evals += 1
        if v and v["sig"] not in self.sigs:
            self.sigs.add(v["sig"])
            self.violations.append(v)

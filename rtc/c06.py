"""C06 bounded stand-in: (1) iwls_utils.solve / mvn_log_prob / mvn_sample against closed forms on SPD matrices of
dimension 1-4 (the linear-algebra contracts the proof trusts); (2) reported acceptance probabilities of real RW / MH / IWLS
transitions against the analytic Metropolis-Hastings ratio in float64 (Poisson regression, default Hessian and user-supplied
position-dependent information)."""
from __future__ import annotations

import jax
import jax.numpy as jnp
import numpy as np

from rtc import util
import liesel.goose as gs
from liesel.goose.epoch import EpochConfig, EpochType
from liesel.goose.iwls_utils import mvn_log_prob, mvn_sample, solve


def la_cases(col, rng, n):
    for _ in range(n):
        d = int(rng.integers(1, 5))
        A = rng.normal(size=(d, d))
        P = A @ A.T + d * np.eye(d)  # precision
        L = np.linalg.cholesky(P)
        v, x, m = rng.normal(size=d), rng.normal(size=d), rng.normal(size=d)
        inp = {"dim": d}
        got = np.asarray(solve(jnp.asarray(L, jnp.float32), jnp.asarray(v, jnp.float32)), dtype=np.float64)
        if not np.allclose(got, np.linalg.solve(P, v), rtol=2e-3, atol=2e-4):
            col.add({"sig": "native::iwls_utils::solve", "what": "solve(L, v) != (LL')^-1 v", "input": inp})
            continue
        lp = float(mvn_log_prob(jnp.asarray(x, jnp.float32), jnp.asarray(m, jnp.float32), jnp.asarray(L, jnp.float32)))
        want = -0.5 * (x - m) @ P @ (x - m) + 0.5 * np.linalg.slogdet(P)[1] - 0.5 * d * np.log(2 * np.pi)
        if not np.isclose(lp, want, rtol=2e-3, atol=2e-3):
            col.add({"sig": "native::iwls_utils::mvn_log_prob", "what": f"mvn_log_prob={lp}, log N(x; m, (LL')^-1)={want}", "input": inp})
            continue
        key = jax.random.PRNGKey(int(rng.integers(0, 2**31)))
        smp = np.asarray(mvn_sample(key, jnp.asarray(m, jnp.float32), jnp.asarray(L, jnp.float32)), dtype=np.float64)
        z = np.asarray(jax.random.normal(key, (d,)), dtype=np.float64)
        if not np.allclose(L.T @ (smp - m), z, rtol=2e-3, atol=2e-3):
            col.add({"sig": "native::iwls_utils::mvn_sample", "what": "L'(sample - mean) is not the standard normal draw: sample not ~ N(m, (LL')^-1)", "input": inp})
            continue
        col.add(None)


# Poisson regression with Gaussian prior
X = np.array([[1.0, -0.5], [1.0, 0.3], [1.0, 1.2], [1.0, -1.4], [1.0, 0.8], [1.0, 2.0]])
Yc = np.array([1.0, 2.0, 5.0, 0.0, 3.0, 9.0])
TAU2 = 4.0


def logpi(b):
    eta = X @ b
    return float(np.sum(Yc * eta - np.exp(eta)) - 0.5 * b @ b / TAU2)


def grad(b):
    return X.T @ (Yc - np.exp(X @ b)) - b / TAU2


def info(b):
    return X.T @ (np.exp(X @ b)[:, None] * X) + np.eye(2) / TAU2


def logq(y, x, s):
    F = info(x)
    Finv = np.linalg.inv(F)
    mean = x + 0.5 * s**2 * Finv @ grad(x)
    P = F / s**2
    d = y - mean
    return float(-0.5 * d @ P @ d + 0.5 * np.linalg.slogdet(P)[1] - np.log(2 * np.pi))


def model():
    Xj, Yj = jnp.asarray(X, jnp.float32), jnp.asarray(Yc, jnp.float32)
    return gs.DictInterface(lambda s: jnp.sum(Yj * (Xj @ s["beta"]) - jnp.exp(Xj @ s["beta"])) - 0.5 * jnp.sum(s["beta"] ** 2) / TAU2)


def model_two_keys():
    """the same model with the coefficient vector split into two scalar parameters 'a' (first coefficient) and 'b' (second)"""
    Xj, Yj = jnp.asarray(X, jnp.float32), jnp.asarray(Yc, jnp.float32)

    def lp(s):
        beta = jnp.stack([s["a"], s["b"]])
        return jnp.sum(Yj * (Xj @ beta) - jnp.exp(Xj @ beta)) - 0.5 * jnp.sum(beta ** 2) / TAU2
    return gs.DictInterface(lp)


def model_cached():
    """the same target with the linear predictor CACHED in the state: the likelihood reads state['eta'], which a proposal has to move along with beta"""
    Yj = jnp.asarray(Yc, jnp.float32)
    return gs.DictInterface(lambda s: jnp.sum(Yj * s["eta"] - jnp.exp(s["eta"])) - 0.5 * jnp.sum(s["beta"] ** 2) / TAU2)


def kernel_case(col, kind, seed, n_tr):
    m = model()
    Xj = jnp.asarray(X, jnp.float32)
    step = {"iwls": 0.9, "iwls_user": 0.9, "rw": 0.4, "mh": 0.4, "mh_cached": 0.4, "iwls_unsorted_keys": 0.9, "rw_unsorted_keys": 0.4}[kind]
    two = kind.endswith("unsorted_keys")
    if kind == "iwls_unsorted_keys":
        m = model_two_keys()
        k = gs.IWLSKernel(["b", "a"], initial_step_size=step)  # position keys listed in NON-alphabetical order
    elif kind == "rw_unsorted_keys":
        m = model_two_keys()
        k = gs.RWKernel(["b", "a"], initial_step_size=step)
    elif kind == "iwls":
        k = gs.IWLSKernel(["beta"], initial_step_size=step)
    elif kind == "iwls_user":
        k = gs.IWLSKernel(["beta"], initial_step_size=step, chol_info_fn=lambda st: jnp.linalg.cholesky(Xj.T @ (jnp.exp(Xj @ st["beta"])[:, None] * Xj) + jnp.eye(2) / TAU2))
    elif kind == "rw":
        k = gs.RWKernel(["beta"], initial_step_size=step)
    else:
        # asymmetric user proposal x' = x + step*(z + 0.5): log q(x|x') - log q(x'|x) = -(x'-x)/step... closed form below
        def prop(key, st, step_):
            z = jax.random.normal(key, (2,))
            new = st["beta"] + step_ * (z + 0.5)
            # q(x'|x) = N(x + 0.5 step, step^2 I); log q(x|x') - log q(x'|x) = -(d+0.5s)^2/(2s^2) + (d-0.5s)^2/(2s^2) summed, d = x'-x
            d = new - st["beta"]
            corr = jnp.sum(((d - 0.5 * step_) ** 2 - (d + 0.5 * step_) ** 2) / (2 * step_**2))
            if kind == "mh_cached":  # the realised proposal also carries the cached predictor (an entry beyond the kernel's position keys)
                return gs.MHProposal({"beta": new, "eta": Xj @ new}, corr)
            return gs.MHProposal({"beta": new}, corr)
        k = gs.MHKernel(["beta"], prop, initial_step_size=step)
        if kind == "mh_cached":
            m = model_cached()
    k.set_model(m)
    key = jax.random.PRNGKey(seed)
    ms = {"beta": jnp.array([0.3, 0.6], jnp.float32)} if not two else {"a": jnp.float32(0.3), "b": jnp.float32(0.6)}
    if kind == "mh_cached":
        ms["eta"] = Xj @ ms["beta"]
    vec = (lambda st: np.asarray(st["beta"], np.float64)) if not two else (lambda st: np.array([float(st["a"]), float(st["b"])], np.float64))
    ks = k.init_state(key, ms)
    ep = EpochConfig(EpochType.POSTERIOR, n_tr, 1, None).to_state(1, 0)
    tr = jax.jit(k.transition)
    n_acc, worst = 0, 0.0
    for _ in range(n_tr):
        key, sub = jax.random.split(key)
        out = tr(sub, ks, ms, ep)
        x, y = vec(ms), vec(out.model_state)
        p = float(out.info.acceptance_prob)
        if not np.array_equal(x, y):
            n_acc += 1
            if kind.startswith("iwls"):
                lr = logpi(y) - logpi(x) + logq(x, y, step) - logq(y, x, step)
            elif kind.startswith("rw"):
                lr = logpi(y) - logpi(x)
            else:
                d = y - x
                lr = logpi(y) - logpi(x) + float(np.sum(((d - 0.5 * step) ** 2 - (d + 0.5 * step) ** 2) / (2 * step**2)))
            want = min(1.0, float(np.exp(lr)))
            worst = max(worst, abs(p - want))
            if abs(p - want) > 5e-3:
                col.add({"sig": f"native::detailed_balance::{kind}", "what": f"{kind}: reported acceptance probability {p:.5f} but min(1, pi(x')q(x|x')/(pi(x)q(x'|x))) = {want:.5f}",
                         "input": {"kernel": kind, "x": x.tolist(), "x_proposed": y.tolist(), "step_size": step}})
                return
        ms = out.model_state
    if n_acc == 0:
        col.add({"sig": "native::infrastructure::coverage", "what": f"{kind}: no accepted move in {n_tr} transitions", "input": {"kernel": kind}})
    else:
        col.add(None)


def proposal_distribution_case(col, user_info, n=4000):
    """the realised IWLS proposals themselves (not only the reported probability): from a fixed point of a correlated bivariate Gaussian target
    (precision P = [[1, .95], [.95, 1]], step size 0.05, acceptance ~ 1) the whitened steps (x' - mu)/s over many keys must have covariance F^-1"""
    P = jnp.asarray([[1.0, 0.95], [0.95, 1.0]], jnp.float32)
    s_ = 0.05
    if user_info:
        model = gs.DictInterface(lambda st: -0.5 * jnp.stack([st["a"], st["b"]]) @ P @ jnp.stack([st["a"], st["b"]]))
        k = gs.IWLSKernel(["a", "b"], chol_info_fn=lambda st: jnp.linalg.cholesky(P), initial_step_size=s_)
        ms = {"a": jnp.float32(0.3), "b": jnp.float32(-0.2)}
        flat = lambda st: jnp.stack([st["a"], st["b"]])  # noqa: E731
    else:
        model = gs.DictInterface(lambda st: -0.5 * st["x"] @ P @ st["x"])
        k = gs.IWLSKernel(["x"], initial_step_size=s_)
        ms = {"x": jnp.asarray([0.3, -0.2], jnp.float32)}
        flat = lambda st: st["x"]  # noqa: E731
    k.set_model(model)
    ep = EpochConfig(EpochType.POSTERIOR, 10, 1, None).to_state(1, 0)
    ks0 = k.init_state(jax.random.PRNGKey(0), ms)
    keys = jax.random.split(jax.random.PRNGKey(11), n)
    out = jax.jit(jax.vmap(lambda kk: k.transition(kk, ks0, ms, ep)))(keys)
    moved = np.asarray(out.info.position_moved).astype(bool)
    x0 = np.asarray(flat(ms), np.float64)
    Pn = np.asarray(P, np.float64)
    mu = x0 + (s_**2 / 2) * np.linalg.solve(Pn, -Pn @ x0)
    xs = np.asarray(jax.vmap(flat)(out.model_state), np.float64)[moved]
    emp = np.cov(((xs - mu) / s_).T)
    want = np.linalg.inv(Pn)
    ok = moved.mean() > 0.9 and np.allclose(emp, want, atol=0.12 * np.abs(want).max())
    col.add(None if ok else {"sig": "native::iwls::proposal_covariance", "what": f"covariance of the whitened realised proposals {emp.round(2).tolist()} (accepted share {moved.mean():.2f}), "
                             f"the proposal density used in the correction has s^2 F^-1 with F^-1 = {want.round(2).tolist()}", "input": {"user_chol_info_fn": user_info, "transitions": n, "step_size": s_}})


def special_corrections(col):
    """user proposals whose declared log-correction is -inf (the move cannot be reversed: q(x|x') = 0), +inf, NaN or finite: the reported
    acceptance probability must be min(1, exp(log-density difference + correction)) - 0 for -inf, rejection with code 90 for NaN"""
    from rtc.c05 import kernel_cases
    sub = util.Collector()
    kernel_cases(sub, corrections=(float("-inf"), float("nan"), float("inf"), 0.7, -0.7), light=True)
    for v in sub.violations:
        if "mh_kernel" in v["sig"]:
            col.add({**v, "sig": "native::mh_correction::special_values"})
            return
    col.add(None)


def replay(unit_id, obligation, model):
    if unit_id == "C06.mh.correction_bit_for_bit":
        col = util.Collector()
        special_corrections(col)
        return col.violations[0] if col.violations else None
    return None


def bounded(tier, seed):
    rng = np.random.default_rng(seed)
    col = util.Collector()
    n_la = 40 if tier == "quick" else 1500
    la_cases(col, rng, n_la)
    n_tr = 25 if tier == "quick" else 300
    for kind in ("iwls", "iwls_user", "rw", "mh", "mh_cached", "iwls_unsorted_keys", "rw_unsorted_keys"):
        kernel_case(col, kind, seed + 3, n_tr)
    special_corrections(col)
    for ui in (False, True):
        try:
            proposal_distribution_case(col, ui)
        except Exception as e:
            col.add({"sig": f"native::iwls::exception::{type(e).__name__}", "what": str(e)[:200], "input": {"scenario": "proposal covariance", "user_chol_info_fn": ui}})
    return {
        "evaluations": col.evals, "distinct_nontrivial": n_la + 4,
        "rule": (f"BOUNDED: iwls_utils on {n_la} seeded SPD precision matrices of dimension 1-4 against numpy closed forms (solve, log-density, sample identity "
                 f"L'(x-m)=z); {n_tr} real jitted transitions each of IWLS (autodiff Hessian), IWLS (user chol_info_fn = exact Fisher information, position dependent), RW and MH, IWLS and RW over two scalar keys listed in non-alphabetical order "
                 "(asymmetric user proposal with its analytic correction; and the same proposal on a model whose state caches the linear predictor, the proposal moving the cache along) on a 2-parameter Poisson regression: for every accepted move the reported acceptance probability is "
                 f"compared with the analytic MH ratio in float64 (tolerance 5e-3); covariance of 4000 realised IWLS proposals on a correlated bivariate Gaussian target (autodiff Hessian and user chol_info_fn) against F^-1 (statistical, tolerance 12 % of the largest entry); MH kernel with declared corrections -inf / +inf / NaN / +-0.7. seed={seed}"),
        "samples": [{"kernel": "iwls_user", "step_size": 0.9}],
        "exhaustive": False, "violations": col.violations,
    }

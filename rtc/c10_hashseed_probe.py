"""Run by rtc/c10.py in subprocesses with different PYTHONHASHSEED: prints a digest of the first recorded samples."""
import hashlib
import sys

import jax
import jax.numpy as jnp
import numpy as np

from rtc import util  # noqa: F401
import liesel.goose as gs
from liesel.goose.epoch import EpochConfig, EpochType

b = gs.EngineBuilder(seed=int(sys.argv[1]), num_chains=2)
b.set_epochs([EpochConfig(EpochType.INITIAL_VALUES, 1, 1, None), EpochConfig(EpochType.POSTERIOR, 2, 1, None)])
b.set_model(gs.DictInterface(lambda s: -0.5 * sum(jnp.sum(s[k] ** 2) for k in ("alpha", "beta", "gamma", "delta"))))
b.set_initial_values({k: jnp.float32(i) for i, k in enumerate(("alpha", "beta", "gamma", "delta"))})
for k in ("alpha", "beta", "gamma", "delta"):
    b.add_kernel(gs.RWKernel([k]))
b.set_jitter_fns({k: (lambda key, v: v + jax.random.uniform(key, v.shape)) for k in ("gamma", "alpha", "delta", "beta")})
b.show_progress = False
e = b.build()
e.sample_next_epoch()
s = e.get_results().get_samples()
h = hashlib.sha256(b"".join(np.asarray(s[k]).tobytes() for k in sorted(s))).hexdigest()
print("DIGEST", h)

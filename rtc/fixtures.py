"""Recording kernel and small engines for the bounded stand-ins (C07, C08, C09, C10, C19)."""
from __future__ import annotations

from typing import ClassVar

import jax
import jax.numpy as jnp
import numpy as np

from rtc import util  # noqa: F401
import liesel.goose as gs
from liesel.goose.engine import Engine
from liesel.goose.epoch import EpochConfig, EpochState, EpochType
from liesel.goose.kernel import DefaultTransitionInfo, DefaultTuningInfo, ModelMixin, TransitionOutcome, TuningOutcome, WarmupOutcome
from liesel.goose.kernel_sequence import KernelSequence

START, TRANS, END, TUNE, END_WARMUP = 1, 2, 3, 4, 5
LOG = 96


def _log(ks, kind, epoch, extra=-1):
    row = jnp.array([kind, epoch.nth_epoch, epoch.config.type, epoch.time_in_epoch, epoch.time, extra], dtype=jnp.int32)
    return {"log": ks["log"].at[ks["ptr"]].set(row), "ptr": ks["ptr"] + 1}


class RecordingKernel(ModelMixin):
    """Deterministic kernel: x[key] += 1 per transition (ignores its PRNG key) and logs every lifecycle call in its state.
    error codes: returns `codes[time % len(codes)]` if given."""

    error_book: ClassVar[dict[int, str]] = {0: "no errors", 1: "error one", 2: "error two"}
    needs_history: ClassVar[bool] = False
    identifier: str = ""

    def __init__(self, position_keys, needs_history=False, codes=None, use_key=False):
        self._model = None
        self.position_keys = tuple(position_keys)
        self.needs_history = needs_history
        self.codes = None if codes is None else jnp.asarray(codes, dtype=jnp.int32)
        self.use_key = use_key

    def init_state(self, prng_key, model_state):
        return {"log": -jnp.ones((LOG, 6), dtype=jnp.int32), "ptr": jnp.int32(0)}

    def start_epoch(self, prng_key, kernel_state, model_state, epoch):
        return _log(kernel_state, START, epoch)

    def end_epoch(self, prng_key, kernel_state, model_state, epoch):
        return _log(kernel_state, END, epoch)

    def transition(self, prng_key, kernel_state, model_state, epoch):
        pos = self.position(model_state)
        if self.use_key:
            new = {k: v + jax.random.normal(prng_key, jnp.shape(v)) for k, v in pos.items()}
        else:
            new = {k: v + 1.0 for k, v in pos.items()}
        code = jnp.int32(0)
        if self.codes is not None:
            code = self.codes[epoch.time % self.codes.shape[0]]
        ms = self.model.update_state(new, model_state)
        info = DefaultTransitionInfo(error_code=code, acceptance_prob=jnp.float32(1.0), position_moved=jnp.int32(1))
        return TransitionOutcome(info, _log(kernel_state, TRANS, epoch), ms)

    def tune(self, prng_key, kernel_state, model_state, epoch, history=None):
        n = -1 if history is None else jax.tree_util.tree_leaves(history)[0].shape[0]
        info = DefaultTuningInfo(error_code=0, time=epoch.time)
        return TuningOutcome(info, _log(kernel_state, TUNE, epoch, n))

    def end_warmup(self, prng_key, kernel_state, model_state, tuning_history):
        ep = EpochState(EpochConfig(jnp.int32(-1), 0, 1, None), jnp.int32(-1), jnp.int32(-1), jnp.int32(-1), jnp.int32(-1))
        return WarmupOutcome(error_code=0, kernel_state=_log(kernel_state, END_WARMUP, ep))


def mk_cfg(t, d, th=1):
    return EpochConfig(EpochType(t), d, th, None)


def make_engine(schedule, chunk, chains=1, kernels=1, needs_history=(False, False), seed=0, store_kernel_states=False, codes=None,
                position_keys=None, use_key=False, model_states=None, minimize_transition_infos=False, share_config_objects=False):
    """Engine built directly (chunk size under our control). Model: dict state {'p0','p1'} with log-prob 0."""
    ks = [RecordingKernel([f"p{i}"], needs_history=needs_history[i], codes=None if codes is None else codes[i], use_key=use_key) for i in range(kernels)]
    model = gs.DictInterface(lambda s: 0.0)
    for i, k in enumerate(ks):
        k.set_model(model)
        k.identifier = f"kernel_{i:02d}"
    if model_states is None:
        model_states = {f"p{i}": jnp.arange(chains, dtype=jnp.float32) * 100.0 + i * 1000.0 for i in range(2)}
    seeds = jax.random.split(jax.random.PRNGKey(seed), chains)
    cfgs = [mk_cfg(*c) for c in schedule]
    if share_config_objects:  # `[slow] * 3`: consecutive epochs with equal settings share ONE EpochConfig object
        for j in range(1, len(cfgs)):
            if schedule[j] == schedule[j - 1]:
                cfgs[j] = cfgs[j - 1]
    return Engine(seeds=seeds, model_states=model_states, kernel_sequence=KernelSequence(ks), epoch_configs=cfgs,
                  jitted_sample_duration=chunk, model=model, position_keys=position_keys, store_kernel_states=store_kernel_states, show_progress=False,
                  minimize_transition_infos=minimize_transition_infos)


def kernel_logs(engine):
    """[kernel][chain] -> list of event rows"""
    out = []
    for ks in engine._kernel_states:
        log, ptr = np.asarray(ks["log"]), np.asarray(ks["ptr"])
        out.append([[tuple(int(x) for x in row) for row in log[c][: int(ptr[c])]] for c in range(log.shape[0])])
    return out


def expected_trace(schedule, needs_history):
    """the C07 statement, per kernel and chain; schedule[0] is the INITIAL_VALUES epoch"""
    ev = []
    T = schedule[0][1]
    ended = False
    for j, (t, d, th) in enumerate(schedule[1:], start=1):
        if t == 4 and not ended:
            ev.append((END_WARMUP, -1, -1, -1, -1, -1))
            ended = True
        ev.append((START, j, t, 0, T, -1))
        for i in range(d):
            ev.append((TRANS, j, t, i, T + i, -1))
        ev.append((END, j, t, d, T + d, -1))
        if t in (1, 2):
            n = sum(1 for i in range(1, d + 1) if i % th == 0) if needs_history else -1
            ev.append((TUNE, j, t, d, T + d, n))
        T += d
    return ev
